"""Fail-closed translator for the claim-redaction sources of C35 -> coq/gen/G_Redact.v.

Regenerated from the tree under test on every run:
  * ``_DEFAULT_CLAIM_REDACT_RE``            -> ``gen_redact_re : re``            (via translate/t_regex.py)
  * ``REDACTED = "<literal>"``              -> ``gen_REDACTED : list N``
  * ``redact_claims`` (+ ``_redact_nested``) -> ``gen_redact_claims : claims -> claims`` -- exactly two
    source shapes are understood: the dict comprehension whose else-branch is the bare value (top level
    only -> ``redact_flat_entries``) and the one whose else-branch calls ``_redact_nested`` with the
    mapping / list-or-tuple / other case split (-> ``redact_entries``)
  * ``apply_claim_redaction``               -> ``gen_apply_handler : handler`` (class named by the except clause;
    the handler must return ``{}``)
  * claims branch of ``_emit_access_log``   -> ``gen_emit_claims`` (the guard ``if auth.claims`` /
    ``if redacted`` structure), and the fact that the function mentions ``.claims`` / ``"claims"`` nowhere else
Any other shape raises TranslationBroken.
"""
from __future__ import annotations

import ast
from pathlib import Path

from translate import t_regex
from vlib.core import TranslationBroken

HEADER = (
    "From Coq Require Import List NArith ZArith Bool.\n"
    "From VGI Require Import Regex M_Redact.\n"
    "Import ListNotations.\nOpen Scope N_scope.\n"
)


def _parse(path: Path) -> ast.Module:
    try:
        return ast.parse(path.read_text())
    except (OSError, SyntaxError) as e:
        raise TranslationBroken(str(path), f"cannot parse: {e}") from e


def _func(tree: ast.Module, name: str, site: str) -> ast.FunctionDef:
    found = [n for n in tree.body if isinstance(n, ast.FunctionDef) and n.name == name]
    if len(found) != 1:
        raise TranslationBroken(site, f"expected exactly one module-level def {name}, found {len(found)}")
    return found[0]


def _body(fn: ast.FunctionDef) -> list[ast.stmt]:
    body = list(fn.body)
    if body and isinstance(body[0], ast.Expr) and isinstance(body[0].value, ast.Constant) and isinstance(body[0].value.value, str):
        body = body[1:]
    return body


def _argnames(fn: ast.FunctionDef, site: str) -> list[str]:
    a = fn.args
    if a.vararg or a.kwarg or a.kwonlyargs or a.posonlyargs or a.defaults or fn.decorator_list:
        raise TranslationBroken(site, "unexpected signature / decorators")
    return [x.arg for x in a.args]


def _is_name(n: ast.AST, ident: str) -> bool:
    return isinstance(n, ast.Name) and n.id == ident


def _is_call(n: ast.AST, fname: str, args: list[str]) -> bool:
    return (
        isinstance(n, ast.Call)
        and _is_name(n.func, fname)
        and not n.keywords
        and len(n.args) == len(args)
        and all(_is_name(a, x) for a, x in zip(n.args, args))
    )


def redacted_constant(tree: ast.Module, site: str) -> str:
    vals = []
    for n in tree.body:
        if isinstance(n, ast.Assign) and len(n.targets) == 1 and _is_name(n.targets[0], "REDACTED"):
            vals.append(n.value)
        elif isinstance(n, ast.AnnAssign) and _is_name(n.target, "REDACTED") and n.value is not None:
            vals.append(n.value)
    if len(vals) != 1 or not (isinstance(vals[0], ast.Constant) and isinstance(vals[0].value, str)):
        raise TranslationBroken(site, "REDACTED is not a single module-level string literal")
    # no other statement may rebind it
    for n in ast.walk(tree):
        if isinstance(n, (ast.Global, ast.Nonlocal)) and "REDACTED" in n.names:
            raise TranslationBroken(site, "REDACTED is rebound")
    return vals[0].value


def redact_shape(tree: ast.Module, site: str) -> str:
    """'recursive' | 'flat' for redact_claims."""
    fn = _func(tree, "redact_claims", site)
    if _argnames(fn, site) != ["claims"]:
        raise TranslationBroken(site, "redact_claims signature changed")
    body = _body(fn)
    if len(body) != 1 or not isinstance(body[0], ast.Return) or not isinstance(body[0].value, ast.DictComp):
        raise TranslationBroken(site, "redact_claims is not a single `return {…}` dict comprehension")
    dc = body[0].value
    if len(dc.generators) != 1:
        raise TranslationBroken(site, "redact_claims: more than one generator")
    g = dc.generators[0]
    ok_gen = (
        not g.ifs
        and not g.is_async
        and isinstance(g.target, ast.Tuple)
        and len(g.target.elts) == 2
        and _is_name(g.target.elts[0], "k")
        and _is_name(g.target.elts[1], "v")
        and isinstance(g.iter, ast.Call)
        and not g.iter.args
        and not g.iter.keywords
        and isinstance(g.iter.func, ast.Attribute)
        and g.iter.func.attr == "items"
        and _is_name(g.iter.func.value, "claims")
    )
    if not ok_gen or not _is_name(dc.key, "k"):
        raise TranslationBroken(site, "redact_claims: comprehension is not `k: … for k, v in claims.items()`")
    val = dc.value
    if not isinstance(val, ast.IfExp):
        raise TranslationBroken(site, "redact_claims: value is not a conditional expression")
    t = val.test
    ok_test = (
        isinstance(t, ast.Call)
        and not t.keywords
        and len(t.args) == 1
        and _is_name(t.args[0], "k")
        and isinstance(t.func, ast.Attribute)
        and t.func.attr == "search"
        and _is_name(t.func.value, "_DEFAULT_CLAIM_REDACT_RE")
    )
    if not ok_test or not _is_name(val.body, "REDACTED"):
        raise TranslationBroken(site, "redact_claims: not `REDACTED if _DEFAULT_CLAIM_REDACT_RE.search(k) else …`")
    if _is_name(val.orelse, "v"):
        return "flat"
    if _is_call(val.orelse, "_redact_nested", ["v"]):
        _check_nested(tree, site)
        return "recursive"
    raise TranslationBroken(site, f"redact_claims: unknown else-branch {ast.dump(val.orelse)[:80]}")


def _isinstance_test(n: ast.AST, var: str) -> list[str] | None:
    if not (isinstance(n, ast.Call) and _is_name(n.func, "isinstance") and len(n.args) == 2 and not n.keywords and _is_name(n.args[0], var)):
        return None
    c = n.args[1]
    if isinstance(c, ast.Name):
        return [c.id]
    if isinstance(c, ast.Tuple) and all(isinstance(e, ast.Name) for e in c.elts):
        return [e.id for e in c.elts]  # type: ignore[attr-defined]
    return None


def _check_nested(tree: ast.Module, site: str) -> None:
    fn = _func(tree, "_redact_nested", site)
    if _argnames(fn, site) != ["value"]:
        raise TranslationBroken(site, "_redact_nested signature changed")
    b = _body(fn)
    if len(b) != 3 or not (isinstance(b[0], ast.If) and isinstance(b[1], ast.If) and isinstance(b[2], ast.Return)):
        raise TranslationBroken(site, "_redact_nested: expected `if …: return …` twice, then `return value`")
    i0, i1, r = b
    if i0.orelse or i1.orelse or len(i0.body) != 1 or len(i1.body) != 1:
        raise TranslationBroken(site, "_redact_nested: unexpected branch bodies")
    if _isinstance_test(i0.test, "value") != ["Mapping"]:
        raise TranslationBroken(site, "_redact_nested: first test is not isinstance(value, Mapping)")
    if not (isinstance(i0.body[0], ast.Return) and i0.body[0].value is not None and _is_call(i0.body[0].value, "redact_claims", ["value"])):
        raise TranslationBroken(site, "_redact_nested: mapping branch is not `return redact_claims(value)`")
    kinds = _isinstance_test(i1.test, "value")
    if kinds is None or sorted(kinds) != ["list", "tuple"]:
        raise TranslationBroken(site, "_redact_nested: second test is not isinstance(value, (list, tuple))")
    rv = i1.body[0].value if isinstance(i1.body[0], ast.Return) else None
    ok_lc = (
        isinstance(rv, ast.ListComp)
        and len(rv.generators) == 1
        and not rv.generators[0].ifs
        and not rv.generators[0].is_async
        and _is_name(rv.generators[0].target, "item")
        and _is_name(rv.generators[0].iter, "value")
        and _is_call(rv.elt, "_redact_nested", ["item"])
    )
    if not ok_lc:
        raise TranslationBroken(site, "_redact_nested: list branch is not `[_redact_nested(item) for item in value]`")
    if r.value is None or not _is_name(r.value, "value"):
        raise TranslationBroken(site, "_redact_nested: does not end with `return value`")
    # Mapping must be collections.abc.Mapping
    imported = any(
        isinstance(n, ast.ImportFrom) and n.module == "collections.abc" and any(a.name == "Mapping" and a.asname is None for a in n.names)
        for n in tree.body
    )
    if not imported:
        raise TranslationBroken(site, "Mapping is not imported from collections.abc at module level")


def default_redactor_binding(tree: ast.Module, site: str) -> None:
    """`_claim_redactor: … = redact_claims` at module level (the default installed redactor)."""
    for n in tree.body:
        if isinstance(n, ast.AnnAssign) and _is_name(n.target, "_claim_redactor"):
            if n.value is not None and _is_name(n.value, "redact_claims"):
                return
        if isinstance(n, ast.Assign) and len(n.targets) == 1 and _is_name(n.targets[0], "_claim_redactor"):
            if _is_name(n.value, "redact_claims"):
                return
    raise TranslationBroken(site, "the default _claim_redactor is not redact_claims")


def apply_handler(tree: ast.Module, site: str) -> str:
    fn = _func(tree, "apply_claim_redaction", site)
    if _argnames(fn, site) != ["claims"]:
        raise TranslationBroken(site, "apply_claim_redaction signature changed")
    b = _body(fn)
    if len(b) != 1 or not isinstance(b[0], ast.Try):
        raise TranslationBroken(site, "apply_claim_redaction is not a single try statement")
    t = b[0]
    if t.orelse or t.finalbody or len(t.handlers) != 1 or len(t.body) != 1:
        raise TranslationBroken(site, "apply_claim_redaction: unexpected try structure")
    if not (isinstance(t.body[0], ast.Return) and t.body[0].value is not None and _is_call(t.body[0].value, "_claim_redactor", ["claims"])):
        raise TranslationBroken(site, "apply_claim_redaction: try body is not `return _claim_redactor(claims)`")
    h = t.handlers[0]
    if h.type is None or _is_name(h.type, "BaseException"):
        cls = "CatchBaseException"
    elif _is_name(h.type, "Exception"):
        cls = "CatchException"
    else:
        raise TranslationBroken(site, f"apply_claim_redaction: handler catches {ast.dump(h.type)[:60]}")
    *pre, last = h.body
    for s in pre:
        if not (isinstance(s, ast.Expr) and isinstance(s.value, ast.Call)):
            raise TranslationBroken(site, "apply_claim_redaction: handler does more than log")
    if not (isinstance(last, ast.Return) and isinstance(last.value, ast.Dict) and not last.value.keys):
        raise TranslationBroken(site, "apply_claim_redaction: handler does not `return {}`")
    return cls


def emit_branch(server_py: Path) -> None:
    """The claims branch of _emit_access_log has the modelled guard structure and is the only mention of claims."""
    site = f"{server_py}:_emit_access_log"
    tree = _parse(server_py)
    fn = _func(tree, "_emit_access_log", site)
    attr_claims = [n for n in ast.walk(fn) if isinstance(n, ast.Attribute) and n.attr == "claims"]
    const_claims = [n for n in ast.walk(fn) if isinstance(n, ast.Constant) and n.value == "claims"]
    ifs = [
        n
        for n in ast.walk(fn)
        if isinstance(n, ast.If) and isinstance(n.test, ast.Attribute) and n.test.attr == "claims" and _is_name(n.test.value, "auth")
    ]
    if len(ifs) != 1 or len(attr_claims) != 2 or len(const_claims) != 1:
        raise TranslationBroken(site, f"claims mentioned outside the single guarded branch (ifs={len(ifs)}, .claims={len(attr_claims)}, 'claims'={len(const_claims)})")
    br = ifs[0]
    if br.orelse or len(br.body) != 3:
        raise TranslationBroken(site, "claims branch: expected import, assignment, inner if")
    imp, asg, inner = br.body
    if not (isinstance(imp, ast.ImportFrom) and imp.module == "vgi_rpc.logging_utils" and [a.name for a in imp.names] == ["apply_claim_redaction"] and imp.names[0].asname is None):
        raise TranslationBroken(site, "claims branch: apply_claim_redaction is not imported from vgi_rpc.logging_utils")
    ok_asg = (
        isinstance(asg, ast.Assign)
        and len(asg.targets) == 1
        and _is_name(asg.targets[0], "redacted")
        and isinstance(asg.value, ast.Call)
        and _is_name(asg.value.func, "apply_claim_redaction")
        and not asg.value.keywords
        and len(asg.value.args) == 1
        and isinstance(asg.value.args[0], ast.Attribute)
        and asg.value.args[0].attr == "claims"
        and _is_name(asg.value.args[0].value, "auth")
    )
    if not ok_asg:
        raise TranslationBroken(site, "claims branch: not `redacted = apply_claim_redaction(auth.claims)`")
    ok_inner = (
        isinstance(inner, ast.If)
        and _is_name(inner.test, "redacted")
        and not inner.orelse
        and len(inner.body) == 1
        and isinstance(inner.body[0], ast.Assign)
        and len(inner.body[0].targets) == 1
        and isinstance(inner.body[0].targets[0], ast.Subscript)
        and _is_name(inner.body[0].targets[0].value, "extra")
        and isinstance(inner.body[0].targets[0].slice, ast.Constant)
        and inner.body[0].targets[0].slice.value == "claims"
        and _is_name(inner.body[0].value, "redacted")
    )
    if not ok_inner:
        raise TranslationBroken(site, "claims branch: not `if redacted: extra[\"claims\"] = redacted`")
    # `redacted` is not used anywhere else in the function
    uses = [n for n in ast.walk(fn) if _is_name(n, "redacted")]
    if len(uses) != 3:
        raise TranslationBroken(site, "the name `redacted` is used outside the claims branch")


def generate(repo: Path) -> str:
    lu = repo / "vgi_rpc" / "logging_utils.py"
    site = str(lu)
    tree = _parse(lu)
    out = [HEADER]
    out.append(t_regex.regex_definition(lu, "_DEFAULT_CLAIM_REDACT_RE", "gen_redact_re"))
    red = redacted_constant(tree, site)
    out.append(f"(* REDACTED = {red!r} *)\nDefinition gen_REDACTED : list N := [" + ";".join(str(ord(c)) for c in red) + "].\n")
    shape = redact_shape(tree, site)
    default_redactor_binding(tree, site)
    fn = "redact_entries" if shape == "recursive" else "redact_flat_entries"
    out.append(f"(* redact_claims: {shape} *)\nDefinition gen_redact_claims : claims -> claims := {fn} (sensitive_with gen_redact_re).\n")
    out.append(f"Definition gen_apply_handler : handler := {apply_handler(tree, site)}.\n")
    emit_branch(repo / "vgi_rpc" / "rpc" / "_server.py")
    out.append(
        "(* claims branch of _emit_access_log: `if auth.claims:` / `redacted = apply_claim_redaction(auth.claims)` /\n"
        "   `if redacted: extra[\"claims\"] = redacted`, and no other mention of claims in the function *)\n"
        "Definition gen_emit_claims (r : redactor) (c : claims) : logged :=\n"
        "  match c with\n  | [] => RecordWithoutClaims\n  | _ =>\n"
        "      match apply_claim_redaction_with gen_apply_handler r c with\n"
        "      | None => NoRecord\n      | Some [] => RecordWithoutClaims\n      | Some c' => RecordWithClaims c'\n      end\n  end.\n"
        "Definition gen_default_redactor : redactor := fun c => Returned (gen_redact_claims c).\n"
    )
    return "\n".join(out)
