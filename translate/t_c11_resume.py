"""Fail-closed translator for C11: the resume-token byte layout (client) and the producer loop's budget test (server).

Source shapes accepted -- anything else raises TranslationBroken (so gen/G_HttpProd.v carries no definitions and the
tie stops compiling):

vgi_rpc/http/_client.py
  def _encode_resume_token(state_bytes, call_state_bytes):
      return struct.pack("<I", len(state_bytes)) + state_bytes + (call_state_bytes or b"")
          -> gen_resume_layout := [FLen W32; FTail]   (the tail defaults to the empty string)
  def _decode_resume_token(token):
      if len(token) < <H>: raise ValueError(...)
      state_len = struct.unpack_from("<I", token, 0)[0]
      end = <H> + state_len
      if end > len(token): raise ValueError(...)
      call = token[end:]
      return token[<H>:end], call or None
          -> gen_dec_header_len := <H> ; gen_dec_width := W32 ; gen_dec_overrun_cmp := CGt ; gen_dec_empty_tail_is_none := true
  def _init_http_stream_session(...): exactly one try around the read loop whose only handler is
      except RpcError: _drain_stream(reader); raise
          -> gen_first_response_error_raises := true   (what M_HttpProd.parse_init models)

vgi_rpc/http/server/_app_stream.py, inside _run_http_producer_turn
  max_bytes = app._max_response_bytes
  should_continue = max_bytes is not None and <sink>.tell() < max_bytes       (exactly one such assignment)
  if not should_continue:  ... token ... break                                  (the statement right after it)
          -> gen_loop_cmp := CLt (or CLe / CGt / CGe as written) ; gen_loop_needs_cap := true ;
             gen_meter_front := true when <sink> is `write_sink` (the position in front of the compressor),
                                false when it is `resp_buf` (the position behind it)
  the loop is `while True:` and `if out.finished: break` precedes the budget test.
"""
from __future__ import annotations

import ast
from pathlib import Path

from vlib.core import TranslationBroken


def E(src: str) -> str:
    return ast.dump(ast.parse(src, mode="eval").body)


def S(src: str) -> str:
    return ast.dump(ast.parse(src).body[0])


def _parse(path: Path) -> ast.Module:
    try:
        return ast.parse(path.read_text())
    except (OSError, SyntaxError) as e:
        raise TranslationBroken(str(path), f"cannot parse: {e}") from e


def _func(tree: ast.Module, name: str, site: str) -> ast.FunctionDef:
    hits = [n for n in tree.body if isinstance(n, ast.FunctionDef) and n.name == name]
    if len(hits) != 1:
        raise TranslationBroken(site, f"expected exactly one module-level def {name}, found {len(hits)}")
    return hits[0]


def _body(fn: ast.FunctionDef) -> list[ast.stmt]:
    b = list(fn.body)
    if b and isinstance(b[0], ast.Expr) and isinstance(b[0].value, ast.Constant) and isinstance(b[0].value.value, str):
        b = b[1:]
    return b


_W = {"<I": "W32", "<H": "W16", "<Q": "W64", "<B": "W8", "B": "W8"}
_CMP = {ast.Lt: "CLt", ast.LtE: "CLe", ast.Gt: "CGt", ast.GtE: "CGe"}


def _is_raise_value_error(st: ast.stmt) -> bool:
    return (
        isinstance(st, ast.Raise)
        and isinstance(st.exc, ast.Call)
        and isinstance(st.exc.func, ast.Name)
        and st.exc.func.id == "ValueError"
    )


def client_part(path: Path) -> list[str]:
    tree = _parse(path)
    site = f"{path}:_encode_resume_token"
    fn = _func(tree, "_encode_resume_token", site)
    if [a.arg for a in fn.args.args] != ["state_bytes", "call_state_bytes"]:
        raise TranslationBroken(site, "parameters are not (state_bytes, call_state_bytes)")
    b = _body(fn)
    if len(b) != 1 or not isinstance(b[0], ast.Return) or b[0].value is None:
        raise TranslationBroken(site, "body is not a single return")
    fmt = None
    for f in _W:
        if ast.dump(b[0].value) == E(f'struct.pack("{f}", len(state_bytes)) + state_bytes + (call_state_bytes or b"")'):
            fmt = f
    if fmt is None:
        raise TranslationBroken(site, "return expression is not struct.pack(<fmt>, len(state_bytes)) + state_bytes + (call_state_bytes or b\"\")")
    out = [f"Definition gen_resume_layout : layout := [FLen {_W[fmt]}; FTail]."]

    site = f"{path}:_decode_resume_token"
    fn = _func(tree, "_decode_resume_token", site)
    if [a.arg for a in fn.args.args] != ["token"]:
        raise TranslationBroken(site, "parameter is not (token)")
    b = _body(fn)
    if len(b) != 6:
        raise TranslationBroken(site, f"expected 6 statements, found {len(b)}")
    s0, s1, s2, s3, s4, s5 = b
    # if len(token) < H: raise ValueError
    if not (isinstance(s0, ast.If) and not s0.orelse and len(s0.body) == 1 and _is_raise_value_error(s0.body[0])
            and isinstance(s0.test, ast.Compare) and ast.dump(s0.test.left) == E("len(token)") and len(s0.test.ops) == 1
            and isinstance(s0.test.ops[0], ast.Lt) and isinstance(s0.test.comparators[0], ast.Constant) and isinstance(s0.test.comparators[0].value, int)):
        raise TranslationBroken(site, "first statement is not `if len(token) < <int>: raise ValueError(...)`")
    hdr = s0.test.comparators[0].value
    dfmt = None
    for f in _W:
        if ast.dump(s1) == S(f'state_len = struct.unpack_from("{f}", token, 0)[0]'):
            dfmt = f
    if dfmt is None:
        raise TranslationBroken(site, "second statement is not state_len = struct.unpack_from(<fmt>, token, 0)[0]")
    if ast.dump(s2) != S(f"end = {hdr} + state_len"):
        raise TranslationBroken(site, f"third statement is not end = {hdr} + state_len")
    if not (isinstance(s3, ast.If) and not s3.orelse and len(s3.body) == 1 and _is_raise_value_error(s3.body[0])
            and isinstance(s3.test, ast.Compare) and ast.dump(s3.test.left) == E("end") and len(s3.test.ops) == 1
            and type(s3.test.ops[0]) in _CMP and ast.dump(s3.test.comparators[0]) == E("len(token)")):
        raise TranslationBroken(site, "fourth statement is not `if end <cmp> len(token): raise ValueError(...)`")
    if ast.dump(s4) != S("call = token[end:]"):
        raise TranslationBroken(site, "fifth statement is not call = token[end:]")
    if ast.dump(s5) != S(f"return token[{hdr}:end], call or None"):
        raise TranslationBroken(site, f"last statement is not return token[{hdr}:end], call or None")
    out += [
        f"Definition gen_dec_header_len : nat := {hdr}.",
        f"Definition gen_dec_width : width := {_W[dfmt]}.",
        f"Definition gen_dec_overrun_cmp : cmp := {_CMP[type(s3.test.ops[0])]}.",
        "Definition gen_dec_empty_tail_is_none : bool := true.",
    ]
    # _init_http_stream_session: an RpcError raised while the FIRST response is parsed is re-raised by the call
    # (model: parse_init ... FErr -> None, the batches read so far are dropped with the session)
    site = f"{path}:_init_http_stream_session"
    fn = _func(tree, "_init_http_stream_session", site)
    tries = [n for n in fn.body if isinstance(n, ast.Try)]
    if len(tries) != 1 or len(tries[0].handlers) != 1 or tries[0].orelse or tries[0].finalbody:
        raise TranslationBroken(site, "expected exactly one try/except around the read loop")
    h = tries[0].handlers[0]
    if not (h.type is not None and ast.dump(h.type) == E("RpcError") and h.name is None and len(h.body) == 2
            and ast.dump(h.body[0]) == S("_drain_stream(reader)") and isinstance(h.body[1], ast.Raise) and h.body[1].exc is None):
        raise TranslationBroken(site, "the handler is not `except RpcError: _drain_stream(reader); raise` -- the model of the first response (M_HttpProd.parse_init / iterate) must be revisited")
    out.append("Definition gen_first_response_error_raises : bool := true.")
    return out


def server_part(path: Path) -> list[str]:
    tree = _parse(path)
    site = f"{path}:_run_http_producer_turn"
    fn = _func(tree, "_run_http_producer_turn", site)
    assigns = [n for n in ast.walk(fn) if isinstance(n, ast.Assign) and len(n.targets) == 1 and isinstance(n.targets[0], ast.Name)]
    mb = [n for n in assigns if n.targets[0].id == "max_bytes"]
    if len(mb) != 1 or ast.dump(mb[0].value) != E("app._max_response_bytes"):
        raise TranslationBroken(site, "max_bytes is not assigned exactly once from app._max_response_bytes")
    loops = [n for n in ast.walk(fn) if isinstance(n, ast.While)]
    if len(loops) != 1 or ast.dump(loops[0].test) != E("True") or loops[0].orelse:
        raise TranslationBroken(site, "expected exactly one `while True:` loop")
    loop = loops[0]
    idx = [i for i, st in enumerate(loop.body) if isinstance(st, ast.Assign) and len(st.targets) == 1 and isinstance(st.targets[0], ast.Name) and st.targets[0].id == "should_continue"]
    if len(idx) != 1 or len([n for n in assigns if n.targets[0].id == "should_continue"]) != 1:
        raise TranslationBroken(site, "should_continue is not assigned exactly once, directly in the loop body")
    i = idx[0]
    val = loop.body[i].value
    sink = cmpname = None
    for snk in ("resp_buf", "write_sink"):
        for op, name in ((" < ", "CLt"), (" <= ", "CLe"), (" > ", "CGt"), (" >= ", "CGe")):
            if ast.dump(val) == E(f"max_bytes is not None and {snk}.tell(){op}max_bytes"):
                sink, cmpname = snk, name
    if sink is None:
        raise TranslationBroken(site, "should_continue is not `max_bytes is not None and <resp_buf|write_sink>.tell() <cmp> max_bytes`")
    # the statement after it: if not should_continue: ... break (last statement of the branch)
    nxt = loop.body[i + 1] if i + 1 < len(loop.body) else None
    if not (isinstance(nxt, ast.If) and ast.dump(nxt.test) == E("not should_continue") and not nxt.orelse and isinstance(nxt.body[-1], ast.Break)):
        raise TranslationBroken(site, "the statement after should_continue is not `if not should_continue: ...; break`")
    if i + 2 != len(loop.body):
        raise TranslationBroken(site, "statements follow the budget test inside the loop")
    # `if out.finished: break` precedes the budget test, after the flush
    fin = [j for j, st in enumerate(loop.body) if isinstance(st, ast.If) and ast.dump(st.test) == E("out.finished") and len(st.body) == 1 and isinstance(st.body[0], ast.Break) and not st.orelse]
    if len(fin) != 1 or not fin[0] < i:
        raise TranslationBroken(site, "`if out.finished: break` does not precede the budget test exactly once")
    flush = [j for j, st in enumerate(loop.body) if "_flush_collector" in ast.dump(st)]
    if len(flush) != 1 or not flush[0] < fin[0]:
        raise TranslationBroken(site, "_flush_collector is not called exactly once before the finished test")
    proc = [j for j, st in enumerate(loop.body) if ast.dump(st) == S("state.process(first_tick, out, produce_ctx)")]
    if len(proc) != 1 or not proc[0] < flush[0]:
        raise TranslationBroken(site, "state.process(first_tick, out, produce_ctx) is not called exactly once before the flush")
    # the codec only wraps the sink on turns that own the body
    codec = [n for n in assigns if n.targets[0].id == "codec"]
    if len(codec) != 1 or ast.dump(codec[0].value) != E("_current_response_codec.get() if owns_response_body else None"):
        raise TranslationBroken(site, "codec is not `_current_response_codec.get() if owns_response_body else None`")
    return [
        f"Definition gen_loop_cmp : cmp := {cmpname}.",
        "Definition gen_loop_needs_cap : bool := true.",
        f"Definition gen_meter_front : bool := {'true' if sink == 'write_sink' else 'false'}.",
    ]


def generate(repo: Path) -> str:
    lines = [
        "From Coq Require Import List NArith.",
        "From VGI Require Import Bytes Layout M_HttpProd.",
        "Import ListNotations.",
    ]
    lines += client_part(repo / "vgi_rpc" / "http" / "_client.py")
    lines += server_part(repo / "vgi_rpc" / "http" / "server" / "_app_stream.py")
    return "\n".join(lines) + "\n"


def meter_front(repo: Path) -> bool:
    return any("gen_meter_front : bool := true" in l for l in server_part(repo / "vgi_rpc" / "http" / "server" / "_app_stream.py"))
