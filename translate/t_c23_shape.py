"""Fail-closed translator for vgi_rpc/http/_replay.py (property C23).

Reads the class ``NonceCache`` and checks that every method has exactly the statement structure the
Coq model M_Nonce.v describes; the only degrees of freedom it accepts (and emits, as data) are

  * whether ``now = self._clock()`` stands before ``with self._lock:`` or is its first statement,
  * the comparison operators of the four guards (sweep break, eviction loop, the two constructor
    checks),
  * the value of ``DEFAULT_CAPACITY``.

Anything else -- an extra statement, a second lock section, another method touching ``_entries``,
a different expiry expression -- raises :class:`vlib.core.TranslationBroken`.
"""
from __future__ import annotations

import ast
import copy
from pathlib import Path
from typing import Any

from vlib.core import TranslationBroken

SITE = "vgi_rpc/http/_replay.py"

_CMP = {ast.Lt: "CLt", ast.LtE: "CLe", ast.Gt: "CGt", ast.GtE: "CGe", ast.Eq: "CEq", ast.NotEq: "CNe"}

_BODY = """
self._sweep(now)
if nonce in self._entries:
    self._replays += 1
    return False
while len(self._entries) >= self.capacity:
    self._entries.popitem(last=False)
    self._evicted += 1
self._entries[nonce] = now + self.ttl_seconds
return True
"""
_CLOCK = "now = self._clock()"
_SWEEP = """
entries = self._entries
while entries:
    nonce, expires_at = next(iter(entries.items()))
    if expires_at > now:
        break
    del entries[nonce]
"""
_INIT_TAIL = """
self.ttl_seconds = float(ttl_seconds)
self.capacity = int(capacity)
self._clock = clock if clock is not None else time.monotonic
self._entries: OrderedDict[str, float] = OrderedDict()
self._lock = threading.Lock()
self._evicted = 0
self._replays = 0
"""
_STATS = """
with self._lock:
    return {
        "size": len(self._entries),
        "capacity": self.capacity,
        "replays_rejected": self._replays,
        "overflow_evictions": self._evicted,
    }
"""
_LEN = """
with self._lock:
    return len(self._entries)
"""
_SLOTS = ("_clock", "_entries", "_evicted", "_lock", "_replays", "capacity", "ttl_seconds")


def _dump(nodes: list[ast.stmt]) -> str:
    return "\n".join(ast.dump(n) for n in nodes)


def _stmts(src: str) -> list[ast.stmt]:
    return ast.parse(src.strip() + "\n").body


def _strip_doc(body: list[ast.stmt]) -> list[ast.stmt]:
    if body and isinstance(body[0], ast.Expr) and isinstance(body[0].value, ast.Constant) and isinstance(body[0].value.value, str):
        return body[1:]
    return body


def _same(actual: list[ast.stmt], template: str, what: str) -> None:
    if _dump(actual) != _dump(_stmts(template)):
        raise TranslationBroken(SITE, f"{what}: statements differ from the modelled shape")


def _take_cmp(cmp_node: ast.expr, what: str, canonical: type) -> str:
    """Return the model name of the single comparison operator and normalise it in place."""
    if not isinstance(cmp_node, ast.Compare) or len(cmp_node.ops) != 1:
        raise TranslationBroken(SITE, f"{what}: not a single comparison")
    op = type(cmp_node.ops[0])
    if op not in _CMP:
        raise TranslationBroken(SITE, f"{what}: operator {op.__name__} not modelled")
    cmp_node.ops[0] = canonical()
    return _CMP[op]


def _method(cls: ast.ClassDef, name: str) -> ast.FunctionDef:
    ms = [n for n in cls.body if isinstance(n, ast.FunctionDef) and n.name == name]
    if len(ms) != 1:
        raise TranslationBroken(SITE, f"NonceCache.{name}: expected exactly one definition")
    if ms[0].decorator_list:
        raise TranslationBroken(SITE, f"NonceCache.{name}: decorated")
    return ms[0]


def extract(path: Path) -> dict[str, Any]:
    """Parse the source and return the shape as a dict (raises TranslationBroken)."""
    try:
        tree = ast.parse(path.read_text())
    except (OSError, SyntaxError) as e:
        raise TranslationBroken(SITE, f"cannot parse: {e}") from e
    tree = copy.deepcopy(tree)
    classes = [n for n in tree.body if isinstance(n, ast.ClassDef) and n.name == "NonceCache"]
    if len(classes) != 1 or classes[0].bases or classes[0].decorator_list or classes[0].keywords:
        raise TranslationBroken(SITE, "class NonceCache: not found / has bases or decorators")
    cls = classes[0]
    # nothing outside the class may reach into it: module level is imports, __all__, DEFAULT_CAPACITY, the class
    default_cap = None
    for n in tree.body:
        if isinstance(n, ast.Assign) and len(n.targets) == 1 and isinstance(n.targets[0], ast.Name) and n.targets[0].id == "DEFAULT_CAPACITY":
            if not (isinstance(n.value, ast.Constant) and type(n.value.value) is int and n.value.value > 0):
                raise TranslationBroken(SITE, "DEFAULT_CAPACITY is not a positive int literal")
            default_cap = n.value.value
        elif isinstance(n, (ast.Import, ast.ImportFrom, ast.ClassDef)):
            pass
        elif isinstance(n, ast.Expr) and isinstance(n.value, ast.Constant):
            pass
        elif isinstance(n, ast.Assign) and isinstance(n.targets[0], ast.Name) and n.targets[0].id == "__all__":
            pass
        else:
            raise TranslationBroken(SITE, f"unexpected module-level statement at line {n.lineno}")
    if default_cap is None:
        raise TranslationBroken(SITE, "DEFAULT_CAPACITY not found")

    members = [n for n in _strip_doc(cls.body)]
    names = []
    for n in members:
        if isinstance(n, ast.FunctionDef):
            names.append(n.name)
        elif isinstance(n, ast.Assign) and len(n.targets) == 1 and isinstance(n.targets[0], ast.Name) and n.targets[0].id == "__slots__":
            try:
                slots = tuple(ast.literal_eval(n.value))
            except ValueError as e:
                raise TranslationBroken(SITE, "__slots__ not literal") from e
            if tuple(sorted(slots)) != tuple(sorted(_SLOTS)):
                raise TranslationBroken(SITE, f"__slots__ changed: {slots}")
        else:
            raise TranslationBroken(SITE, f"unexpected class member at line {n.lineno}")
    if sorted(names) != sorted(["__init__", "check_and_add", "_sweep", "stats", "__len__"]):
        raise TranslationBroken(SITE, f"method set changed: {names}")

    # ---- check_and_add -------------------------------------------------------------------------
    caa = _method(cls, "check_and_add")
    if [a.arg for a in caa.args.args] != ["self", "nonce"] or caa.args.kwonlyargs or caa.args.vararg or caa.args.kwarg:
        raise TranslationBroken(SITE, "check_and_add: signature changed")
    body = _strip_doc(caa.body)
    clock_stmt = _dump(_stmts(_CLOCK))

    def is_lock_with(n: ast.stmt) -> bool:
        return (
            isinstance(n, ast.With)
            and len(n.items) == 1
            and n.items[0].optional_vars is None
            and ast.dump(n.items[0].context_expr) == ast.dump(ast.parse("self._lock", mode="eval").body)
        )

    if len(body) == 2 and _dump(body[:1]) == clock_stmt and is_lock_with(body[1]):
        clock_outside = True
        locked = body[1].body  # type: ignore[attr-defined]
    elif len(body) == 1 and is_lock_with(body[0]) and body[0].body and _dump(body[0].body[:1]) == clock_stmt:  # type: ignore[attr-defined]
        clock_outside = False
        locked = body[0].body[1:]  # type: ignore[attr-defined]
    else:
        raise TranslationBroken(SITE, "check_and_add: not `now = self._clock()` + one `with self._lock:` section")
    if len(locked) != 5 or not isinstance(locked[2], ast.While):
        raise TranslationBroken(SITE, "check_and_add: locked section is not sweep / membership / eviction loop / insert / return")
    evict_while = _take_cmp(locked[2].test, "eviction loop guard", ast.GtE)
    _same(locked, _BODY, "check_and_add locked section")

    # ---- _sweep ------------------------------------------------------------------------------
    sw = _method(cls, "_sweep")
    if [a.arg for a in sw.args.args] != ["self", "now"]:
        raise TranslationBroken(SITE, "_sweep: signature changed")
    sbody = _strip_doc(sw.body)
    try:
        guard = sbody[1].body[1].test  # type: ignore[attr-defined]
    except (IndexError, AttributeError) as e:
        raise TranslationBroken(SITE, "_sweep: shape changed") from e
    sweep_break = _take_cmp(guard, "_sweep break guard", ast.Gt)
    _same(sbody, _SWEEP, "_sweep")

    # ---- __init__ ----------------------------------------------------------------------------
    ini = _method(cls, "__init__")
    if [a.arg for a in ini.args.args] != ["self"] or [a.arg for a in ini.args.kwonlyargs] != ["ttl_seconds", "capacity", "clock"]:
        raise TranslationBroken(SITE, "__init__: signature changed")
    ibody = _strip_doc(ini.body)
    if len(ibody) != 9:
        raise TranslationBroken(SITE, "__init__: statement count changed")
    ctor = []
    for stmt, var in ((ibody[0], "ttl_seconds"), (ibody[1], "capacity")):
        ok = (
            isinstance(stmt, ast.If)
            and not stmt.orelse
            and len(stmt.body) == 1
            and isinstance(stmt.body[0], ast.Raise)
            and isinstance(stmt.body[0].exc, ast.Call)
            and isinstance(stmt.body[0].exc.func, ast.Name)
            and stmt.body[0].exc.func.id == "ValueError"
            and isinstance(stmt.test, ast.Compare)
            and isinstance(stmt.test.left, ast.Name)
            and stmt.test.left.id == var
            and len(stmt.test.comparators) == 1
            and isinstance(stmt.test.comparators[0], ast.Constant)
            and stmt.test.comparators[0].value == 0
        )
        if not ok:
            raise TranslationBroken(SITE, f"__init__: validation of {var} changed")
        ctor.append(_take_cmp(stmt.test, f"__init__ {var} guard", ast.LtE))
    _same(ibody[2:], _INIT_TAIL, "__init__ assignments")

    # ---- read-only observers -------------------------------------------------------------------
    _same(_strip_doc(_method(cls, "stats").body), _STATS, "stats")
    _same(_strip_doc(_method(cls, "__len__").body), _LEN, "__len__")

    return {
        "clock_outside": clock_outside,
        "sweep_break": sweep_break,
        "evict_while": evict_while,
        "ctor_ttl_bad": ctor[0],
        "ctor_cap_bad": ctor[1],
        "default_capacity": default_cap,
    }


def coq_text(shape: dict[str, Any]) -> str:
    b = "true" if shape["clock_outside"] else "false"
    return (
        "From Coq Require Import NArith.\nFrom VGI Require Import M_Nonce.\nOpen Scope N_scope.\n"
        f"Definition gen_shape : shape := mkShape {b} {shape['sweep_break']} {shape['evict_while']} {shape['ctor_ttl_bad']} {shape['ctor_cap_bad']}.\n"
        f"Definition gen_default_capacity : N := {shape['default_capacity']}.\n"
    )
