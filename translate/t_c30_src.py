"""Fail-closed translator for C30: vgi_rpc/external.py (+ metadata.py, log.py, rpc/_wire.py, http/_client.py)
-> coq/gen/G_ExtStore.v.

Regenerated on every run from the tree under test:
  * the metadata key constants (vgi_rpc/metadata.py) and the values of ``Level`` (vgi_rpc/log.py), as byte lists;
  * the retry cap ``min(config.max_retries, N)`` and the tuple of retryable exception classes of
    ``resolve_external_location``;
  * the ORDER of the checks inside ``_fetch_and_resolve``: every check is located by its guard line in the unparsed
    function, the line that follows must be its ``raise`` / ``continue``; the tags are emitted sorted by position
    (0 sha256, 1 nested pointer, 2 log dispatch, 3 no data batch, 4 several data batches, 5 schema);
  * the guard order of ``maybe_externalize_batch`` and ``maybe_externalize_collector`` (0 storage is None,
    1 num_rows == 0, 2 size < threshold, 3 no data batch);
  * shape facts as booleans: the collector serialises ALL of ``out.batches``; the digest is taken over the IPC bytes
    before compression (both producers); the request pointer of ``_build_pointer_request_body`` carries no digest;
    ``is_external_location_batch`` and ``make_external_location_batch`` have the modelled bodies; the provenance keys
    are merged over the resolved metadata.
Anything unexpected raises ``TranslationBroken``.
"""
from __future__ import annotations

import ast
from pathlib import Path

from vlib.core import TranslationBroken


def _parse(path: Path) -> ast.Module:
    try:
        return ast.parse(path.read_text())
    except (OSError, SyntaxError) as e:
        raise TranslationBroken(str(path), f"cannot parse: {e}") from e


def _func(mod: ast.AST, name: str, site: str) -> ast.FunctionDef:
    fs = [n for n in ast.walk(mod) if isinstance(n, ast.FunctionDef) and n.name == name]
    if len(fs) != 1:
        raise TranslationBroken(site, f"function {name} not found exactly once ({len(fs)})")
    return fs[0]


def _lines(fn: ast.AST) -> list[str]:
    fn2 = fn
    if isinstance(fn, ast.FunctionDef):
        body = list(fn.body)
        if body and isinstance(body[0], ast.Expr) and isinstance(body[0].value, ast.Constant) and isinstance(body[0].value.value, str):
            fn2 = ast.FunctionDef(name=fn.name, args=fn.args, body=body[1:], decorator_list=[], returns=None, type_comment=None, type_params=[])
            ast.copy_location(fn2, fn)
            ast.fix_missing_locations(fn2)
    return [ln.strip() for ln in ast.unparse(fn2).splitlines() if ln.strip()]


def _pos(lines: list[str], needle: str, site: str, prefix: bool = False) -> int:
    hits = [i for i, ln in enumerate(lines) if (ln.startswith(needle) if prefix else ln == needle)]
    if len(hits) != 1:
        raise TranslationBroken(site, f"line {needle!r} found {len(hits)} times (expected once)")
    return hits[0]


def _cbytes(b: bytes) -> str:
    return "[" + ";".join(str(x) for x in b) + "]"


def _bytes_const(mod: ast.Module, name: str, site: str) -> bytes:
    for n in mod.body:
        tgt = None
        if isinstance(n, ast.Assign) and len(n.targets) == 1 and isinstance(n.targets[0], ast.Name):
            tgt, val = n.targets[0].id, n.value
        elif isinstance(n, ast.AnnAssign) and isinstance(n.target, ast.Name) and n.value is not None:
            tgt, val = n.target.id, n.value
        if tgt == name:
            if isinstance(val, ast.Constant) and isinstance(val.value, bytes):
                return val.value
            raise TranslationBroken(site, f"{name} is not a bytes literal")
    raise TranslationBroken(site, f"{name} not found")


def _levels(mod: ast.Module) -> list[tuple[str, str]]:
    cls = [n for n in mod.body if isinstance(n, ast.ClassDef) and n.name == "Level"]
    if len(cls) != 1:
        raise TranslationBroken("log.py", "class Level not found exactly once")
    out = []
    for n in cls[0].body:
        if isinstance(n, ast.Assign) and len(n.targets) == 1 and isinstance(n.targets[0], ast.Name):
            if not (isinstance(n.value, ast.Constant) and isinstance(n.value.value, str)):
                raise TranslationBroken("log.py", f"Level.{n.targets[0].id} is not a string literal")
            out.append((n.targets[0].id, n.value.value))
    if not out:
        raise TranslationBroken("log.py", "Level has no members")
    return out


def generate(repo: Path) -> str:
    repo = Path(repo)
    md = _parse(repo / "vgi_rpc" / "metadata.py")
    lg = _parse(repo / "vgi_rpc" / "log.py")
    ex = _parse(repo / "vgi_rpc" / "external.py")
    wire = _parse(repo / "vgi_rpc" / "rpc" / "_wire.py")
    hc = _parse(repo / "vgi_rpc" / "http" / "_client.py")
    out = ["From Coq Require Import List NArith Bool.", "Import ListNotations.", "Open Scope N_scope."]

    for coq, py in [("gen_K_LOC", "LOCATION_KEY"), ("gen_K_SHA", "LOCATION_SHA256_KEY"), ("gen_K_FETCH_MS", "LOCATION_FETCH_MS_KEY"),
                    ("gen_K_SOURCE", "LOCATION_SOURCE_KEY"), ("gen_K_LEVEL", "LOG_LEVEL_KEY"), ("gen_K_MSG", "LOG_MESSAGE_KEY")]:
        out.append(f"Definition {coq} : list N := {_cbytes(_bytes_const(md, py, 'metadata.py'))}.")
    lv = _levels(lg)
    out.append("Definition gen_LEVELS : list (list N) := [" + "; ".join(_cbytes(v.encode()) for _, v in lv) + "].")
    exc = [v for n, v in lv if n == "EXCEPTION"]
    if len(exc) != 1:
        raise TranslationBroken("log.py", "Level.EXCEPTION missing")
    out.append(f"Definition gen_L_EXCEPTION : list N := {_cbytes(exc[0].encode())}.")

    # ---- _dispatch_log_or_error: the classification the model copies ----
    dl = _lines(_func(wire, "_dispatch_log_or_error", "_wire.py"))
    order = [
        ("if custom_metadata is None:", False), ("if batch.num_rows != 0:", False), ("level_bytes = custom_metadata.get(LOG_LEVEL_KEY)", False),
        ("message_bytes = custom_metadata.get(LOG_MESSAGE_KEY)", False), ("if level_bytes is None or message_bytes is None:", False),
        ("if level_str == Level.EXCEPTION.value:", False), ("raise RpcError(error_type, message_str, traceback_str", True),
        ("level = Level(level_str)", False), ("except ValueError:", False), ("msg = Message(level, message_str)", False),
        ("if on_log is not None:", False), ("on_log(msg)", False),
    ]
    last = -1
    for needle, pref in order:
        p = _pos(dl, needle, "_dispatch_log_or_error", pref)
        if p <= last:
            raise TranslationBroken("_dispatch_log_or_error", f"line out of order: {needle!r}")
        last = p
    p_ve = _pos(dl, "except ValueError:", "_dispatch_log_or_error")
    if dl[p_ve + 1] != "return True" or dl[-1] != "return True":
        raise TranslationBroken("_dispatch_log_or_error", "an unknown level is not consumed silently / a dispatched log is not consumed")

    # ---- is_external_location_batch / make_external_location_batch: verbatim ----
    want_is = ["if batch.num_rows != 0:", "return False", "if custom_metadata is None:", "return False",
               "if custom_metadata.get(LOCATION_KEY) is None:", "return False", "return custom_metadata.get(LOG_LEVEL_KEY) is None"]
    if _lines(_func(ex, "is_external_location_batch", "external.py"))[1:] != want_is:
        raise TranslationBroken("is_external_location_batch", "body differs from the modelled one")
    mk = _lines(_func(ex, "make_external_location_batch", "external.py"))
    for needle in ["meta: dict[bytes, bytes] = {LOCATION_KEY: url.encode()}", "if sha256 is not None:", "meta[LOCATION_SHA256_KEY] = sha256.encode()",
                   "custom_metadata = pa.KeyValueMetadata(meta)", "return (batch, custom_metadata)"]:
        _pos(mk, needle, "make_external_location_batch")
    if "batch = pa.RecordBatch.from_arrays([pa.array([], type=f.type) for f in schema], schema=schema)" not in mk:
        raise TranslationBroken("make_external_location_batch", "pointer batch is not the zero-row batch of the schema")

    # ---- resolve_external_location ----
    rl = _lines(_func(ex, "resolve_external_location", "external.py"))
    _pos(rl, "if config is None or not is_external_location_batch(batch, custom_metadata):", "resolve_external_location")
    cap_line = [ln for ln in rl if ln.startswith("max_retries = ")]
    if len(cap_line) != 1:
        raise TranslationBroken("resolve_external_location", "max_retries assignment not found once")
    cap = ast.parse(cap_line[0]).body[0]
    assert isinstance(cap, ast.Assign)
    v = cap.value
    if not (isinstance(v, ast.Call) and isinstance(v.func, ast.Name) and v.func.id == "min" and len(v.args) == 2
            and ast.unparse(v.args[0]) == "config.max_retries" and isinstance(v.args[1], ast.Constant) and isinstance(v.args[1].value, int) and v.args[1].value >= 0):
        raise TranslationBroken("resolve_external_location", f"retry cap has an unexpected shape: {cap_line[0]}")
    out.append(f"Definition gen_RETRY_CAP : N := {v.args[1].value}.")
    rt = [ln for ln in rl if ln.startswith("retry_types: ")]
    if len(rt) != 1:
        raise TranslationBroken("resolve_external_location", "retry_types not found once")
    rt_node = ast.parse(rt[0]).body[0]
    assert isinstance(rt_node, ast.AnnAssign) and rt_node.value is not None
    if not isinstance(rt_node.value, ast.Tuple):
        raise TranslationBroken("resolve_external_location", "retry_types is not a tuple literal")
    names = [ast.unparse(e) for e in rt_node.value.elts]
    out.append("Definition gen_RETRY_TYPES : list (list N) := [" + "; ".join(_cbytes(n.encode()) for n in names) + "].")
    for needle in ["retryer = Retrying(stop=stop_after_attempt(max_retries + 1), wait=wait_fixed(config.retry_delay_seconds), retry=retry_if_exception_type(retry_types), reraise=True)",
                   "result = retryer(_fetch_and_resolve, batch.schema, url, config, on_log, ipc_validation, expected_sha256)",
                   "sha256_bytes = custom_metadata.get(LOCATION_SHA256_KEY)", "except (*retry_types,) as exc:"]:
        _pos(rl, needle, "resolve_external_location")
    _pos(rl, "raise RuntimeError(f'Failed to resolve ExternalLocation after", "resolve_external_location", prefix=True)

    # ---- _fetch_and_resolve: order of the checks ----
    fl = _lines(_func(ex, "_fetch_and_resolve", "external.py"))
    p_fetch = _pos(fl, "data = fetch_url(url, config.fetch_config, url_validator=config.url_validator)", "_fetch_and_resolve")
    if sum(1 for ln in fl if ln.startswith("data = ")) != 1:
        raise TranslationBroken("_fetch_and_resolve", "the fetched bytes are reassigned")
    checks = [
        (0, "if actual_sha256 != expected_sha256:", "raise RuntimeError("),
        (1, "if fetched_cm is not None and fetched_cm.get(LOCATION_KEY) is not None:", "raise RuntimeError("),
        (2, "if _dispatch_log_or_error(fetched_batch, fetched_cm, on_log):", "continue"),
        (3, "if len(data_batches) == 0:", "raise RuntimeError("),
        (4, "if len(data_batches) > 1:", "raise RuntimeError("),
        (5, "if resolved_batch.schema != expected_schema:", "raise ValueError("),
    ]
    located = []
    for tag, guard, action in checks:
        p = _pos(fl, guard, "_fetch_and_resolve")
        if not fl[p + 1].startswith(action):
            raise TranslationBroken("_fetch_and_resolve", f"check {guard!r} is not followed by {action!r}")
        located.append((p, tag))
    located.sort()
    out.append("Definition gen_CHECK_ORDER : list N := [" + "; ".join(str(t) for _, t in located) + "].")
    p_sha_if = _pos(fl, "if expected_sha256 is not None:", "_fetch_and_resolve")
    p_sha = _pos(fl, "actual_sha256 = hashlib.sha256(data).hexdigest()", "_fetch_and_resolve")
    p_reader = _pos(fl, "reader = ValidatedReader(ipc.open_stream(BytesIO(data)), ipc_validation)", "_fetch_and_resolve")
    p_loop = _pos(fl, "while True:", "_fetch_and_resolve")
    p_read = _pos(fl, "fetched_batch, fetched_cm = reader.read_next_batch_with_custom_metadata()", "_fetch_and_resolve")
    p_stop = _pos(fl, "except StopIteration:", "_fetch_and_resolve")
    p_app = _pos(fl, "data_batches.append((fetched_batch, fetched_cm))", "_fetch_and_resolve")
    p_take = _pos(fl, "resolved_batch, resolved_cm = data_batches[0]", "_fetch_and_resolve")
    p_merge = _pos(fl, "final_cm = merge_metadata(resolved_cm, fetch_metadata)", "_fetch_and_resolve")
    p_ret = _pos(fl, "return (resolved_batch, final_cm)", "_fetch_and_resolve")
    pos = dict((t, p) for p, t in located)
    seq = [p_fetch, p_sha_if, p_sha, pos[0], p_reader, p_loop, p_read, p_stop, pos[1], pos[2], p_app, pos[3], pos[4], p_take, pos[5], p_merge, p_ret]
    if fl[p_stop + 1] != "break":
        raise TranslationBroken("_fetch_and_resolve", "StopIteration does not end the loop")
    if seq != sorted(seq) and [t for _, t in located] == [0, 1, 2, 3, 4, 5]:
        raise TranslationBroken("_fetch_and_resolve", "statements around the checks are not in the modelled order")
    if sum(1 for ln in fl if ln.startswith("return ")) != 1:
        raise TranslationBroken("_fetch_and_resolve", "more than one return")
    fm = "fetch_metadata = pa.KeyValueMetadata({LOCATION_FETCH_MS_KEY: f'{elapsed_ms:.1f}'.encode(), LOCATION_SOURCE_KEY: url.encode()})"
    _pos(fl, fm, "_fetch_and_resolve")

    # ---- producers ----
    def guards(fn_name: str, table: list[tuple[int, str]], ret_prefix: str) -> list[int]:
        ll = _lines(_func(ex, fn_name, "external.py"))
        loc = []
        for tag, g in table:
            p = _pos(ll, g, fn_name)
            if not ll[p + 1].startswith(ret_prefix):
                raise TranslationBroken(fn_name, f"guard {g!r} is not followed by the unchanged return")
            loc.append((p, tag))
        p_ser = _pos(ll, "buf = BytesIO()", fn_name)
        if any(p > p_ser for p, _ in loc):
            raise TranslationBroken(fn_name, "a guard follows serialisation")
        p_bytes = _pos(ll, "ipc_bytes = buf.getvalue()", fn_name)
        p_sha = _pos(ll, "data_sha256 = hashlib.sha256(ipc_bytes).hexdigest()", fn_name)
        p_comp = _pos(ll, "ipc_bytes = _codec_compress(codec, ipc_bytes, level=config.compression.level)", fn_name)
        p_if = _pos(ll, "if config.compression is not None:", fn_name)
        p_codec = _pos(ll, "codec = _CodecEncoding(config.compression.algorithm)", fn_name)
        p_ce = _pos(ll, "content_encoding = codec.value", fn_name)
        p_up = _pos(ll, "url = _traced_upload(", fn_name, prefix=True)
        if not (p_ser < p_bytes < p_sha < p_if < p_codec < p_comp < p_ce < p_up):
            raise TranslationBroken(fn_name, "digest / compression / upload are not in the modelled order")
        if "content_encoding=content_encoding" not in ll[p_up]:
            raise TranslationBroken(fn_name, "upload does not pass the content encoding")
        loc.sort()
        return [t for _, t in loc]

    bg = guards("maybe_externalize_batch", [(0, "if config.storage is None:"), (1, "if batch.num_rows == 0:"),
                                             (2, "if batch.get_total_buffer_size() < config.externalize_threshold_bytes:")], "return (batch, custom_metadata, 0)")
    out.append("Definition gen_BATCH_GUARDS : list N := [" + "; ".join(map(str, bg)) + "].")
    bl = _lines(_func(ex, "maybe_externalize_batch", "external.py"))
    for needle in ["with new_ipc_stream(buf, batch.schema) as writer:", "pointer_batch, pointer_cm = make_external_location_batch(batch.schema, url, sha256=data_sha256)",
                   "return (pointer_batch, pointer_cm, raw_size)"]:
        _pos(bl, needle, "maybe_externalize_batch")
    cl = _lines(_func(ex, "maybe_externalize_collector", "external.py"))
    inline_ret = "return ([(ab.batch, ab.custom_metadata) for ab in out.batches], 0)"
    loc = []
    for tag, g, nxt in [(0, "if config.storage is None:", inline_ret), (3, "except RuntimeError:", inline_ret),
                        (2, "if data_ab.batch.get_total_buffer_size() < config.externalize_threshold_bytes:", inline_ret)]:
        p = _pos(cl, g, "maybe_externalize_collector")
        if cl[p + 1] != nxt:
            raise TranslationBroken("maybe_externalize_collector", f"guard {g!r} is not followed by the unchanged return")
        loc.append((p, tag))
    _pos(cl, "data_ab = out.data_batch", "maybe_externalize_collector")
    guards("maybe_externalize_collector", [], "")
    loc.sort()
    out.append("Definition gen_COLLECTOR_GUARDS : list N := [" + "; ".join(str(t) for _, t in loc) + "].")
    p_with = _pos(cl, "with new_ipc_stream(buf, out.output_schema) as writer:", "maybe_externalize_collector")
    all_batches = cl[p_with + 1] == "for ab in out.batches:"
    upto_data = cl[p_with + 1] in ("for ab in out.batches[:data_idx + 1]:", "for ab in head:")
    if not (all_batches or upto_data):
        raise TranslationBroken("maybe_externalize_collector", f"unexpected serialisation loop: {cl[p_with + 1]!r}")
    out.append(f"Definition gen_collector_serializes_all : bool := {'true' if all_batches else 'false'}.")
    _pos(cl, "pointer_batch, pointer_cm = make_external_location_batch(out.output_schema, url, sha256=data_sha256)", "maybe_externalize_collector")
    if all_batches:
        _pos(cl, "return ([(pointer_batch, pointer_cm)], raw_size)", "maybe_externalize_collector")
    else:
        _pos(cl, "return ([(pointer_batch, pointer_cm), *tail], raw_size)", "maybe_externalize_collector")

    # ---- client-uploaded request pointer ----
    pl = _lines(_func(hc, "_build_pointer_request_body", "_client.py"))
    mk_calls = [ln for ln in pl if "make_external_location_batch(" in ln]
    if len(mk_calls) != 1:
        raise TranslationBroken("_build_pointer_request_body", "pointer construction not found once")
    call = ast.parse(mk_calls[0]).body[0]
    assert isinstance(call, ast.Assign) and isinstance(call.value, ast.Call)
    has_sha = len(call.value.args) > 2 or any(k.arg == "sha256" for k in call.value.keywords)
    out.append(f"Definition gen_request_pointer_has_sha : bool := {'true' if has_sha else 'false'}.")
    for needle in ["batch, custom_metadata = reader.read_next_batch_with_custom_metadata()", "merged = merge_metadata(custom_metadata, loc_md)",
                   "writer.write_batch(pointer_batch, custom_metadata=merged)"]:
        _pos(pl, needle, "_build_pointer_request_body")
    return "\n".join(out) + "\n"
