"""Fail-closed translator for the authentication exemption of the HTTP server (property C20).

Reads
  * ``_AuthMiddleware.process_request`` (vgi_rpc/http/server/_middleware.py): the single ``exempt = <a or b or ...>``
    assignment, the gate ``if self._authenticate is None or exempt: ...; return`` that directly follows it, and the
    ``try: auth = self._authenticate(req)`` that follows the gate (so the callback is reached only past the gate);
  * ``_AuthMiddleware.__init__``: which constructor parameter each ``self._x`` used by the expression holds;
  * ``make_wsgi_app`` (vgi_rpc/http/server/_factory.py): the one ``_AuthMiddleware(...)`` call, and for every list
    parameter the ``tuple(<name>)`` argument, whose list is built by ``<name>: list[str] = []`` followed only by
    ``<name>.append(f"{prefix}...")`` under ``if`` nests at the top level of the function.

Emits a ``M_Exempt.pexp`` term with the lists substituted (entries carry their guards).  Any other shape raises
TranslationBroken.  Accepted disjuncts of ``exempt``:
    req.method == "LIT"                                         -> PMethodIs
    req.path == "LIT" / req.path.startswith("LIT")              -> PPath KEq / KStartsWith
    req.path in self._x                                         -> PAny KEq <list x>
    any(req.path == v for v in self._x)                         -> PAny KEq <list x>
    any(req.path.startswith(v) for v in self._x)                -> PAny KStartsWith <list x>
    any(req.path == v or req.path.startswith(v + "/") for ...)  -> PAny KStartsWithSeg <list x>
"""
from __future__ import annotations

import ast
from pathlib import Path

from vlib.core import TranslationBroken

# source text of a condition (ast.unparse) -> atom of M_Exempt.v
ATOMS = {
    "authenticate is not None": "AAuth",
    "_validated_oauth_metadata is not None": "AOauthMeta",
    "_validated_oauth_metadata.client_id is not None": "AClientId",
    "enable_health_endpoint": "AHealth",
    "enable_sticky": "ASticky",
    "max_request_bytes is not None": "AMaxReq",
    "decodable": "ADecodable",
    "codec_levels": "ACodecLevels",
    "otel_config is not None": "AOtel",
    "cors_origins is not None": "ACors",
    "cors_max_age is not None": "ACorsMaxAge",
    "cors_resource_policy is not None": "ACorsPolicy",
    "capability_headers": "ACapHeaders",
}
# names a guard may mention: they must not be re-bound in make_wsgi_app except as listed in ALLOWED_REBIND
GUARD_NAMES = {"authenticate", "_validated_oauth_metadata", "enable_health_endpoint", "enable_sticky", "max_request_bytes",
               "otel_config", "cors_origins", "cors_max_age", "cors_resource_policy", "prefix"}


def _parse(path: Path) -> ast.Module:
    try:
        return ast.parse(path.read_text())
    except (OSError, SyntaxError) as e:
        raise TranslationBroken(str(path), f"cannot parse: {e}") from e


def find_class(tree: ast.Module, name: str, site: str) -> ast.ClassDef:
    hits = [n for n in tree.body if isinstance(n, ast.ClassDef) and n.name == name]
    if len(hits) != 1:
        raise TranslationBroken(site, f"expected exactly one class {name}, found {len(hits)}")
    return hits[0]


def find_func(body: list[ast.stmt], name: str, site: str) -> ast.FunctionDef:
    hits = [n for n in body if isinstance(n, ast.FunctionDef) and n.name == name]
    if len(hits) != 1:
        raise TranslationBroken(site, f"expected exactly one def {name}, found {len(hits)}")
    return hits[0]


def cstr(s: str) -> str:
    return "[" + "; ".join(str(ord(c)) for c in s) + "]"


# ---------------------------------------------------------------------------
# guards
# ---------------------------------------------------------------------------

def guard_term(test: ast.expr, site: str, subst: dict[str, ast.expr] | None = None) -> str:
    """A condition of make_wsgi_app as a M_Exempt.guard term."""
    subst = subst or {}
    if isinstance(test, ast.BoolOp):
        parts = [guard_term(v, site, subst) for v in test.values]
        ctor = "GAnd" if isinstance(test.op, ast.And) else "GOr"
        out = parts[-1]
        for p in reversed(parts[:-1]):
            out = f"{ctor} ({p}) ({out})"
        return out
    if isinstance(test, ast.UnaryOp) and isinstance(test.op, ast.Not):
        return f"GNot ({guard_term(test.operand, site, subst)})"
    if isinstance(test, ast.Name) and test.id in subst:
        return guard_term(subst[test.id], site, {k: v for k, v in subst.items() if k != test.id})
    key = ast.unparse(test)
    if key in ATOMS:
        return f"GAtom {ATOMS[key]}"
    raise TranslationBroken(site, f"unknown guard condition {key!r}")


def conj(guards: list[str]) -> str:
    if not guards:
        return "GTrue"
    out = guards[-1]
    for g in reversed(guards[:-1]):
        out = f"GAnd ({g}) ({out})"
    return out


def walk_guarded(body: list[ast.stmt], site: str, subst: dict[str, ast.expr], guards: list[str] | None = None):
    """Yield (stmt, guards) for every simple statement reachable through ``if`` nests only.
    Compound statements other than ``if`` are yielded whole (callers reject uses inside them)."""
    guards = guards or []
    for st in body:
        if isinstance(st, ast.If):
            # the guard term is only needed when something of interest sits below; translate lazily
            yield from walk_guarded(st.body, site, subst, guards + [("pos", st.test)])
            yield from walk_guarded(st.orelse, site, subst, guards + [("neg", st.test)])
        else:
            yield st, guards


def guards_term(guards: list, site: str, subst: dict[str, ast.expr]) -> str:
    terms = []
    for pol, test in guards:
        t = guard_term(test, site, subst)
        terms.append(t if pol == "pos" else f"GNot ({t})")
    return conj(terms)


def name_uses(node: ast.AST, name: str) -> int:
    return sum(1 for n in ast.walk(node) if isinstance(n, ast.Name) and n.id == name)


def flag_definition(fn: ast.FunctionDef, name: str, site: str) -> ast.expr:
    """``name = False`` at top level and ``name = True`` exactly once, directly in the body of a top-level ``if``
    without else: the flag is equivalent to that ``if``'s test."""
    stores = [n for n in ast.walk(fn) if isinstance(n, ast.Name) and n.id == name and isinstance(n.ctx, ast.Store)]
    if len(stores) != 2:
        raise TranslationBroken(site, f"{name}: expected exactly two assignments, found {len(stores)}")
    init = [st for st in fn.body if isinstance(st, ast.Assign) and len(st.targets) == 1 and isinstance(st.targets[0], ast.Name)
            and st.targets[0].id == name and isinstance(st.value, ast.Constant) and st.value.value is False]
    if len(init) != 1:
        raise TranslationBroken(site, f"{name}: no top-level '{name} = False'")
    for st in fn.body:
        if isinstance(st, ast.If) and not st.orelse:
            for s2 in st.body:
                if (isinstance(s2, ast.Assign) and len(s2.targets) == 1 and isinstance(s2.targets[0], ast.Name)
                        and s2.targets[0].id == name and isinstance(s2.value, ast.Constant) and s2.value.value is True):
                    if fn.body.index(st) < fn.body.index(init[0]):
                        raise TranslationBroken(site, f"{name}: set before it is initialised")
                    return st.test
    raise TranslationBroken(site, f"{name}: '{name} = True' is not directly inside a top-level if")


def check_no_rebind(fn: ast.FunctionDef, site: str) -> None:
    """Names the guards / f-strings read must still mean the function's parameters where they are used."""
    for n in ast.walk(fn):
        if isinstance(n, ast.Name) and isinstance(n.ctx, ast.Store) and n.id in GUARD_NAMES:
            parent_ok = False
            for st in ast.walk(fn):
                if isinstance(st, (ast.Assign, ast.AnnAssign)):
                    tg = st.targets if isinstance(st, ast.Assign) else [st.target]
                    if any(t is n for t in tg):
                        v = st.value
                        # authenticate = chain_authenticate(authenticate, ...): stays not-None
                        if n.id == "authenticate" and isinstance(v, ast.Call) and isinstance(v.func, ast.Name) and v.func.id == "chain_authenticate":
                            parent_ok = True
                        # _validated_oauth_metadata: None initialiser / the validated argument
                        if n.id == "_validated_oauth_metadata" and (
                            (isinstance(v, ast.Constant) and v.value is None) or (isinstance(v, ast.Name) and v.id == "oauth_resource_metadata")
                        ):
                            parent_ok = True
            if not parent_ok:
                raise TranslationBroken(site, f"{n.id} is re-bound in make_wsgi_app (line {n.lineno})")


# ---------------------------------------------------------------------------
# string expressions
# ---------------------------------------------------------------------------

def sexp_term(e: ast.expr, site: str) -> str:
    if isinstance(e, ast.Constant) and isinstance(e.value, str):
        return f"SLit {cstr(e.value)}"
    if isinstance(e, ast.Name) and e.id == "prefix":
        return "SPrefix"
    if isinstance(e, ast.JoinedStr):
        parts = []
        for v in e.values:
            if isinstance(v, ast.Constant) and isinstance(v.value, str):
                parts.append(f"SLit {cstr(v.value)}")
            elif (isinstance(v, ast.FormattedValue) and v.conversion == -1 and v.format_spec is None
                  and isinstance(v.value, ast.Name) and v.value.id == "prefix"):
                parts.append("SPrefix")
            else:
                raise TranslationBroken(site, f"unsupported f-string part {ast.unparse(v)!r}")
        if not parts:
            return "SLit []"
        out = parts[-1]
        for p in reversed(parts[:-1]):
            out = f"SCat ({p}) ({out})"
        return out
    if isinstance(e, ast.BinOp) and isinstance(e.op, ast.Add):
        return f"SCat ({sexp_term(e.left, site)}) ({sexp_term(e.right, site)})"
    raise TranslationBroken(site, f"unsupported string expression {ast.unparse(e)!r}")


def factory_list(fn: ast.FunctionDef, lname: str, site: str, subst: dict[str, ast.expr]) -> list[tuple[str, str]]:
    """Entries (guard term, sexp term) of a list built as ``lname: list[str] = []`` + guarded ``lname.append(..)``."""
    entries: list[tuple[str, str]] = []
    seen_init = False
    accounted = 0
    for st, guards in walk_guarded(fn.body, site, subst):
        uses = name_uses(st, lname)
        if not uses:
            continue
        if (isinstance(st, ast.AnnAssign) and isinstance(st.target, ast.Name) and st.target.id == lname
                and isinstance(st.value, ast.List) and not st.value.elts and not guards and not seen_init and not entries):
            seen_init = True
            accounted += uses
            continue
        if (isinstance(st, ast.Expr) and isinstance(st.value, ast.Call) and isinstance(st.value.func, ast.Attribute)
                and st.value.func.attr == "append" and isinstance(st.value.func.value, ast.Name) and st.value.func.value.id == lname
                and len(st.value.args) == 1 and not st.value.keywords and uses == 1):
            if not seen_init:
                raise TranslationBroken(site, f"{lname}.append before its initialisation")
            entries.append((guards_term(guards, site, subst), sexp_term(st.value.args[0], site)))
            accounted += 1
            continue
        # the one read: tuple(lname) inside the _AuthMiddleware(...) call -- checked by the caller
        if isinstance(st, ast.Expr) and isinstance(st.value, ast.Call) and "_AuthMiddleware" in ast.unparse(st.value) and uses == 1:
            accounted += 1
            continue
        raise TranslationBroken(site, f"unsupported use of {lname}: {ast.unparse(st)[:100]!r}")
    if not seen_init:
        raise TranslationBroken(site, f"{lname}: initialisation '{lname}: list[str] = []' not found")
    if accounted != name_uses(fn, lname):
        raise TranslationBroken(site, f"{lname} is used in a place the translator does not follow")
    return entries


# ---------------------------------------------------------------------------
# the middleware side
# ---------------------------------------------------------------------------

def _is_req_attr(e: ast.expr, attr: str) -> bool:
    return isinstance(e, ast.Attribute) and e.attr == attr and isinstance(e.value, ast.Name) and e.value.id == "req"


def _self_attr(e: ast.expr) -> str | None:
    if isinstance(e, ast.Attribute) and isinstance(e.value, ast.Name) and e.value.id == "self":
        return e.attr
    return None


def _path_test(e: ast.expr, var: str | None, site: str) -> tuple[str, ast.expr]:
    """req.path == X / req.path.startswith(X) -> (kind, X)."""
    if isinstance(e, ast.Compare) and len(e.ops) == 1 and isinstance(e.ops[0], ast.Eq) and _is_req_attr(e.left, "path"):
        return "KEq", e.comparators[0]
    if (isinstance(e, ast.Call) and isinstance(e.func, ast.Attribute) and e.func.attr == "startswith" and _is_req_attr(e.func.value, "path")
            and len(e.args) == 1 and not e.keywords):
        return "KStartsWith", e.args[0]
    raise TranslationBroken(site, f"unsupported path test {ast.unparse(e)!r}")


def disjunct(e: ast.expr, lists: dict[str, list[tuple[str, str]]], site: str) -> str:
    def entries(attr: str | None) -> str:
        if attr is None or attr not in lists:
            raise TranslationBroken(site, f"list operand is not a known self attribute in {ast.unparse(e)!r}")
        return "[" + "; ".join(f"({g}, {s})" for g, s in lists[attr]) + "]"

    # req.method == "OPTIONS"
    if (isinstance(e, ast.Compare) and len(e.ops) == 1 and isinstance(e.ops[0], ast.Eq) and _is_req_attr(e.left, "method")
            and isinstance(e.comparators[0], ast.Constant) and isinstance(e.comparators[0].value, str)):
        return f"PMethodIs {cstr(e.comparators[0].value)}"
    # req.path in self._x
    if isinstance(e, ast.Compare) and len(e.ops) == 1 and isinstance(e.ops[0], ast.In) and _is_req_attr(e.left, "path"):
        return f"PAny KEq {entries(_self_attr(e.comparators[0]))}"
    # any(<test over v> for v in self._x)
    if (isinstance(e, ast.Call) and isinstance(e.func, ast.Name) and e.func.id == "any" and len(e.args) == 1 and not e.keywords
            and isinstance(e.args[0], ast.GeneratorExp)):
        ge = e.args[0]
        if len(ge.generators) != 1 or ge.generators[0].ifs or ge.generators[0].is_async or not isinstance(ge.generators[0].target, ast.Name):
            raise TranslationBroken(site, f"unsupported generator {ast.unparse(e)!r}")
        var = ge.generators[0].target.id
        attr = _self_attr(ge.generators[0].iter)
        elt = ge.elt
        if isinstance(elt, ast.BoolOp) and isinstance(elt.op, ast.Or) and len(elt.values) == 2:
            k1, x1 = _path_test(elt.values[0], var, site)
            k2, x2 = _path_test(elt.values[1], var, site)
            seg = (isinstance(x2, ast.BinOp) and isinstance(x2.op, ast.Add) and isinstance(x2.left, ast.Name) and x2.left.id == var
                   and isinstance(x2.right, ast.Constant) and x2.right.value == "/")
            if k1 == "KEq" and isinstance(x1, ast.Name) and x1.id == var and k2 == "KStartsWith" and seg:
                return f"PAny KStartsWithSeg {entries(attr)}"
            raise TranslationBroken(site, f"unsupported list test {ast.unparse(elt)!r}")
        k, x = _path_test(elt, var, site)
        if not (isinstance(x, ast.Name) and x.id == var):
            raise TranslationBroken(site, f"list test does not compare against the loop variable: {ast.unparse(elt)!r}")
        return f"PAny {k} {entries(attr)}"
    # req.path == "LIT" / req.path.startswith("LIT")
    k, x = _path_test(e, None, site)
    if isinstance(x, ast.Constant) and isinstance(x.value, str):
        return f"PPath {k} (SLit {cstr(x.value)})"
    raise TranslationBroken(site, f"unsupported disjunct {ast.unparse(e)!r}")


def exempt_term(repo: Path) -> str:
    mwp = repo / "vgi_rpc" / "http" / "server" / "_middleware.py"
    fap = repo / "vgi_rpc" / "http" / "server" / "_factory.py"
    site = f"{mwp}:_AuthMiddleware"
    cls = find_class(_parse(mwp), "_AuthMiddleware", site)
    init = find_func(cls.body, "__init__", site)
    pr = find_func(cls.body, "process_request", site)

    # self._x = <param>
    params = {a.arg for a in init.args.args + init.args.kwonlyargs}
    attr_param: dict[str, str] = {}
    for st in init.body:
        if isinstance(st, ast.Assign) and len(st.targets) == 1 and (a := _self_attr(st.targets[0])) is not None:
            if isinstance(st.value, ast.Name) and st.value.id in params:
                attr_param[a] = st.value.id
    # attributes must not be written anywhere else in the class
    for fn in cls.body:
        if isinstance(fn, ast.FunctionDef) and fn.name != "__init__":
            for n in ast.walk(fn):
                if isinstance(n, ast.Attribute) and isinstance(n.ctx, (ast.Store, ast.Del)) and _self_attr(n) is not None:
                    raise TranslationBroken(site, f"self.{n.attr} is written outside __init__")

    # process_request: exempt = ...; if self._authenticate is None or exempt: ...return; try: auth = self._authenticate(req)
    idx = [i for i, st in enumerate(pr.body) if isinstance(st, ast.Assign) and len(st.targets) == 1
           and isinstance(st.targets[0], ast.Name) and st.targets[0].id == "exempt"]
    stores = [n for n in ast.walk(pr) if isinstance(n, ast.Name) and n.id == "exempt" and isinstance(n.ctx, ast.Store)]
    if len(idx) != 1 or len(stores) != 1:
        raise TranslationBroken(site, "expected exactly one top-level 'exempt = ...' in process_request")
    i = idx[0]
    if i + 2 >= len(pr.body):
        raise TranslationBroken(site, "nothing follows 'exempt = ...'")
    gate, after = pr.body[i + 1], pr.body[i + 2]
    if not (isinstance(gate, ast.If) and not gate.orelse and ast.unparse(gate.test) == "self._authenticate is None or exempt"
            and gate.body and isinstance(gate.body[-1], ast.Return) and gate.body[-1].value is None):
        raise TranslationBroken(site, "the statement after 'exempt = ...' is not 'if self._authenticate is None or exempt: ...; return'")
    for st in gate.body:
        if any(isinstance(n, ast.Call) and "_authenticate" in ast.unparse(n.func) for n in ast.walk(st)):
            raise TranslationBroken(site, "the exempt branch calls the authenticate callback")
    calls = [n for n in ast.walk(pr) if isinstance(n, ast.Call) and ast.unparse(n.func) == "self._authenticate"]
    if len(calls) != 1:
        raise TranslationBroken(site, f"expected exactly one call of self._authenticate, found {len(calls)}")
    if not (isinstance(after, ast.Try) and after.body and isinstance(after.body[0], ast.Assign) and after.body[0].value is calls[0]):
        raise TranslationBroken(site, "the gate is not directly followed by 'try: auth = self._authenticate(req)'")
    # every handler of that try must raise (a rejected request never falls through to the end of process_request)
    for h in after.handlers:
        if not (h.body and isinstance(h.body[-1], ast.Raise)):
            raise TranslationBroken(site, "an except handler around the authenticate call does not end in raise")
    if after.orelse or after.finalbody:
        raise TranslationBroken(site, "unexpected else/finally around the authenticate call")
    # nothing before the gate may return / raise / mutate req.path or req.method
    for st in pr.body[:i]:
        for n in ast.walk(st):
            if isinstance(n, (ast.Return, ast.Raise)):
                raise TranslationBroken(site, "return/raise before the exemption gate")
    for n in ast.walk(cls):
        if isinstance(n, ast.Attribute) and isinstance(n.ctx, ast.Store) and isinstance(n.value, ast.Name) and n.value.id == "req" and n.attr in ("path", "method"):
            raise TranslationBroken(site, "req.path / req.method is assigned in _AuthMiddleware")

    expr = pr.body[i].value
    disj = expr.values if isinstance(expr, ast.BoolOp) and isinstance(expr.op, ast.Or) else [expr]

    # factory side
    fsite = f"{fap}:make_wsgi_app"
    ftree = _parse(fap)
    fn = find_func(ftree.body, "make_wsgi_app", fsite)
    check_no_rebind(fn, fsite)
    subst = {"_pkce_active": flag_definition(fn, "_pkce_active", fsite)}
    ctor = [n for n in ast.walk(fn) if isinstance(n, ast.Call) and isinstance(n.func, ast.Name) and n.func.id == "_AuthMiddleware"]
    if len(ctor) != 1:
        raise TranslationBroken(fsite, f"expected exactly one _AuthMiddleware(...) call, found {len(ctor)}")
    call = ctor[0]
    if len(call.args) != 1 or not (isinstance(call.args[0], ast.Name) and call.args[0].id == "authenticate"):
        raise TranslationBroken(fsite, "_AuthMiddleware is not constructed with the `authenticate` argument first")
    first_param = init.args.args[1].arg if len(init.args.args) > 1 else None
    if attr_param.get("_authenticate") != first_param:
        raise TranslationBroken(site, "self._authenticate is not the first constructor parameter")
    kw = {k.arg: k.value for k in call.keywords}
    if None in kw:
        raise TranslationBroken(fsite, "**kwargs in the _AuthMiddleware call")
    defaults = dict(zip([a.arg for a in init.args.args][::-1], init.args.defaults[::-1]))
    lists: dict[str, list[tuple[str, str]]] = {}
    used_attrs = {a for d in disj for n in ast.walk(d) if (a := _self_attr(n)) is not None}
    for attr in sorted(used_attrs):
        if attr not in attr_param:
            raise TranslationBroken(site, f"self.{attr} is not a constructor parameter")
        p = attr_param[attr]
        if p not in kw:
            d = defaults.get(p)
            if isinstance(d, ast.Tuple) and not d.elts:
                lists[attr] = []
                continue
            raise TranslationBroken(fsite, f"parameter {p} is not passed and has no empty-tuple default")
        v = kw[p]
        if not (isinstance(v, ast.Call) and isinstance(v.func, ast.Name) and v.func.id == "tuple" and len(v.args) == 1
                and isinstance(v.args[0], ast.Name) and not v.keywords):
            raise TranslationBroken(fsite, f"{p}= is not tuple(<list name>): {ast.unparse(v)!r}")
        lists[attr] = factory_list(fn, v.args[0].id, fsite, subst)

    terms = [disjunct(d, lists, site) for d in disj]
    out = terms[-1]
    for t in reversed(terms[:-1]):
        out = f"POr ({t}) ({out})"
    return out


def definition(repo: Path, coq_name: str = "gen_exempt_pexp") -> str:
    term = exempt_term(repo)
    return (
        "From Coq Require Import List NArith.\nFrom VGI Require Import M_Exempt.\nImport ListNotations.\nOpen Scope N_scope.\n"
        "(* _AuthMiddleware.process_request `exempt`, with the lists make_wsgi_app passes substituted *)\n"
        f"Definition {coq_name} : pexp :=\n  {term}.\n"
    )
