"""Fail-closed translator for a function whose body is ``return <bytes-literal>.join((e1, ..., en))``.

Each element must be a module-level bytes constant (by name) or ``<param>.encode()``; parameters must be
used in signature order, each exactly once.  Emits

  * ``<coq_fn> p1 .. pk : option bytes`` -- the join over ``str_encode`` of the parameters
    (None = UnicodeEncodeError), with ``py_join`` for ``bytes.join``;
  * ``<coq_layout> : layout`` -- the same framing as a Layout.v layout: a constant element c -> ``FConst c``
    followed by ``FConst sep``; a variable element -> ``FNulTerm`` (only legal for the separator ``b"\\x00"``);
    the last element -> ``FTail`` (variable) or ``FConst c`` (constant).
"""
from __future__ import annotations

import ast
from pathlib import Path

from vlib.core import TranslationBroken


def _module(path: Path) -> ast.Module:
    try:
        return ast.parse(path.read_text())
    except (OSError, SyntaxError) as e:
        raise TranslationBroken(str(path), f"cannot parse: {e}") from e


def find_function(tree: ast.AST, name: str, site: str) -> ast.FunctionDef:
    hits = [n for n in ast.walk(tree) if isinstance(n, ast.FunctionDef) and n.name == name]
    if len(hits) != 1:
        raise TranslationBroken(site, f"expected exactly one def {name}, found {len(hits)}")
    return hits[0]


def body_without_docstring(fn: ast.FunctionDef) -> list[ast.stmt]:
    body = list(fn.body)
    if body and isinstance(body[0], ast.Expr) and isinstance(body[0].value, ast.Constant) and isinstance(body[0].value.value, str):
        body = body[1:]
    return body


def module_constant(tree: ast.Module, name: str, site: str) -> object:
    for node in tree.body:
        if isinstance(node, ast.Assign) and len(node.targets) == 1 and isinstance(node.targets[0], ast.Name) and node.targets[0].id == name:
            try:
                return ast.literal_eval(node.value)
            except Exception as e:
                raise TranslationBroken(site, f"{name} is not a literal") from e
    raise TranslationBroken(site, f"module constant {name} not found")


def coq_bytes(b: bytes) -> str:
    return "[" + ";".join(str(x) for x in b) + "]"


def join_definitions(path: Path, fn_name: str, coq_fn: str, coq_layout: str, const_names: dict[str, str]) -> str:
    """const_names maps a Python module constant to the Coq name that holds it (emitted elsewhere)."""
    site = f"{path}:{fn_name}"
    tree = _module(path)
    fn = find_function(tree, fn_name, site)
    a = fn.args
    if a.vararg or a.kwarg or a.kwonlyargs or a.posonlyargs or a.defaults:
        raise TranslationBroken(site, "unexpected signature")
    params = [x.arg for x in a.args]
    body = body_without_docstring(fn)
    if len(body) != 1 or not isinstance(body[0], ast.Return) or body[0].value is None:
        raise TranslationBroken(site, "body is not a single return")
    call = body[0].value
    if not (isinstance(call, ast.Call) and isinstance(call.func, ast.Attribute) and call.func.attr == "join" and isinstance(call.func.value, ast.Constant) and isinstance(call.func.value.value, bytes) and len(call.args) == 1 and not call.keywords):
        raise TranslationBroken(site, f"not <bytes>.join(...): {ast.unparse(call)[:80]}")
    sep: bytes = call.func.value.value
    seq = call.args[0]
    if not isinstance(seq, (ast.Tuple, ast.List)):
        raise TranslationBroken(site, "join argument is not a tuple/list display")
    elems: list[tuple[str, str]] = []  # ("const", coqname) | ("var", param)
    used: list[str] = []
    for e in seq.elts:
        if isinstance(e, ast.Name) and e.id in const_names:
            v = module_constant(tree, e.id, site)
            if not isinstance(v, bytes):
                raise TranslationBroken(site, f"{e.id} is not bytes")
            elems.append(("const", const_names[e.id]))
        elif isinstance(e, ast.Call) and isinstance(e.func, ast.Attribute) and e.func.attr == "encode" and not e.args and not e.keywords and isinstance(e.func.value, ast.Name) and e.func.value.id in params:
            elems.append(("var", e.func.value.id))
            used.append(e.func.value.id)
        else:
            raise TranslationBroken(site, f"unsupported join element {ast.unparse(e)[:60]}")
    if used != params:
        raise TranslationBroken(site, f"parameters {params} are not used once each in order: {used}")
    if not elems:
        raise TranslationBroken(site, "empty join")
    # (a) the function
    parts = [c if k == "const" else f"b_{c}" for k, c in elems]
    inner = f"Some (py_join {coq_bytes(sep)} [{'; '.join(parts)}])"
    for p in reversed(params):
        inner = f"match str_encode {p} with None => None | Some b_{p} =>\n  {inner} end"
    fn_text = f"Definition {coq_fn} ({' '.join(params)} : str) : option bytes :=\n  {inner}.\n"
    # (b) the layout
    fields: list[str] = []
    for i, (k, c) in enumerate(elems):
        last = i == len(elems) - 1
        if k == "const":
            fields.append(f"FConst {c}")
            if not last:
                fields.append(f"FConst {coq_bytes(sep)}")
        elif last:
            fields.append("FTail")
        else:
            if sep != b"\x00":
                raise TranslationBroken(site, "a variable field before the end needs the separator b'\\x00' (FNulTerm)")
            fields.append("FNulTerm")
    lay_text = f"Definition {coq_layout} : layout :=\n  [{'; '.join(fields)}].\n"
    return f"(* {fn_name}: {ast.unparse(call)} *)\n" + fn_text + lay_text
