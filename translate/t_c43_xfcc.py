"""Fail-closed translator for C43: constants, guards and the selection expression of the XFCC code.

Reads ``vgi_rpc/http/_mtls.py`` and ``vgi_rpc/http/_unauthorized.py`` with ``ast`` and emits Coq
definitions (strings as ``list N`` of code points).  Every shape that is not exactly one of the
accepted ones raises ``TranslationBroken``.

Emitted (gen/G_Xfcc.v):
  gen_header_name                      _XFCC_HEADER
  gen_guard                            first ``if`` of ``authenticate``: ``not header_value`` -> GuardFalsy,
                                       ``header_value is None`` -> GuardIsNone
  gen_reason_missing / gen_reason_empty  AuthReason values raised by the first / second guard
  gen_empty_guard_is_not_elements      second guard is ``not elements``
  gen_select                           (compared literal, index if equal, index otherwise) of the selection
  gen_delim_elem / gen_delim_pair / gen_eq   literals of _parse_xfcc
  gen_unquoted_keys / gen_dns_key / gen_field_keys
  gen_quote / gen_bslash               literals of _split_respecting_quotes
  gen_unescape_pattern / gen_unescape_repl / gen_cn_pattern / gen_cn_prefix / gen_cn_skip
"""
from __future__ import annotations

import ast
from pathlib import Path
from typing import Any

from vlib.core import TranslationBroken


def _s(s: str) -> str:
    return "([" + ";".join(str(ord(c)) for c in s) + "]%N : list N)"


def _parse(path: Path) -> ast.Module:
    try:
        return ast.parse(path.read_text())
    except (OSError, SyntaxError) as e:
        raise TranslationBroken(str(path), f"cannot parse: {e}") from e


def _func(body: list[ast.stmt], name: str, site: str) -> ast.FunctionDef:
    found = [n for n in body if isinstance(n, ast.FunctionDef) and n.name == name]
    if len(found) != 1:
        raise TranslationBroken(site, f"expected exactly one def {name}, found {len(found)}")
    return found[0]


def _const_str(node: ast.AST, site: str) -> str:
    if isinstance(node, ast.Constant) and isinstance(node.value, str):
        return node.value
    raise TranslationBroken(site, f"expected a string literal, got {ast.dump(node)[:80]}")


def _strip_doc(body: list[ast.stmt]) -> list[ast.stmt]:
    if body and isinstance(body[0], ast.Expr) and isinstance(body[0].value, ast.Constant) and isinstance(body[0].value.value, str):
        return body[1:]
    return body


def _raise_reason(stmts: list[ast.stmt], site: str) -> str:
    """body of a guard must be exactly ``raise AuthFailure(AuthReason.X, ...)``; returns X."""
    if len(stmts) != 1 or not isinstance(stmts[0], ast.Raise) or stmts[0].exc is None:
        raise TranslationBroken(site, "guard body is not a single raise")
    exc = stmts[0].exc
    if not (isinstance(exc, ast.Call) and isinstance(exc.func, ast.Name) and exc.func.id == "AuthFailure" and exc.args):
        raise TranslationBroken(site, "guard does not raise AuthFailure(...)")
    r = exc.args[0]
    if not (isinstance(r, ast.Attribute) and isinstance(r.value, ast.Name) and r.value.id == "AuthReason"):
        raise TranslationBroken(site, "AuthFailure reason is not AuthReason.<NAME>")
    return r.attr


def _is_not_name(test: ast.AST, name: str) -> bool:
    return isinstance(test, ast.UnaryOp) and isinstance(test.op, ast.Not) and isinstance(test.operand, ast.Name) and test.operand.id == name


def _is_none_test(test: ast.AST, name: str) -> bool:
    return (
        isinstance(test, ast.Compare)
        and isinstance(test.left, ast.Name)
        and test.left.id == name
        and len(test.ops) == 1
        and isinstance(test.ops[0], ast.Is)
        and isinstance(test.comparators[0], ast.Constant)
        and test.comparators[0].value is None
    )


def _index(node: ast.AST, seq: str, site: str) -> int:
    if isinstance(node, ast.Subscript) and isinstance(node.value, ast.Name) and node.value.id == seq:
        try:
            v = ast.literal_eval(node.slice)
        except Exception as e:  # noqa: BLE001
            raise TranslationBroken(site, "selection index is not a literal") from e
        if isinstance(v, int):
            return v
    raise TranslationBroken(site, f"expected {seq}[<int>], got {ast.dump(node)[:80]}")


def _enum_values(repo: Path) -> dict[str, str]:
    path = repo / "vgi_rpc" / "http" / "_unauthorized.py"
    tree = _parse(path)
    site = f"{path}:AuthReason"
    cls = [n for n in tree.body if isinstance(n, ast.ClassDef) and n.name == "AuthReason"]
    if len(cls) != 1:
        raise TranslationBroken(site, "class AuthReason not found")
    if not any(isinstance(b, ast.Name) and b.id == "StrEnum" for b in cls[0].bases):
        raise TranslationBroken(site, "AuthReason is not a StrEnum")
    out: dict[str, str] = {}
    for n in cls[0].body:
        if isinstance(n, ast.Assign) and len(n.targets) == 1 and isinstance(n.targets[0], ast.Name):
            out[n.targets[0].id] = _const_str(n.value, site)
    return out


def extract(repo: Path) -> dict[str, Any]:
    path = repo / "vgi_rpc" / "http" / "_mtls.py"
    tree = _parse(path)
    res: dict[str, Any] = {}
    # ---- _XFCC_HEADER
    site = f"{path}:_XFCC_HEADER"
    hdr = [n for n in tree.body if isinstance(n, ast.Assign) and len(n.targets) == 1 and isinstance(n.targets[0], ast.Name) and n.targets[0].id == "_XFCC_HEADER"]
    if len(hdr) != 1:
        raise TranslationBroken(site, "assignment not found")
    res["header_name"] = _const_str(hdr[0].value, site)
    # ---- authenticate
    outer = _func(tree.body, "mtls_authenticate_xfcc", str(path))
    site = f"{path}:mtls_authenticate_xfcc.authenticate"
    auth = _func(outer.body, "authenticate", site)
    body = _strip_doc(auth.body)
    if len(body) < 5:
        raise TranslationBroken(site, "authenticate is shorter than expected")
    s0, s1, s2, s3, s4 = body[:5]
    # header_value = req.get_header(_XFCC_HEADER)
    ok0 = (
        isinstance(s0, ast.Assign)
        and len(s0.targets) == 1
        and isinstance(s0.targets[0], ast.Name)
        and s0.targets[0].id == "header_value"
        and isinstance(s0.value, ast.Call)
        and isinstance(s0.value.func, ast.Attribute)
        and s0.value.func.attr == "get_header"
        and isinstance(s0.value.func.value, ast.Name)
        and s0.value.func.value.id == "req"
        and len(s0.value.args) == 1
        and not s0.value.keywords
        and isinstance(s0.value.args[0], ast.Name)
        and s0.value.args[0].id == "_XFCC_HEADER"
    )
    if not ok0:
        raise TranslationBroken(site, "first statement is not header_value = req.get_header(_XFCC_HEADER)")
    # guard 1
    if not isinstance(s1, ast.If) or s1.orelse:
        raise TranslationBroken(site, "second statement is not a plain if")
    if _is_not_name(s1.test, "header_value"):
        res["guard"] = "GuardFalsy"
    elif _is_none_test(s1.test, "header_value"):
        res["guard"] = "GuardIsNone"
    else:
        raise TranslationBroken(site, f"unknown missing-header guard: {ast.unparse(s1.test)}")
    res["reason_missing_name"] = _raise_reason(s1.body, site + ":guard1")
    # elements = _parse_xfcc(header_value)
    ok2 = (
        isinstance(s2, ast.Assign)
        and len(s2.targets) == 1
        and isinstance(s2.targets[0], ast.Name)
        and s2.targets[0].id == "elements"
        and isinstance(s2.value, ast.Call)
        and isinstance(s2.value.func, ast.Name)
        and s2.value.func.id == "_parse_xfcc"
        and len(s2.value.args) == 1
        and isinstance(s2.value.args[0], ast.Name)
        and s2.value.args[0].id == "header_value"
        and not s2.value.keywords
    )
    if not ok2:
        raise TranslationBroken(site, "third statement is not elements = _parse_xfcc(header_value)")
    # guard 2
    if not isinstance(s3, ast.If) or s3.orelse or not _is_not_name(s3.test, "elements"):
        raise TranslationBroken(site, "fourth statement is not `if not elements:`")
    res["reason_empty_name"] = _raise_reason(s3.body, site + ":guard2")
    # element = elements[0] if select_element == "first" else elements[-1]
    ok4 = (
        isinstance(s4, ast.Assign)
        and len(s4.targets) == 1
        and isinstance(s4.targets[0], ast.Name)
        and s4.targets[0].id == "element"
        and isinstance(s4.value, ast.IfExp)
        and isinstance(s4.value.test, ast.Compare)
        and isinstance(s4.value.test.left, ast.Name)
        and s4.value.test.left.id == "select_element"
        and len(s4.value.test.ops) == 1
        and isinstance(s4.value.test.ops[0], ast.Eq)
    )
    if not ok4:
        raise TranslationBroken(site, "fifth statement is not the selection expression")
    assert isinstance(s4, ast.Assign) and isinstance(s4.value, ast.IfExp) and isinstance(s4.value.test, ast.Compare)
    res["select"] = (
        _const_str(s4.value.test.comparators[0], site),
        _index(s4.value.body, "elements", site),
        _index(s4.value.orelse, "elements", site),
    )
    # the remaining statements may only read `element` (never `elements` / `header_value`)
    for st in body[5:]:
        for n in ast.walk(st):
            if isinstance(n, ast.Name) and n.id in ("elements", "header_value"):
                raise TranslationBroken(site, f"`{n.id}` is used after the selection (line {n.lineno})")
    enum = _enum_values(repo)
    for k in ("reason_missing_name", "reason_empty_name"):
        if res[k] not in enum:
            raise TranslationBroken(site, f"AuthReason.{res[k]} is not defined")
    res["reason_missing"] = enum[res["reason_missing_name"]]
    res["reason_empty"] = enum[res["reason_empty_name"]]

    # ---- _parse_xfcc literals
    site = f"{path}:_parse_xfcc"
    pf = _func(tree.body, "_parse_xfcc", site)
    delims: list[str] = []
    finds: list[str] = []
    tuples: list[tuple[str, ...]] = []
    eq_keys: list[str] = []
    gets: list[str] = []
    for n in ast.walk(pf):
        if isinstance(n, ast.Call) and isinstance(n.func, ast.Name) and n.func.id == "_split_respecting_quotes":
            if len(n.args) != 2 or n.keywords:
                raise TranslationBroken(site, "_split_respecting_quotes call shape")
            delims.append(_const_str(n.args[1], site))
        if isinstance(n, ast.Call) and isinstance(n.func, ast.Attribute) and n.func.attr == "find":
            finds.append(_const_str(n.args[0], site))
        if isinstance(n, ast.Compare) and isinstance(n.left, ast.Name) and n.left.id == "key" and len(n.ops) == 1:
            if isinstance(n.ops[0], ast.In) and isinstance(n.comparators[0], ast.Tuple):
                tuples.append(tuple(_const_str(e, site) for e in n.comparators[0].elts))
            elif isinstance(n.ops[0], ast.Eq):
                eq_keys.append(_const_str(n.comparators[0], site))
            else:
                raise TranslationBroken(site, f"unknown key test {ast.unparse(n)}")
        if isinstance(n, ast.Call) and isinstance(n.func, ast.Attribute) and n.func.attr == "get" and isinstance(n.func.value, ast.Name) and n.func.value.id == "fields":
            gets.append(_const_str(n.args[0], site))
    if delims != [",", ";"]:
        raise TranslationBroken(site, f"delimiters are {delims!r}")
    if len(finds) != 1 or len(tuples) != 1 or len(eq_keys) != 1:
        raise TranslationBroken(site, f"find/in/== literals: {finds!r} {tuples!r} {eq_keys!r}")
    res["delim_elem"], res["delim_pair"] = delims
    res["eq"] = finds[0]
    res["unquoted_keys"] = list(tuples[0])
    res["dns_key"] = eq_keys[0]
    res["field_keys"] = list(dict.fromkeys(gets))
    # ---- _split_respecting_quotes literals
    site = f"{path}:_split_respecting_quotes"
    sf = _func(tree.body, "_split_respecting_quotes", site)
    ch_lits: list[str] = []
    for n in ast.walk(sf):
        if isinstance(n, ast.Compare) and isinstance(n.left, ast.Name) and n.left.id == "ch" and isinstance(n.ops[0], ast.Eq):
            c = n.comparators[0]
            if isinstance(c, ast.Constant):
                ch_lits.append(_const_str(c, site))
            elif not (isinstance(c, ast.Name) and c.id == "delimiter"):
                raise TranslationBroken(site, f"unknown comparison {ast.unparse(n)}")
    if len(ch_lits) != 2:
        raise TranslationBroken(site, f"character literals {ch_lits!r}")
    res["quote"], res["bslash"] = ch_lits
    # ---- regexes
    site = f"{path}:_unescape_quoted"
    uf = _func(tree.body, "_unescape_quoted", site)
    ub = _strip_doc(uf.body)
    ok = (
        len(ub) == 1
        and isinstance(ub[0], ast.Return)
        and isinstance(ub[0].value, ast.Call)
        and ast.unparse(ub[0].value.func) == "re.sub"
        and len(ub[0].value.args) == 3
        and not ub[0].value.keywords
        and isinstance(ub[0].value.args[2], ast.Name)
        and ub[0].value.args[2].id == "text"
    )
    if not ok:
        raise TranslationBroken(site, "body is not return re.sub(<pat>, <repl>, text)")
    assert isinstance(ub[0], ast.Return) and isinstance(ub[0].value, ast.Call)
    res["unescape_pattern"] = _const_str(ub[0].value.args[0], site)
    res["unescape_repl"] = _const_str(ub[0].value.args[1], site)
    site = f"{path}:_extract_cn"
    cf = _func(tree.body, "_extract_cn", site)
    pats: list[str] = []
    prefixes: list[str] = []
    skips: list[int] = []
    for n in ast.walk(cf):
        if isinstance(n, ast.Call) and ast.unparse(n.func) == "re.split":
            if len(n.args) != 2 or n.keywords:
                raise TranslationBroken(site, "re.split call shape")
            pats.append(_const_str(n.args[0], site))
        if isinstance(n, ast.Call) and isinstance(n.func, ast.Attribute) and n.func.attr == "startswith":
            if ast.unparse(n.func.value) != "part.upper()":
                raise TranslationBroken(site, f"startswith on {ast.unparse(n.func.value)}")
            prefixes.append(_const_str(n.args[0], site))
        if isinstance(n, ast.Return) and isinstance(n.value, ast.Subscript):
            if not (isinstance(n.value.value, ast.Name) and n.value.value.id == "part" and isinstance(n.value.slice, ast.Slice) and n.value.slice.upper is None and n.value.slice.step is None and isinstance(n.value.slice.lower, ast.Constant)):
                raise TranslationBroken(site, f"return shape {ast.unparse(n)}")
            skips.append(int(n.value.slice.lower.value))
    if len(pats) != 1 or len(prefixes) != 1 or len(skips) != 1:
        raise TranslationBroken(site, f"literals {pats!r} {prefixes!r} {skips!r}")
    res["cn_pattern"], res["cn_prefix"], res["cn_skip"] = pats[0], prefixes[0], skips[0]
    return res


def coq_text(repo: Path) -> str:
    r = extract(repo)
    sel = r["select"]
    lines = [
        "From Coq Require Import List NArith ZArith Bool.",
        "From VGI Require Import M_Xfcc.",
        "Import ListNotations.",
        "Open Scope N_scope.",
        f"Definition gen_header_name : list N := {_s(r['header_name'])}.",
        f"Definition gen_guard : guard := {r['guard']}.",
        f"Definition gen_reason_missing : list N := {_s(r['reason_missing'])}.",
        f"Definition gen_reason_empty : list N := {_s(r['reason_empty'])}.",
        f"Definition gen_select : list N * Z * Z := ({_s(sel[0])}, ({sel[1]})%Z, ({sel[2]})%Z).",
        f"Definition gen_delim_elem : list N := {_s(r['delim_elem'])}.",
        f"Definition gen_delim_pair : list N := {_s(r['delim_pair'])}.",
        f"Definition gen_eq : list N := {_s(r['eq'])}.",
        "Definition gen_unquoted_keys : list (list N) := [" + "; ".join(_s(k) for k in r["unquoted_keys"]) + "].",
        f"Definition gen_dns_key : list N := {_s(r['dns_key'])}.",
        "Definition gen_field_keys : list (list N) := [" + "; ".join(_s(k) for k in r["field_keys"]) + "].",
        f"Definition gen_quote : list N := {_s(r['quote'])}.",
        f"Definition gen_bslash : list N := {_s(r['bslash'])}.",
        f"Definition gen_unescape_pattern : list N := {_s(r['unescape_pattern'])}.",
        f"Definition gen_unescape_repl : list N := {_s(r['unescape_repl'])}.",
        f"Definition gen_cn_pattern : list N := {_s(r['cn_pattern'])}.",
        f"Definition gen_cn_prefix : list N := {_s(r['cn_prefix'])}.",
        f"Definition gen_cn_skip : N := {r['cn_skip']}.",
    ]
    return "\n".join(lines) + "\n"
