"""Fail-closed translator for the authenticator make_wsgi_app hands to _AuthMiddleware while the PKCE flow is active
(property C20): ``chain_authenticate(authenticate, make_cookie_authenticate(authenticate))``.

Reads
  * make_wsgi_app (vgi_rpc/http/server/_factory.py): inside the ``if`` that sets ``_pkce_active = True`` the only
    re-binding of ``authenticate`` is ``authenticate = chain_authenticate(<members>)`` where each member is the name
    ``authenticate`` itself (-> MCallback) or a name bound, in the same block and before, to
    ``make_cookie_authenticate(authenticate)`` with no further argument (-> MCookie <bearer literal>);
  * make_cookie_authenticate (vgi_rpc/http/_oauth_pkce.py): the function is exactly  docstring / def authenticate /
    return authenticate  (no closure state), and the inner function is exactly
        token = req.cookies.get(cookie_name)
        if not token: raise AuthFailure(...)
        saved = req.env.get("HTTP_AUTHORIZATION")
        req.env["HTTP_AUTHORIZATION"] = f"<LIT>{token}"
        try: return inner(req)
        finally: <restore saved>
    so that its answer is whatever ``inner`` answers now about this request with the cookie as Authorization;
  * chain_authenticate (vgi_rpc/http/_bearer.py): the inner function loops ``for auth_fn in authenticators`` with body
    exactly ``try: return auth_fn(req)`` / ``except ValueError`` (handler without return / break / continue / call of a
    member) and ends in ``raise``; the outer function keeps no per-app state.

Emits ``gen_members_pkce : list member``.  Any other shape raises TranslationBroken.
"""
from __future__ import annotations

import ast
from pathlib import Path

from translate.t_c20_exempt import _parse, cstr, find_func
from vlib.core import TranslationBroken


def _body_wo_doc(fn: ast.FunctionDef) -> list[ast.stmt]:
    b = fn.body
    if b and isinstance(b[0], ast.Expr) and isinstance(b[0].value, ast.Constant) and isinstance(b[0].value.value, str):
        return b[1:]
    return b


def cookie_member_bearer(repo: Path) -> str:
    """The literal put in front of the cookie token; checks the wrapper is stateless and asks ``inner`` every time."""
    p = repo / "vgi_rpc" / "http" / "_oauth_pkce.py"
    site = f"{p}:make_cookie_authenticate"
    fn = find_func(_parse(p).body, "make_cookie_authenticate", site)
    params = [a.arg for a in fn.args.args]
    if params[:2] != ["inner", "cookie_name"] or fn.args.vararg or fn.args.kwarg or fn.args.kwonlyargs:
        raise TranslationBroken(site, f"unexpected parameters {params}")
    body = _body_wo_doc(fn)
    if not (len(body) == 2 and isinstance(body[0], ast.FunctionDef) and isinstance(body[1], ast.Return)
            and isinstance(body[1].value, ast.Name) and body[1].value.id == body[0].name):
        raise TranslationBroken(site, "body is not exactly 'def authenticate(req): ...; return authenticate' (closure state?)")
    inner = body[0]
    if [a.arg for a in inner.args.args] != ["req"] or inner.decorator_list:
        raise TranslationBroken(site, "inner function is not authenticate(req)")
    for n in ast.walk(inner):
        if isinstance(n, (ast.Nonlocal, ast.Global)):
            raise TranslationBroken(site, "inner function declares nonlocal/global state")
    st = _body_wo_doc(inner)
    if len(st) != 5:
        raise TranslationBroken(site, f"inner function has {len(st)} statements, expected 5")
    s0, s1, s2, s3, s4 = st
    if ast.unparse(s0) != "token = req.cookies.get(cookie_name)":
        raise TranslationBroken(site, f"statement 1 is {ast.unparse(s0)!r}")
    if not (isinstance(s1, ast.If) and ast.unparse(s1.test) == "not token" and not s1.orelse and len(s1.body) == 1
            and isinstance(s1.body[0], ast.Raise) and isinstance(s1.body[0].exc, ast.Call) and ast.unparse(s1.body[0].exc.func) == "AuthFailure"):
        raise TranslationBroken(site, "statement 2 is not 'if not token: raise AuthFailure(...)'")
    if ast.unparse(s2) != "saved = req.env.get('HTTP_AUTHORIZATION')":
        raise TranslationBroken(site, f"statement 3 is {ast.unparse(s2)!r}")
    if not (isinstance(s3, ast.Assign) and len(s3.targets) == 1 and ast.unparse(s3.targets[0]) == "req.env['HTTP_AUTHORIZATION']"
            and isinstance(s3.value, ast.JoinedStr) and len(s3.value.values) == 2
            and isinstance(s3.value.values[0], ast.Constant) and isinstance(s3.value.values[0].value, str)
            and isinstance(s3.value.values[1], ast.FormattedValue) and s3.value.values[1].conversion == -1
            and s3.value.values[1].format_spec is None and ast.unparse(s3.value.values[1].value) == "token"):
        raise TranslationBroken(site, "statement 4 is not req.env['HTTP_AUTHORIZATION'] = f'<literal>{token}'")
    if not (isinstance(s4, ast.Try) and len(s4.body) == 1 and isinstance(s4.body[0], ast.Return) and ast.unparse(s4.body[0].value) == "inner(req)"
            and not s4.handlers and not s4.orelse and s4.finalbody):
        raise TranslationBroken(site, "statement 5 is not 'try: return inner(req) finally: ...'")
    for n in s4.finalbody:
        for m in ast.walk(n):
            if isinstance(m, (ast.Return, ast.Raise)) or (isinstance(m, ast.Call) and ast.unparse(m.func) == "inner"):
                raise TranslationBroken(site, "the finally block returns / raises / calls inner")
    # cookie_name default is the module constant
    if len(fn.args.defaults) != 1 or ast.unparse(fn.args.defaults[0]) != "_AUTH_COOKIE_NAME":
        raise TranslationBroken(site, "cookie_name default changed")
    return s3.value.values[0].value


def check_chain(repo: Path) -> None:
    p = repo / "vgi_rpc" / "http" / "_bearer.py"
    site = f"{p}:chain_authenticate"
    fn = find_func(_parse(p).body, "chain_authenticate", site)
    if not (fn.args.vararg and fn.args.vararg.arg == "authenticators" and not fn.args.args and not fn.args.kwonlyargs and not fn.args.kwarg):
        raise TranslationBroken(site, "signature is not chain_authenticate(*authenticators)")
    body = _body_wo_doc(fn)
    inner = None
    for st in body:
        if isinstance(st, ast.FunctionDef):
            if inner is not None:
                raise TranslationBroken(site, "more than one nested function")
            inner = st
        elif isinstance(st, ast.If) or isinstance(st, ast.For):
            # argument validation: may only raise
            for n in ast.walk(st):
                if isinstance(n, (ast.Assign, ast.AugAssign, ast.AnnAssign, ast.Return)):
                    raise TranslationBroken(site, "validation block assigns / returns")
        elif isinstance(st, ast.Expr) and isinstance(st.value, ast.Call) and ast.unparse(st.value.func) == "declare_proxy_headers":
            pass
        elif isinstance(st, ast.Return) and isinstance(st.value, ast.Name) and inner is not None and st.value.id == inner.name:
            pass
        else:
            raise TranslationBroken(site, f"unexpected statement {ast.unparse(st)[:80]!r} (closure state?)")
    if inner is None or [a.arg for a in inner.args.args] != ["req"]:
        raise TranslationBroken(site, "nested authenticate(req) not found")
    for n in ast.walk(inner):
        if isinstance(n, (ast.Nonlocal, ast.Global)):
            raise TranslationBroken(site, "nested function declares nonlocal/global state")
    st = _body_wo_doc(inner)
    loops = [i for i, s in enumerate(st) if isinstance(s, ast.For)]
    if len(loops) != 1:
        raise TranslationBroken(site, "expected exactly one for loop in the nested function")
    li = loops[0]
    for s in st[:li]:
        if not isinstance(s, (ast.Assign, ast.AnnAssign)) or any(isinstance(n, ast.Call) for n in ast.walk(s)):
            raise TranslationBroken(site, f"unexpected statement before the loop: {ast.unparse(s)[:60]!r}")
    loop = st[li]
    if not (ast.unparse(loop.target) == "auth_fn" and ast.unparse(loop.iter) == "authenticators" and not loop.orelse
            and len(loop.body) == 1 and isinstance(loop.body[0], ast.Try)):
        raise TranslationBroken(site, "loop is not 'for auth_fn in authenticators: try: ...'")
    tr = loop.body[0]
    if not (len(tr.body) == 1 and isinstance(tr.body[0], ast.Return) and ast.unparse(tr.body[0].value) == "auth_fn(req)"
            and len(tr.handlers) == 1 and ast.unparse(tr.handlers[0].type) == "ValueError" and not tr.orelse and not tr.finalbody):
        raise TranslationBroken(site, "loop body is not 'try: return auth_fn(req) except ValueError ...'")
    for n in ast.walk(tr.handlers[0]):
        if isinstance(n, (ast.Return, ast.Break, ast.Continue, ast.Raise)) or (isinstance(n, ast.Call) and ast.unparse(n.func) == "auth_fn"):
            raise TranslationBroken(site, "the ValueError handler returns / breaks / raises / calls a member")
    tail = st[li + 1:]
    if not tail or not isinstance(tail[-1], ast.Raise) or any(isinstance(n, ast.Return) for s in tail for n in ast.walk(s)):
        raise TranslationBroken(site, "the nested function does not end in raise after the loop")


def members(repo: Path) -> list[str]:
    fap = repo / "vgi_rpc" / "http" / "server" / "_factory.py"
    site = f"{fap}:make_wsgi_app"
    fn = find_func(_parse(fap).body, "make_wsgi_app", site)
    blocks = [st for st in fn.body if isinstance(st, ast.If) and any(
        isinstance(s, ast.Assign) and ast.unparse(s) == "_pkce_active = True" for s in st.body)]
    if len(blocks) != 1:
        raise TranslationBroken(site, "the block setting _pkce_active = True was not found exactly once at top level")
    blk = blocks[0]
    stores = [n for n in ast.walk(fn) if isinstance(n, ast.Name) and n.id == "authenticate" and isinstance(n.ctx, ast.Store)]
    rebinds = [s for s in blk.body if isinstance(s, ast.Assign) and len(s.targets) == 1 and ast.unparse(s.targets[0]) == "authenticate"]
    if len(stores) != 1 or len(rebinds) != 1:
        raise TranslationBroken(site, f"authenticate is re-bound {len(stores)} times (expected once, directly in the PKCE block)")
    rb = rebinds[0]
    if not (isinstance(rb.value, ast.Call) and ast.unparse(rb.value.func) == "chain_authenticate" and not rb.value.keywords and rb.value.args):
        raise TranslationBroken(site, f"authenticate is re-bound to {ast.unparse(rb.value)[:80]!r}")
    bearer = None
    out = []
    for a in rb.value.args:
        if not isinstance(a, ast.Name):
            raise TranslationBroken(site, f"chain member is not a name: {ast.unparse(a)!r}")
        if a.id == "authenticate":
            out.append("MCallback")
            continue
        defs = [s for s in blk.body[: blk.body.index(rb)] if isinstance(s, ast.Assign) and len(s.targets) == 1 and ast.unparse(s.targets[0]) == a.id]
        all_stores = [n for n in ast.walk(fn) if isinstance(n, ast.Name) and n.id == a.id and isinstance(n.ctx, ast.Store)]
        if len(defs) != 1 or len(all_stores) != 1 or ast.unparse(defs[0].value) != "make_cookie_authenticate(authenticate)":
            raise TranslationBroken(site, f"chain member {a.id} is not bound once to make_cookie_authenticate(authenticate)")
        if bearer is None:
            bearer = cookie_member_bearer(repo)
        out.append(f"MCookie {cstr(bearer)}")
    # the first member must be the callback on the request as it is (the header leg)
    if not out or out[0] != "MCallback":
        raise TranslationBroken(site, "the first chain member is not the operator callback")
    # make_cookie_authenticate must be the function of _oauth_pkce (imported in the block)
    imports = [ast.unparse(s) for s in blk.body if isinstance(s, ast.ImportFrom)]
    if not any("vgi_rpc.http._oauth_pkce" in i and "make_cookie_authenticate" in i for i in imports) or not any(
            "vgi_rpc.http._bearer" in i and "chain_authenticate" in i for i in imports):
        raise TranslationBroken(site, "chain_authenticate / make_cookie_authenticate are not imported from _bearer / _oauth_pkce in the PKCE block")
    check_chain(repo)
    return out


def definition(repo: Path, coq_name: str = "gen_members_pkce") -> str:
    ms = members(repo)
    return (
        "From Coq Require Import List NArith.\nFrom VGI Require Import M_Exempt.\nImport ListNotations.\nOpen Scope N_scope.\n"
        "(* the authenticator handed to _AuthMiddleware while the PKCE flow is active: chain_authenticate(...) members *)\n"
        f"Definition {coq_name} : list member :=\n  [ " + "; ".join(ms) + " ].\n"
    )
