"""Fail-closed translator for vgi_rpc/http/_proof.py: constants, ``verify_proof``, the closure ``gate`` of
``proxy_proof_gate`` and shape guards for ``_unb64`` / ``ProofError.__init__``.

The bodies are translated statement by statement, in source order, into a Gallina term over the primitives
of coq/model/M_Proof.v.  Every statement must be one of the shapes listed here (matched on ``ast.unparse`` of the
statement or of its parts); anything else raises TranslationBroken.  Re-ordering statements translates fine and
yields a different term, which the tie lemma (reflexivity against the hand model) then rejects.
"""
from __future__ import annotations

import ast
import re
from pathlib import Path

from translate.t_c22_layout import _module, body_without_docstring, coq_bytes, find_function, module_constant
from vlib.core import TranslationBroken

REASONS = {
    "no_proof": "NoProof",
    "malformed": "Malformed",
    "unknown_kid": "UnknownKid",
    "expired": "Expired",
    "not_yet_valid": "NotYetValid",
    "bad_mac": "BadMac",
    "replayed": "Replayed",
}
REGEXES = {"_KID_RE": "gen_kid_re", "_TS_RE": "gen_ts_re", "_NONCE_RE": "gen_nonce_re", "_MAC_RE": "gen_mac_re", "_ORIGIN_RE": "gen_origin_re"}
IDENT = r"[A-Za-z_][A-Za-z0-9_]*"


def coq_str(s: str) -> str:
    return "[" + ";".join(str(ord(c)) for c in s) + "]"


def _raise_reason(stmts: list[ast.stmt], site: str, reason_expr: str | None = None) -> str:
    """Body of an ``if``: exactly ``raise ProofError(<reason literal>, <anything>)``; returns the Coq reason."""
    if len(stmts) != 1 or not isinstance(stmts[0], ast.Raise):
        raise TranslationBroken(site, "if-body is not a single raise")
    exc = stmts[0].exc
    if not (isinstance(exc, ast.Call) and isinstance(exc.func, ast.Name) and exc.func.id == "ProofError" and 1 <= len(exc.args) <= 2 and not exc.keywords):
        raise TranslationBroken(site, f"raises something else than ProofError(reason, detail): {ast.unparse(stmts[0])[:80]}")
    r = exc.args[0]
    if not (isinstance(r, ast.Constant) and isinstance(r.value, str) and r.value in REASONS):
        raise TranslationBroken(site, f"reason is not a literal of the closed set: {ast.unparse(r)[:40]}")
    return REASONS[r.value]


def _cond(test: str, site: str) -> str:
    fixed = {
        "len(token) > _MAX_HEADER_BYTES": "Nat.ltb gen_max_header (length token)",
        "version != _VERSION": "negb (str_eqb version gen_version)",
        "age > skew_seconds": "(age >? skew_seconds)%Z",
        "-age > skew_seconds": "(- age >? skew_seconds)%Z",
        "not hmac.compare_digest(received, expected)": "negb (Bytes.bytes_eqb received expected)",
        "nonce_cache is not None and (not nonce_cache.check_and_add(nonce))": "match nonce_cache with Some check_and_add => negb (check_and_add nonce) | None => false end",
    }
    if test in fixed:
        return fixed[test]
    m = re.fullmatch(rf"len\(parts\) != (\d+)", test)
    if m and int(m.group(1)) < 64:
        return f"negb (Nat.eqb (length parts) {int(m.group(1))})"
    m = re.fullmatch(rf"not (_[A-Z]+_RE)\.match\(({IDENT})\)", test)
    if m and m.group(1) in REGEXES:
        return f"negb (py_match penv0 {REGEXES[m.group(1)]} {m.group(2)})"
    raise TranslationBroken(site, f"unsupported condition: {test[:100]}")


def _verify_stmt(s: ast.stmt, site: str) -> tuple[str, str]:
    """(prefix, suffix) of the continuation for one statement of verify_proof."""
    if isinstance(s, ast.If):
        if s.orelse:
            raise TranslationBroken(site, "if with else")
        reason = _raise_reason(s.body, site)
        test = ast.unparse(s.test)
        if test == "entry is None":
            return f"match entry with None => Reject {reason} | Some entry =>", "end"
        return f"if {_cond(test, site)} then Reject {reason} else", ""
    text = ast.unparse(s)
    assigns = {
        "parts = token.split('.')": ("let parts := split_on 46 token in", ""),
        "entry = secrets.get(kid)": ("let entry := secrets kid in", ""),
        "secret, label = entry": ("let '(secret, label) := entry in", ""),
        "current = int(time.time()) if now is None else now": ("let current := now in", ""),
        "age = current - int(ts_raw)": ("match py_int ts_raw with None => OtherExc 1 | Some ts_int => let age := (current - ts_int)%Z in", "end"),
        "expected = hmac.new(secret, canonical_string(kid, ts_raw, nonce, origin_id), hashlib.sha256).digest()": (
            "match gen_canonical_string kid ts_raw nonce origin_id with None => OtherExc 2 | Some msg => let expected := hmac secret msg in",
            "end",
        ),
        "received = _unb64(mac_b64)": ("match unb64 mac_b64 with None => OtherExc 3 | Some received =>", "end"),
    }
    if text in assigns:
        return assigns[text]
    m = re.fullmatch(rf"({IDENT}(?:, {IDENT})+) = parts", text)
    if m:
        names = m.group(1).split(", ")
        return f"match parts with [{'; '.join(names)}] =>", "| _ => OtherExc 0 end"
    raise TranslationBroken(site, f"unsupported statement: {text[:120]}")


def verify_definition(path: Path) -> str:
    site = f"{path}:verify_proof"
    tree = _module(path)
    fn = find_function(tree, "verify_proof", site)
    a = fn.args
    names = [x.arg for x in a.args]
    kwonly = [x.arg for x in a.kwonlyargs]
    if names != ["token"] or kwonly != ["secrets", "origin_id", "skew_seconds", "nonce_cache", "now"] or a.vararg or a.kwarg or a.defaults:
        raise TranslationBroken(site, f"unexpected signature ({ast.unparse(a)[:120]})")
    kwd = [None if d is None else ast.unparse(d) for d in a.kw_defaults]
    if kwd[0] is not None or kwd[1] is not None or kwd[3] != "None" or kwd[4] != "None" or not (kwd[2] or "").isdigit():
        raise TranslationBroken(site, f"unexpected defaults {kwd}")
    body = body_without_docstring(fn)
    if not body or not isinstance(body[-1], ast.Return):
        raise TranslationBroken(site, "does not end in a return")
    ret = ast.unparse(body[-1])
    if ret != "return {'verified': 'true', 'proxy': label, 'kid': kid, 'origin_id': origin_id, 'reason': 'ok'}":
        raise TranslationBroken(site, f"unexpected return value: {ret[:120]}")
    pre, suf = [], []
    for s in body[:-1]:
        p, q = _verify_stmt(s, site)
        pre.append(p)
        suf.append(q)
    lines = ["    " + p for p in pre] + ["    Accept label kid origin_id"] + ["    " + q for q in reversed(suf) if q]
    return (
        f"Definition gen_default_skew : Z := ({kwd[2]})%Z.\n"
        "Definition gen_verify_proof (token : str) (secrets : keymap) (origin_id : str) (skew_seconds : Z)\n"
        "           (nonce_cache : option (str -> bool)) (now : Z) : outcome :=\n" + "\n".join(lines) + ".\n"
    )


def gate_definition(path: Path) -> str:
    site = f"{path}:proxy_proof_gate.gate"
    tree = _module(path)
    outer = find_function(tree, "proxy_proof_gate", site)
    outer_text = [ast.unparse(s) for s in outer.body]
    if "required = config.mode == 'require'" not in outer_text:
        raise TranslationBroken(site, "`required = config.mode == 'require'` not found")
    # cache = NonceCache(ttl_seconds=<expr>, capacity=<expr>) if config.enable_replay_cache else None
    # The cache is an oracle in the C22 model (its ttl / capacity are property C23): only the shape
    # "a NonceCache when enabled, None otherwise" is required here; the argument expressions are free.
    cache_ok = False
    for s in outer.body:
        if isinstance(s, ast.Assign) and len(s.targets) == 1 and isinstance(s.targets[0], ast.Name) and s.targets[0].id == "cache":
            v = s.value
            cache_ok = (
                isinstance(v, ast.IfExp)
                and ast.unparse(v.test) == "config.enable_replay_cache"
                and isinstance(v.orelse, ast.Constant) and v.orelse.value is None
                and isinstance(v.body, ast.Call) and isinstance(v.body.func, ast.Name) and v.body.func.id == "NonceCache"
                and not v.body.args and sorted(k.arg or "" for k in v.body.keywords) == ["capacity", "ttl_seconds"]
            )
    if not cache_ok:
        raise TranslationBroken(site, "the replay-cache construction changed shape")
    fn = find_function(outer, "gate", site)
    body = body_without_docstring(fn)
    if len(body) != 2 or ast.unparse(body[0]) != "raw = req.get_header(PROOF_HEADER)" or not isinstance(body[1], ast.Try):
        raise TranslationBroken(site, "expected `raw = req.get_header(PROOF_HEADER)` followed by try")
    tr = body[1]
    if tr.orelse or tr.finalbody or len(tr.handlers) != 1:
        raise TranslationBroken(site, "unexpected try shape")
    # ---- try body: the decision
    raw_is_option = True
    empty_reason: str | None = None
    pre, suf = [], []
    stmts = list(tr.body)
    if not stmts or not isinstance(stmts[-1], ast.Return):
        raise TranslationBroken(site, "try body does not end in return verify_proof(...)")
    want_ret = (
        "return verify_proof(raw, secrets=config.secrets, origin_id=config.origin_id, skew_seconds=config.skew_seconds, "
        "nonce_cache=cache, now=None if now is None else now())"
    )
    if ast.unparse(stmts[-1]) != want_ret:
        raise TranslationBroken(site, f"unexpected call of verify_proof: {ast.unparse(stmts[-1])[:160]}")
    for s in stmts[:-1]:
        if not isinstance(s, ast.If) or s.orelse:
            raise TranslationBroken(site, f"unsupported statement in try body: {ast.unparse(s)[:80]}")
        reason = _raise_reason(s.body, site)
        test = ast.unparse(s.test)
        if test == "not raw" and raw_is_option:
            pre.append(f"match raw with None => Reject {reason} | Some raw => if isnil raw then Reject {reason} else")
            suf.append("end")
            raw_is_option = False
            empty_reason = empty_reason or reason
        elif test == "raw is None" and raw_is_option:
            pre.append(f"match raw with None => Reject {reason} | Some raw =>")
            suf.append("end")
            raw_is_option = False
        elif test in ("not raw", "raw == ''") and not raw_is_option:
            pre.append(f"if isnil raw then Reject {reason} else")
            suf.append("")
            empty_reason = empty_reason or reason
        elif test == "',' in raw" and not raw_is_option:
            pre.append(f"if has_char 44 raw then Reject {reason} else")
            suf.append("")
        else:
            raise TranslationBroken(site, f"unsupported guard `{test[:80]}` (raw is {'Optional' if raw_is_option else 'str'})")
    if raw_is_option:
        raise TranslationBroken(site, "verify_proof is reached with a possibly-None header")
    if empty_reason is None:
        raise TranslationBroken(site, "no guard decides the present-but-empty header value")
    lines = ["    " + p for p in pre] + ["    gen_verify_proof raw secrets origin_id skew_seconds cache now"] + ["    " + q for q in reversed(suf) if q]
    decision = (
        f"Definition gen_empty_reason : reason := {empty_reason}.\n"
        "Definition gen_gate_decision (raw : option str) (secrets : keymap) (origin_id : str) (skew_seconds : Z)\n"
        "           (cache : option (str -> bool)) (now : Z) : outcome :=\n" + "\n".join(lines) + ".\n"
    )
    # ---- handler: what leaves the gate on failure
    h = tr.handlers[0]
    if not (isinstance(h.type, ast.Name) and h.type.id == "ProofError" and h.name == "exc"):
        raise TranslationBroken(site, "handler is not `except ProofError as exc`")
    hb = [s for s in h.body if not (isinstance(s, ast.Expr) and ast.unparse(s).startswith("_logger."))]
    if len(hb) != 2 or not isinstance(hb[0], ast.If) or ast.unparse(hb[0].test) != "required" or hb[0].orelse or len(hb[0].body) != 1:
        raise TranslationBroken(site, "unexpected handler shape")
    m = re.fullmatch(r"raise ProofError\(exc\.reason, ('(?:[^'\\]|\\.)*')\) from exc", ast.unparse(hb[0].body[0]))
    if not m:
        raise TranslationBroken(site, f"require branch does not raise ProofError(exc.reason, <literal>): {ast.unparse(hb[0].body[0])[:120]}")
    msg = ast.literal_eval(m.group(1))
    want = "return {'verified': 'false', 'proxy': '', 'kid': '', 'origin_id': config.origin_id, 'reason': exc.reason}"
    if ast.unparse(hb[1]) != want:
        raise TranslationBroken(site, f"allow-mode claims changed: {ast.unparse(hb[1])[:160]}")
    wrap = (
        f"Definition gen_require_message : str := {coq_str(msg)}.\n"
        "Definition gen_gate_wrap (required : bool) (origin_id : str) (o : outcome) : gate_out :=\n"
        "  match o with\n"
        "  | Accept label kid origin => GClaims true label kid origin None\n"
        "  | Reject r => if required then GRaise r (proof_error_message r gen_require_message)\n"
        "                else GClaims false [] [] origin_id (Some r)\n"
        "  | OtherExc n => GOther n\n"
        "  end.\n"
    )
    return decision, wrap


def guards(path: Path) -> str:
    """Shapes the hand model relies on and that are not translated: fail closed when they change."""
    tree = _module(path)
    site = f"{path}:_unb64"
    fn = find_function(tree, "_unb64", site)
    b = [ast.unparse(s) for s in body_without_docstring(fn)]
    if b != ["return base64.urlsafe_b64decode(text + '=' * (-len(text) % 4))"]:
        raise TranslationBroken(site, f"body changed: {b}")
    site = f"{path}:ProofError.__init__"
    cls = [n for n in tree.body if isinstance(n, ast.ClassDef) and n.name == "ProofError"]
    if len(cls) != 1 or [ast.unparse(x) for x in cls[0].bases] != ["PermissionError"]:
        raise TranslationBroken(site, "class ProofError(PermissionError) not found")
    init = find_function(cls[0], "__init__", site)
    if ast.unparse(init.args) != "self, reason: str, detail: str=''":
        raise TranslationBroken(site, f"signature changed: {ast.unparse(init.args)}")
    b = [ast.unparse(s) for s in body_without_docstring(init)]
    if b != ["super().__init__(detail or reason)", "self.reason = reason", "setattr(self, REASON_ATTR, AuthReason.PROXY_REQUIRED)"]:
        raise TranslationBroken(site, f"body changed: {b}")
    # the premise `_ORIGIN_RE matches origin_id` of the theorems is the config's own validation
    site = f"{path}:ProxyProofConfig.__post_init__"
    cfg = [n for n in tree.body if isinstance(n, ast.ClassDef) and n.name == "ProxyProofConfig"]
    if len(cfg) != 1:
        raise TranslationBroken(site, "ProxyProofConfig not found")
    post = find_function(cfg[0], "__post_init__", site)
    pb = body_without_docstring(post)
    texts = [ast.unparse(s.test) if isinstance(s, ast.If) else ast.unparse(s) for s in pb]
    if "self.mode == 'off'" not in texts or "not _ORIGIN_RE.match(self.origin_id)" not in texts:
        raise TranslationBroken(site, "origin_id is no longer validated against _ORIGIN_RE for every mode but 'off'")
    i_off, i_or = texts.index("self.mode == 'off'"), texts.index("not _ORIGIN_RE.match(self.origin_id)")
    chk = pb[i_or]
    if not (i_off < i_or and isinstance(chk, ast.If) and len(chk.body) == 1 and isinstance(chk.body[0], ast.Raise) and not chk.orelse):
        raise TranslationBroken(site, "origin_id validation changed shape")
    for s in pb[:i_or]:
        if isinstance(s, ast.Return) or (isinstance(s, ast.If) and ast.unparse(s.test) not in ("self.mode not in MODES", "self.mode == 'off'")):
            raise TranslationBroken(site, "a statement before the origin_id validation may skip it")
    outer = find_function(tree, "proxy_proof_gate", site)
    first = body_without_docstring(outer)[0]
    if not (isinstance(first, ast.If) and ast.unparse(first.test) == "config.mode == 'off'" and len(first.body) == 1 and isinstance(first.body[0], ast.Raise)):
        raise TranslationBroken(f"{path}:proxy_proof_gate", "mode 'off' (unvalidated origin_id) is no longer refused")
    return "(* guards: _unb64, ProofError.__init__, ProxyProofConfig.__post_init__ (origin_id validation) have the modelled shape *)\n"


def constants(path: Path) -> str:
    site = f"{path}:constants"
    tree = _module(path)
    version = module_constant(tree, "_VERSION", site)
    prefix = module_constant(tree, "_DOMAIN_PREFIX", site)
    maxlen = module_constant(tree, "_MAX_HEADER_BYTES", site)
    if not isinstance(version, str) or not isinstance(prefix, bytes) or not isinstance(maxlen, int) or not (0 <= maxlen < 5000):
        raise TranslationBroken(site, "unexpected constant types")
    cfg = [n for n in tree.body if isinstance(n, ast.ClassDef) and n.name == "ProxyProofConfig"]
    if len(cfg) != 1:
        raise TranslationBroken(site, "ProxyProofConfig not found")
    skew = None
    for n in cfg[0].body:
        if isinstance(n, ast.AnnAssign) and isinstance(n.target, ast.Name) and n.target.id == "skew_seconds" and n.value is not None:
            skew = ast.literal_eval(n.value)
    if not isinstance(skew, int):
        raise TranslationBroken(site, "ProxyProofConfig.skew_seconds default not found")
    return (
        f"Definition gen_version : str := {coq_str(version)}.\n"
        f"Definition gen_domain_prefix : bytes := {coq_bytes(prefix)}.\n"
        f"Definition gen_max_header : nat := {maxlen}.\n"
        f"Definition gen_config_default_skew : Z := ({skew})%Z.\n"
    )


def proof_module(path: Path) -> str:
    """The whole of coq/gen/G_Proof.v."""
    from translate import t_c22_layout, t_regex

    out = [
        "From Coq Require Import List NArith ZArith Bool.",
        "From VGI Require Import Regex Bytes Layout M_Proof.",
        "Import ListNotations.",
        "Open Scope N_scope.",
        constants(path),
    ]
    for py, cq in REGEXES.items():
        out.append(t_regex.regex_definition(path, py, cq))
    out.append(t_c22_layout.join_definitions(path, "canonical_string", "gen_canonical_string", "gen_canon_layout", {"_DOMAIN_PREFIX": "gen_domain_prefix"}))
    out.append(guards(path))
    decision, wrap = gate_definition(path)
    out.append("Section Gen.\n  Variable hmac : bytes -> bytes -> bytes.\n")
    out.append(verify_definition(path))
    out.append(decision)
    out.append("End Gen.\n")
    out.append(wrap)
    return "\n".join(out)
