"""Fail-closed reader of the C33 source material.

* ``_serve_socket_threaded`` (vgi_rpc/rpc/_transport.py) is compared, statement by statement, with a
  template of the accept loop.  The template has two optional statements -- the ones the model's
  ``c_guard`` / ``c_clear`` booleans stand for -- and two numeric holes (startup-grace floor, accept
  tick).  Anything else that differs raises :class:`TranslationBroken`: the hand model
  (coq/model/M_Accept.v) then no longer provably describes the source.
* ``launch`` (critical section) and ``serve_unix`` (prologue / epilogue order) of the launcher half are
  compared with templates in the same way (no holes).
* ``sites()`` maps source line numbers of the acceptor's scheduling points to the model's ``apc`` codes
  (the harness reads the parked acceptor's frame line to observe where the real loop is).
"""
from __future__ import annotations

import ast
from pathlib import Path
from typing import Any

from vlib.core import TranslationBroken

SITE = "vgi_rpc/rpc/_transport.py::_serve_socket_threaded"

GUARD_STMT = "            if timer is not threading.current_thread():\n                return\n"
CLEAR_STMT = "                shutdown_requested = False\n"

TEMPLATE = '''
def _serve_socket_threaded(
    server: RpcServer,
    sock: socket.socket,
    max_connections: int | None,
    idle_timeout: float | None,
    transport_factory: Callable[[socket.socket], RpcTransport],
    thread_name_prefix: str,
) -> None:
    semaphore: threading.Semaphore | None = None
    if max_connections is not None:
        semaphore = threading.Semaphore(max_connections)
    active: set[threading.Thread] = set()
    state_lock = threading.Lock()
    conn_count = 0
    timer: threading.Timer | None = None
    shutdown_requested = False

    sock.settimeout(__TICK__)

    def _close_listener_if_idle() -> None:
        nonlocal timer, shutdown_requested
        with state_lock:
@@GUARD@@            timer = None
            if conn_count != 0:
                return
            shutdown_requested = True

    def _arm_timer_locked(seconds: float) -> None:
        nonlocal timer
        if timer is not None:
            timer.cancel()
        timer = threading.Timer(seconds, _close_listener_if_idle)
        timer.daemon = True
        timer.start()

    def _cancel_timer_locked() -> None:
        nonlocal timer
        if timer is not None:
            timer.cancel()
            timer = None

    if idle_timeout is not None:
        with state_lock:
            _arm_timer_locked(max(idle_timeout, __FLOOR__))

    def _handle(conn: socket.socket) -> None:
        nonlocal conn_count
        if semaphore is not None:
            semaphore.acquire()
        transport = transport_factory(conn)
        try:
            server.serve(transport)
        except Exception:
            _logger.debug("Error serving socket connection", exc_info=True)
        finally:
            transport.close()
            if semaphore is not None:
                semaphore.release()
            with state_lock:
                conn_count -= 1
                if conn_count == 0 and idle_timeout is not None:
                    _arm_timer_locked(idle_timeout)
                active.discard(threading.current_thread())

    try:
        while True:
            try:
                conn, _ = sock.accept()
            except TimeoutError:
                with state_lock:
                    if shutdown_requested:
                        break
                continue
            except OSError:
                break
            conn.settimeout(None)
            with state_lock:
                conn_count += 1
                _cancel_timer_locked()
@@CLEAR@@            t = threading.Thread(
                target=_handle,
                args=(conn,),
                daemon=True,
                name=f"{thread_name_prefix}-{conn.fileno()}",
            )
            with state_lock:
                active.add(t)
            t.start()
    finally:
        with state_lock:
            _cancel_timer_locked()
            snapshot = list(active)
        for t in snapshot:
            t.join(timeout=__JOIN__)
'''

LAUNCH_TRY = '''
try:
    _require_socket_or_absent(sock_path)
    if _probe(sock_path):
        return str(sock_path)
    _unlink_stale_socket(sock_path)
    if meta_path is not None:
        _write_meta(meta_path, config.worker_argv, os.getcwd(), str(sock_path))
    proc = _spawn_worker(
        list(config.worker_argv),
        str(sock_path),
        config.idle_timeout,
        config.worker_stderr,
        config.worker_startup_timeout,
    )
    _logger.debug("spawned worker pid=%d on %s", proc.pid, sock_path)
    return str(sock_path)
finally:
    lock.release()
    if hash_id is not None:
        with contextlib.suppress(Exception):
            gc_state_dir(state_dir, limit=_DEFAULT_GC_LIMIT, exclude_hash=hash_id)
'''

LAUNCH_LOCK = '''
lock = FileLock(str(lock_path), timeout=config.connect_timeout)
try:
    lock.acquire()
except Timeout as exc:
    raise RuntimeError(f"failed to acquire {lock_path} within {config.connect_timeout}s") from exc
'''

SERVE_UNIX_BODY = '''
if idle_timeout is not None and not threaded:
    raise ValueError("idle_timeout requires threaded=True")
_check_no_existing_listener(path)
_unlink_stale_unix_socket(path)
sock = socket.socket(socket.AF_UNIX, socket.SOCK_STREAM)
bound_identity: tuple[int, int] | None = None
try:
    saved_umask = os.umask(0o077)
    try:
        sock.bind(path)
    finally:
        os.umask(saved_umask)
    entry = os.lstat(path)
    bound_identity = (entry.st_dev, entry.st_ino)
    with contextlib.suppress(OSError):
        os.chmod(path, 0o600)
    sock.listen(128 if threaded else 16)
    if wire_transport_logger.isEnabledFor(logging.DEBUG):
        wire_transport_logger.debug(
            "serve_unix: server_id=%s, protocol=%s, path=%s, threaded=%s, idle_timeout=%s",
            server.server_id,
            server.protocol_name,
            path,
            threaded,
            idle_timeout,
        )
    if on_bound is not None:
        on_bound(path)
    if threaded:
        _serve_socket_threaded(server, sock, max_connections, idle_timeout, UnixTransport, "vgi-unix")
    else:
        _serve_socket_sequential(server, sock, UnixTransport)
finally:
    sock.close()
    if bound_identity is not None:
        _unlink_bound_unix_socket(path, bound_identity)
'''

GC_LOOP = '''
for meta_path in sorted(state_dir.glob("*.meta")):
    if limit is not None and seen >= limit:
        break
    seen += 1
    hash_id = meta_path.stem
    if exclude_hash is not None and hash_id == exclude_hash:
        continue
    sock_path = state_dir / f"{hash_id}.sock"
    lock_path = state_dir / f"{hash_id}.lock"
    try:
        probe_lock = FileLock(str(lock_path), timeout=0.0)
        probe_lock.acquire()
    except Timeout:
        skipped.append(hash_id)
        continue
    try:
        if _probe(sock_path):
            continue
        for p in (sock_path, meta_path, lock_path):
            with contextlib.suppress(OSError):
                os.unlink(p)
        cleaned.append(hash_id)
    finally:
        with contextlib.suppress(Exception):
            probe_lock.release()
'''


def _strip_doc(fn: ast.FunctionDef) -> None:
    if fn.body and isinstance(fn.body[0], ast.Expr) and isinstance(fn.body[0].value, ast.Constant) and isinstance(fn.body[0].value.value, str):
        fn.body = fn.body[1:]


def _find_fn(tree: ast.AST, name: str, site: str) -> ast.FunctionDef:
    found = [n for n in ast.walk(tree) if isinstance(n, ast.FunctionDef) and n.name == name]
    if len(found) != 1:
        raise TranslationBroken(site, f"expected exactly one def {name}, found {len(found)}")
    return found[0]


def _dump(node: ast.AST | list[ast.stmt]) -> str:
    if isinstance(node, list):
        return "\n".join(ast.dump(n, include_attributes=False) for n in node)
    return ast.dump(node, include_attributes=False)


def _numeric_holes(fn: ast.FunctionDef) -> dict[str, float]:
    """Read the three numeric constants of the loop and replace them by the template's hole names."""
    holes: dict[str, float] = {}

    def take(node: ast.expr, hole: str) -> ast.expr:
        if not (isinstance(node, ast.Constant) and isinstance(node.value, (int, float)) and not isinstance(node.value, bool)):
            raise TranslationBroken(SITE, f"{hole}: expected a numeric literal, got {ast.dump(node)}")
        if hole in holes:
            raise TranslationBroken(SITE, f"{hole}: found twice")
        holes[hole] = float(node.value)
        return ast.Name(id=hole, ctx=ast.Load())

    for n in ast.walk(fn):
        if isinstance(n, ast.Call):
            f = n.func
            if isinstance(f, ast.Attribute) and f.attr == "settimeout" and isinstance(f.value, ast.Name) and f.value.id == "sock" and len(n.args) == 1:
                n.args[0] = take(n.args[0], "__TICK__")
            elif isinstance(f, ast.Name) and f.id == "max" and len(n.args) == 2 and isinstance(n.args[0], ast.Name) and n.args[0].id == "idle_timeout":
                n.args[1] = take(n.args[1], "__FLOOR__")
            elif isinstance(f, ast.Attribute) and f.attr == "join" and len(n.keywords) == 1 and n.keywords[0].arg == "timeout":
                n.keywords[0].value = take(n.keywords[0].value, "__JOIN__")
    for h in ("__TICK__", "__FLOOR__", "__JOIN__"):
        if h not in holes:
            raise TranslationBroken(SITE, f"{h}: not found")
    return holes


def extract(repo: Path) -> dict[str, Any]:
    """-> {clear, guard, floor, tick, join, sites}; raises TranslationBroken on any unexpected shape."""
    src = (repo / "vgi_rpc" / "rpc" / "_transport.py").read_text()
    tree = ast.parse(src)
    fn = _find_fn(tree, "_serve_socket_threaded", SITE)
    _strip_doc(fn)
    raw_fn = _find_fn(ast.parse(src), "_serve_socket_threaded", SITE)  # untouched copy for line numbers
    holes = _numeric_holes(fn)
    actual = _dump(fn)
    match: tuple[bool, bool] | None = None
    for clear in (False, True):
        for guard in (False, True):
            text = TEMPLATE.replace("@@GUARD@@", GUARD_STMT if guard else "").replace("@@CLEAR@@", CLEAR_STMT if clear else "")
            tfn = _find_fn(ast.parse(text), "_serve_socket_threaded", "template")
            if _dump(tfn) == actual:
                match = (clear, guard)
    if match is None:
        # say where the first difference is, against the closest (unrepaired) template
        tfn = _find_fn(ast.parse(TEMPLATE.replace("@@GUARD@@", "").replace("@@CLEAR@@", "")), "_serve_socket_threaded", "template")
        where = "?"
        for a, b in zip(fn.body, tfn.body):
            if _dump(a) != _dump(b):
                where = f"statement at line {getattr(a, 'lineno', '?')} ({type(a).__name__})"
                break
        raise TranslationBroken(SITE, f"accept loop differs from every modelled variant; first difference: {where}")
    for name, v in holes.items():
        if v < 0 or (name != "__TICK__" and v != int(v)):
            raise TranslationBroken(SITE, f"{name} = {v}: not a non-negative integer number of seconds")
    return {
        "clear": match[0],
        "guard": match[1],
        "floor": int(holes["__FLOOR__"]),
        "tick_ms": int(round(holes["__TICK__"] * 1000)),
        "join": int(holes["__JOIN__"]),
        "sites": sites(raw_fn),
    }


def sites(fn: ast.FunctionDef) -> dict[int, int]:
    """line number of each acceptor scheduling point -> apc code (0 PInit 1 PAccept 2 PInc 3 PAdd 4 PChk 5 PFin)."""
    out: dict[int, int] = {}

    def is_lock_with(n: ast.AST) -> bool:
        return isinstance(n, ast.With) and len(n.items) == 1 and isinstance(n.items[0].context_expr, ast.Name) and n.items[0].context_expr.id == "state_lock"

    outer = [n for n in fn.body if isinstance(n, ast.Try)]
    if len(outer) != 1:
        raise TranslationBroken(SITE, "expected one top-level try")
    for n in fn.body:
        if isinstance(n, ast.If):
            for m in n.body:
                if is_lock_with(m):
                    out[m.lineno] = 0
    for m in outer[0].finalbody:
        if is_lock_with(m):
            out[m.lineno] = 5
    for n in ast.walk(outer[0]):
        if isinstance(n, ast.ExceptHandler) and isinstance(n.type, ast.Name) and n.type.id == "TimeoutError":
            for m in n.body:
                if is_lock_with(m):
                    out[m.lineno] = 4
        if isinstance(n, ast.Assign) and isinstance(n.value, ast.Call) and isinstance(n.value.func, ast.Attribute) and n.value.func.attr == "accept":
            out[n.lineno] = 1
        if is_lock_with(n) and n.lineno not in out:
            src = _dump(n)
            if "AugAssign" in src and "conn_count" in src:
                out[n.lineno] = 2
            elif "'add'" in src:
                out[n.lineno] = 3
    if sorted(out.values()) != [0, 1, 2, 3, 4, 5]:
        raise TranslationBroken(SITE, f"scheduling points of the acceptor not found exactly once each: {out}")
    return out


def final_range(repo: Path) -> tuple[int, int]:
    """Lenient: line range of the `finally` block of the last top-level try of the loop function (oracle-only mode)."""
    fn = _find_fn(ast.parse((repo / "vgi_rpc" / "rpc" / "_transport.py").read_text()), "_serve_socket_threaded", SITE)
    tries = [n for n in fn.body if isinstance(n, ast.Try) and n.finalbody]
    if not tries:
        raise TranslationBroken(SITE, "no top-level try/finally")
    fb = tries[-1].finalbody
    return fb[0].lineno, max(getattr(n, "end_lineno", n.lineno) for n in fb)


def _contains_block(body: list[ast.stmt], template: str) -> bool:
    want = ast.parse(template).body
    n = len(want)
    wd = _dump(want)
    return any(_dump(body[i : i + n]) == wd for i in range(len(body) - n + 1))


def check_launcher_shapes(repo: Path) -> None:
    """launch / gc_state_dir / serve_unix have the statement order the launcher model assumes."""
    lsrc = (repo / "vgi_rpc" / "launcher.py").read_text()
    ltree = ast.parse(lsrc)
    launch = _find_fn(ltree, "launch", "vgi_rpc/launcher.py::launch")
    if not _contains_block(launch.body, LAUNCH_LOCK + LAUNCH_TRY):
        raise TranslationBroken("vgi_rpc/launcher.py::launch", "lock/probe/unlink/spawn/release sequence differs from the modelled one")
    gc = _find_fn(ltree, "gc_state_dir", "vgi_rpc/launcher.py::gc_state_dir")
    if not _contains_block(gc.body, GC_LOOP):
        raise TranslationBroken("vgi_rpc/launcher.py::gc_state_dir", "scan/try-lock/probe/unlink sequence differs from the modelled one")
    ttree = ast.parse((repo / "vgi_rpc" / "rpc" / "_transport.py").read_text())
    su = _find_fn(ttree, "serve_unix", "vgi_rpc/rpc/_transport.py::serve_unix")
    _strip_doc(su)
    if _dump(su.body) != _dump(ast.parse(SERVE_UNIX_BODY).body):
        raise TranslationBroken("vgi_rpc/rpc/_transport.py::serve_unix", "check/unlink/bind/listen/on_bound/serve/close/unlink sequence differs from the modelled one")


def coq_text(repo: Path) -> str:
    x = extract(repo)
    check_launcher_shapes(repo)
    b = lambda v: "true" if v else "false"  # noqa: E731
    return (
        "From Coq Require Import NArith.\nOpen Scope N_scope.\n"
        f"(* vgi_rpc/rpc/_transport.py::_serve_socket_threaded matched the accept-loop template with: *)\n"
        f"Definition gen_clear : bool := {b(x['clear'])}.   (* accept path assigns shutdown_requested = False under the lock *)\n"
        f"Definition gen_guard : bool := {b(x['guard'])}.   (* timer callback returns unless `timer is threading.current_thread()` *)\n"
        f"Definition gen_floor : N := {x['floor']}.        (* startup grace = max(idle_timeout, gen_floor) *)\n"
        f"Definition gen_tick_ms : N := {x['tick_ms']}.    (* accept timeout *)\n"
        f"Definition gen_join_s : N := {x['join']}.\n"
        "(* launch / gc_state_dir / serve_unix matched the launcher templates (else this file would be a stub) *)\n"
        "Definition gen_launcher_shape_ok : bool := true.\n"
    )
