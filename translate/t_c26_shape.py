"""Fail-closed translator for C26: the synchronisation skeleton of vgi_rpc/http/server/_sticky.py.

For each function the model of coq/model/M_StickySched.v is about, the source is reduced to the ordered list of
its synchronisation-relevant operations ("tokens"), with the lock context made explicit:

  time            time.time() / time.monotonic()
  reg[ ... ]reg   body of ``with self._lock:``                    (registry lock)
  ent[ ... ]ent   body of ``with entry.lock:``                    (per-entry RLock)
  eacq / erel     ``<x>.lock.acquire()`` / ``<x>.lock.release()``
  lookup pop del clear iter   operations on ``self._entries``
  hook            ``self._close_state_suppressed(...)``            (runs state.close())
  cmp:<op>        a comparison with ``.expires_at`` on one side, normalised to ``expires_at <op> now``
  R.<m>           call of ``self._registry.<m>(...)``
  wait            ``self._stop.wait(...)``
  ret             return
  { ... }         body of an if / for / while / try branch that contains at least one token

Everything else (logging, contextvars, headers, ``contextlib.suppress``) is transparent, so unrelated edits do not
disturb the tie.  Anything that touches ``threading.*`` / ``time.*`` / ``._lock`` / ``.lock`` in a way not listed
above raises TranslationBroken.  The two expiry comparisons are also emitted as the ``sshape`` record the model
is parameterised over.
"""
from __future__ import annotations

import ast
from pathlib import Path

from vlib.core import TranslationBroken

FUNCS = [
    ("_SessionRegistry", "get", "gen_skel_get"),
    ("_SessionRegistry", "close", "gen_skel_close"),
    ("_SessionRegistry", "drain_expired", "gen_skel_drain"),
    ("_SessionRegistry", "shutdown", "gen_skel_shutdown"),
    ("_ReaperThread", "run", "gen_skel_reaper"),
    ("_StickyMiddleware", "process_request", "gen_skel_process_request"),
    ("_StickyMiddleware", "_close_session", "gen_skel_close_session"),
    ("_StickyMiddleware", "process_response", "gen_skel_process_response"),
    ("_SessionResource", "on_delete", "gen_skel_on_delete"),
]

_CMP = {ast.Lt: "Lt", ast.LtE: "Le", ast.Gt: "Gt", ast.GtE: "Ge"}
_FLIP = {"Lt": "Gt", "Le": "Ge", "Gt": "Lt", "Ge": "Le"}


def _attr_chain(n: ast.expr) -> list[str] | None:
    parts: list[str] = []
    while isinstance(n, ast.Attribute):
        parts.append(n.attr)
        n = n.value
    if isinstance(n, ast.Name):
        parts.append(n.id)
        return list(reversed(parts))
    return None


class _Skel:
    def __init__(self, site: str):
        self.site = site
        self.toks: list[str] = []

    def broken(self, why: str) -> TranslationBroken:
        return TranslationBroken(self.site, why)

    # ---- expressions (evaluation order: children first, then the node itself) -----------------------------
    def expr(self, n: ast.AST | None) -> None:
        if n is None:
            return
        if isinstance(n, ast.Lambda):
            return  # a deferred body: not executed here (the sink callbacks of process_request)
        if isinstance(n, ast.Call):
            ch = _attr_chain(n.func)
            for a in n.args:
                self.expr(a)
            for k in n.keywords:
                self.expr(k.value)
            if ch is None:
                self.expr(n.func)
                return
            if len(ch) >= 2 and ch[-1] in ("acquire", "release") and ("lock" in ch or "_lock" in ch) and (n.args or n.keywords):
                raise self.broken(f"{'.'.join(ch)} with arguments (try-lock / timed acquire is not modelled)")
            self.call(ch)
            return
        if isinstance(n, ast.Compare):
            self.expr(n.left)
            for c in n.comparators:
                self.expr(c)
            sides = [n.left] + list(n.comparators)
            has = [isinstance(s, ast.Attribute) and s.attr == "expires_at" for s in sides]
            if any(has):
                if len(n.ops) != 1 or type(n.ops[0]) not in _CMP:
                    raise self.broken(f"unsupported comparison with expires_at: {ast.dump(n)[:120]}")
                op = _CMP[type(n.ops[0])]
                if has[1] and not has[0]:
                    op = _FLIP[op]
                elif has[0] and has[1]:
                    raise self.broken("expires_at on both sides of a comparison")
                self.toks.append(f"cmp:{op}")
            return
        if isinstance(n, ast.Attribute):
            ch = _attr_chain(n)
            if ch is not None and ch[0] in ("threading", "time"):
                raise self.broken(f"use of {'.'.join(ch)} outside a call the harness interposes")
            self.expr(n.value)
            return
        if isinstance(n, (ast.ListComp, ast.GeneratorExp, ast.SetComp)):
            for g in n.generators:
                self.expr(g.iter)
                for c in g.ifs:
                    self.expr(c)
            self.expr(n.elt)
            return
        for c in ast.iter_child_nodes(n):
            self.expr(c)

    def call(self, ch: list[str]) -> None:
        dotted = ".".join(ch)
        if ch[0] == "time":
            if dotted in ("time.time", "time.monotonic"):
                self.toks.append("time")
                return
            raise self.broken(f"call of {dotted}")
        if ch[0] == "threading":
            raise self.broken(f"call of {dotted} inside a modelled function")
        if len(ch) >= 2 and ch[-2] == "lock" and ch[-1] in ("acquire", "release"):
            self.toks.append("eacq" if ch[-1] == "acquire" else "erel")
            return
        if "_lock" in ch or "lock" in ch[:-1]:
            if "_reaper_lock" in ch:
                return
            raise self.broken(f"lock operation {dotted} outside a with-statement")
        if ch[:2] == ["self", "_registry"] and len(ch) == 3:
            self.toks.append(f"R.{ch[2]}")
            return
        if ch[:2] == ["self", "_entries"] and len(ch) == 3:
            m = {"get": "lookup", "pop": "pop", "clear": "clear", "items": "iter", "values": "iter", "keys": "iter"}.get(ch[2])
            if m is None:
                raise self.broken(f"unknown registry-dict operation {dotted}")
            self.toks.append(m)
            return
        if dotted == "self._close_state_suppressed":
            self.toks.append("hook")
            return
        if ch[:2] == ["self", "_stop"] and ch[-1] == "wait":
            self.toks.append("wait")
            return
        if ch[-1] == "close" and ch[0] != "self":
            # a direct state.close() in a modelled function would be a hook call the model does not know
            raise self.broken(f"direct close call {dotted}")

    # ---- statements ---------------------------------------------------------------------------------------
    def group(self, body: list[ast.stmt]) -> None:
        mark = len(self.toks)
        self.toks.append("{")
        self.block(body)
        if len(self.toks) == mark + 1:
            self.toks.pop()
        else:
            self.toks.append("}")

    def block(self, body: list[ast.stmt]) -> None:
        for st in body:
            self.stmt(st)

    def stmt(self, st: ast.stmt) -> None:
        if isinstance(st, ast.Expr) and isinstance(st.value, ast.Constant) and isinstance(st.value.value, str):
            return
        if isinstance(st, ast.With):
            kinds = []
            for item in st.items:
                ce = item.context_expr
                ch = _attr_chain(ce)
                if ch == ["self", "_lock"]:
                    kinds.append("reg")
                elif ch is not None and ch[-1] == "lock" and len(ch) == 2:
                    kinds.append("ent")
                elif ch is not None and ("_lock" in ch or "lock" in ch) and "_reaper_lock" not in ch:
                    raise self.broken(f"with-statement over unknown lock {'.'.join(ch)}")
                else:
                    self.expr(ce)
                    kinds.append("")
            for k in kinds:
                if k:
                    self.toks.append(f"{k}[")
            self.block(st.body)
            for k in reversed(kinds):
                if k:
                    self.toks.append(f"]{k}")
            return
        if isinstance(st, ast.If):
            self.expr(st.test)
            self.group(st.body)
            if st.orelse:
                self.group(st.orelse)
            return
        if isinstance(st, (ast.For, ast.While)):
            self.expr(st.iter if isinstance(st, ast.For) else st.test)
            self.group(st.body)
            if st.orelse:
                self.group(st.orelse)
            return
        if isinstance(st, ast.Try):
            self.group(st.body)
            for h in st.handlers:
                self.group(h.body)
            if st.orelse:
                self.group(st.orelse)
            if st.finalbody:
                self.group(st.finalbody)
            return
        if isinstance(st, ast.Return):
            self.expr(st.value)
            self.toks.append("ret")
            return
        if isinstance(st, ast.Delete):
            for t in st.targets:
                if isinstance(t, ast.Subscript) and _attr_chain(t.value) == ["self", "_entries"]:
                    self.toks.append("del")
                else:
                    self.expr(t)
            return
        if isinstance(st, (ast.FunctionDef, ast.AsyncFunctionDef, ast.ClassDef)):
            raise self.broken(f"nested definition {st.name}")
        if isinstance(st, ast.Raise):
            self.expr(st.exc)
            self.toks.append("raise")
            return
        for c in ast.iter_child_nodes(st):
            if isinstance(c, ast.stmt):
                self.stmt(c)
            else:
                self.expr(c)


def skeletons(path: Path) -> dict[str, list[str]]:
    site = str(path)
    try:
        tree = ast.parse(path.read_text())
    except (OSError, SyntaxError) as e:
        raise TranslationBroken(site, f"cannot parse: {e}") from e
    classes = {n.name: n for n in tree.body if isinstance(n, ast.ClassDef)}
    out: dict[str, list[str]] = {}
    for cls, fn, name in FUNCS:
        c = classes.get(cls)
        if c is None:
            raise TranslationBroken(site, f"class {cls} not found")
        f = next((n for n in c.body if isinstance(n, ast.FunctionDef) and n.name == fn), None)
        if f is None:
            raise TranslationBroken(site, f"{cls}.{fn} not found")
        sk = _Skel(f"{path}:{cls}.{fn}")
        sk.block(f.body)
        out[name] = sk.toks
    # the module must bind the primitives the harness interposes through the module attributes
    imports = {a.name for n in tree.body if isinstance(n, ast.Import) for a in n.names}
    for mod in ("threading", "time"):
        if mod not in imports:
            raise TranslationBroken(site, f"`import {mod}` not found at module level (the harness rebinds _sticky.{mod})")
    for n in tree.body:
        if isinstance(n, ast.ImportFrom) and n.module in ("threading", "time"):
            raise TranslationBroken(site, f"`from {n.module} import ...` bypasses the interposed module attribute")
    return out


def primitive_sites(path: Path) -> list[str]:
    """Every construction of a ``threading`` primitive in the module, as ``Class.func:Primitive`` in source order.
    The model assumes the entry RLock is created once, in ``_SessionRegistry.open``, before the entry is published."""
    tree = ast.parse(path.read_text())
    out: list[str] = []

    def scan(owner: str, node: ast.AST) -> None:
        for sub in ast.walk(node):
            if isinstance(sub, ast.Call):
                ch = _attr_chain(sub.func)
                if ch is not None and ch[0] == "threading" and len(ch) == 2 and ch[1][:1].isupper() and ch[1] != "Thread":
                    out.append(f"{owner}:{ch[1]}")

    for n in tree.body:
        if isinstance(n, ast.ClassDef):
            for f in n.body:
                if isinstance(f, (ast.FunctionDef, ast.AsyncFunctionDef)):
                    scan(f"{n.name}.{f.name}", f)
                elif not isinstance(f, (ast.AnnAssign, ast.Assign, ast.Expr, ast.Pass)):
                    scan(f"{n.name}.<body>", f)
                elif isinstance(f, (ast.AnnAssign, ast.Assign)) and f.value is not None:
                    scan(f"{n.name}.<body>", f.value)
        elif isinstance(n, (ast.FunctionDef, ast.AsyncFunctionDef)):
            scan(n.name, n)
        elif isinstance(n, (ast.Assign, ast.AnnAssign)) and n.value is not None:
            scan("<module>", n.value)
    return out


def _shape(sk: dict[str, list[str]], site: str) -> tuple[str, str]:
    def only_cmp(name: str) -> str:
        cs = [t for t in sk[name] if t.startswith("cmp:")]
        if len(cs) != 1:
            raise TranslationBroken(site, f"{name}: expected exactly one expiry comparison, found {cs}")
        return "S" + cs[0][4:]

    return only_cmp("gen_skel_get"), only_cmp("gen_skel_drain")


def coq_text(path: Path) -> str:
    sk = skeletons(path)
    g, d = _shape(sk, str(path))
    lines = [
        "From Coq Require Import List String.",
        "From VGI Require Import M_StickySched.",
        "Import ListNotations.",
        "Open Scope string_scope.",
        f"Definition gen_sshape : sshape := mkSShape {g} {d}.",
    ]
    for _cls, _fn, name in FUNCS:
        items = "; ".join('"' + t + '"' for t in sk[name])
        lines.append(f"Definition {name} : list string := [{items}].")
    sites = "; ".join('"' + t + '"' for t in primitive_sites(path))
    lines.append(f"Definition gen_primitive_sites : list string := [{sites}].")
    return "\n".join(lines) + "\n"
