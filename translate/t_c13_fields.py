"""Fail-closed translator for C13: WHAT is sealed in a cursor / call token and WHERE each sealed value comes from.

From vgi_rpc/http/server/_state_token.py
  * ``_seal_cursor_token`` / ``_seal_call_token``: the ``plaintext = a + b + ...`` chain -> ordered sealed fields (by the
    function parameter each piece derives from), and the ``crypto.seal_bytes(_pack_plaintext(plaintext), token_key,
    aad=aad, version=...)`` shape (the AAD is the parameter ``aad``, nothing else is sealed);
  * ``_mint_cursor_token`` / ``_mint_call_token``: the single call of the seal function -> for every sealed field the
    mint-function parameters (and intrinsic sources: clock, os.urandom) it derives from;
  * ``_compute_aad`` / ``_compute_call_aad`` / ``_serialize_state_bytes``: depend on their arguments only.
From vgi_rpc/http/server/_app_stream.py
  * every call site of the two mint functions: each argument expression classified into ROOTS (method name, state-class
    table entry, state object, call state, schemas, call id, stream id, identity, key);
  * the recovery path (``_unpack_and_recover_state``, ``_resolve_call_from_token``, ``_declared_call_state_types``): every
    identifier they mention, and the roots of the arguments ``_run_stream_exchange_sync`` passes.
Output: coq/gen/G_TokMethod.v (``gen_cursor_sealed``, ``gen_call_sealed``, ``gen_recover_names``, ``gen_recover_arg_roots``).
Any shape outside what is described here raises TranslationBroken.
"""
from __future__ import annotations

import ast
import builtins
from pathlib import Path

from vlib.core import TranslationBroken

ROOT_ORDER = ["RMethodName", "RStateInfo", "RState", "RCallState", "RSchemaOut", "RSchemaIn", "RCallId", "RStreamId", "RAuth", "RClock", "RRandom", "RKey", "RPresented"]
# sealed-field codes (model/M_TokMethod.v): by the seal-function parameter the plaintext piece derives from
FIELD_CODE = {
    "aad": 0, "created_at": 1, "call_id": 2, "state_bytes": 3, "call_state_bytes": 4, "call_state_type": 5,
    "schema_bytes": 6, "input_schema_bytes": 7, "stream_id": 8, "method_name": 9, "method": 9,
}
# classification of the expressions that appear as mint arguments in _app_stream.py
EXPR_ROOT = {
    "method_name": "RMethodName", "state_info": "RStateInfo", "state": "RState", "result.state": "RState",
    "result.call_state": "RCallState", "result.output_schema": "RSchemaOut", "result.input_schema": "RSchemaIn",
    "call_id": "RCallId", "stream_id": "RStreamId", "auth": "RAuth", "app._token_key": "RKey", "app": "RKey",
    "token": "RPresented", "call_token": "RPresented",
}


def _parse(path: Path) -> ast.Module:
    try:
        return ast.parse(path.read_text())
    except (OSError, SyntaxError) as e:
        raise TranslationBroken(str(path), f"cannot parse: {e}") from e


def _func(tree: ast.Module, name: str, site: str) -> ast.FunctionDef:
    hits = [n for n in tree.body if isinstance(n, ast.FunctionDef) and n.name == name]
    if len(hits) != 1:
        raise TranslationBroken(site, f"expected exactly one module-level def {name}, found {len(hits)}")
    return hits[0]


def _params(fn: ast.FunctionDef) -> list[str]:
    a = fn.args
    if a.vararg or a.kwarg or a.posonlyargs:
        raise TranslationBroken(fn.name, "unexpected *args / **kwargs / positional-only parameters")
    return [x.arg for x in a.args] + [x.arg for x in a.kwonlyargs]


def _dotted(n: ast.expr) -> str | None:
    if isinstance(n, ast.Name):
        return n.id
    if isinstance(n, ast.Attribute):
        b = _dotted(n.value)
        return None if b is None else f"{b}.{n.attr}"
    return None


def _module_names(tree: ast.Module) -> set[str]:
    """Module-level names that cannot carry per-request state: defs, classes, imports, constants from literals /
    arithmetic over them.  A module-level name bound to a call (ContextVar(), threading.local(), ...) is NOT included."""
    out: set[str] = set()
    for n in tree.body:
        if isinstance(n, (ast.FunctionDef, ast.ClassDef)):
            out.add(n.name)
        elif isinstance(n, (ast.Import, ast.ImportFrom)):
            for a in n.names:
                out.add((a.asname or a.name).split(".")[0])
        elif isinstance(n, ast.Assign) and len(n.targets) == 1 and isinstance(n.targets[0], ast.Name):
            if not any(isinstance(x, ast.Call) for x in ast.walk(n.value)):
                out.add(n.targets[0].id)
        elif isinstance(n, ast.AnnAssign) and isinstance(n.target, ast.Name) and n.value is not None:
            if not any(isinstance(x, ast.Call) for x in ast.walk(n.value)):
                out.add(n.target.id)
    return out


def _assigned_locals(fn: ast.FunctionDef) -> dict[str, list[ast.expr]]:
    env: dict[str, list[ast.expr]] = {}
    for n in ast.walk(fn):
        if isinstance(n, ast.Assign):
            for t in n.targets:
                if isinstance(t, ast.Name):
                    env.setdefault(t.id, []).append(n.value)
                elif isinstance(t, ast.Tuple):
                    for el in t.elts:
                        if isinstance(el, ast.Name):
                            env.setdefault(el.id, []).append(n.value)
        elif isinstance(n, ast.AnnAssign) and isinstance(n.target, ast.Name) and n.value is not None:
            env.setdefault(n.target.id, []).append(n.value)
        elif isinstance(n, (ast.For, ast.comprehension)) and isinstance(n.target, ast.Name):
            env.setdefault(n.target.id, []).append(n.iter)
        elif isinstance(n, ast.ExceptHandler) and n.name:
            env.setdefault(n.name, [])
        elif isinstance(n, ast.NamedExpr) and isinstance(n.target, ast.Name):
            env.setdefault(n.target.id, []).append(n.value)
    return env


def _param_deps(fn: ast.FunctionDef, expr: ast.expr, modnames: set[str], site: str, _depth: int = 0) -> set[str]:
    """Parameters of ``fn`` (plus the intrinsic sources '@clock' / '@random') the expression derives from."""
    if _depth > 8:
        raise TranslationBroken(site, "assignment chain too deep")
    params = set(_params(fn))
    local = _assigned_locals(fn)
    out: set[str] = set()
    for n in ast.walk(expr):
        d = _dotted(n) if isinstance(n, (ast.Attribute, ast.Name)) else None
        if d == "time.time":
            out.add("@clock")
        if d == "os.urandom":
            out.add("@random")
        if not isinstance(n, ast.Name):
            continue
        if n.id in params:
            out.add(n.id)
        elif n.id in local:
            for rhs in local[n.id]:
                out |= _param_deps(fn, rhs, modnames, site, _depth + 1)
        elif n.id in modnames or hasattr(builtins, n.id):
            continue
        else:
            raise TranslationBroken(site, f"name {n.id!r} is neither a parameter, a local, a stateless module name nor a builtin")
    return out


def _pure_in_args(tree: ast.Module, name: str, modnames: set[str]) -> None:
    """Every name the function loads is a parameter, a local, a stateless module-level name or a builtin."""
    fn = _func(tree, name, name)
    for n in ast.walk(fn):
        if isinstance(n, ast.Return) and n.value is not None:
            _param_deps(fn, n.value, modnames, name)
        if isinstance(n, (ast.Global, ast.Nonlocal)):
            raise TranslationBroken(name, "global / nonlocal statement")
    for stmt in fn.body:
        for n in ast.walk(stmt):
            if isinstance(n, ast.Name) and isinstance(n.ctx, ast.Load):
                _param_deps(fn, n, modnames, name)


def _flatten(n: ast.expr) -> list[ast.expr]:
    if isinstance(n, ast.BinOp) and isinstance(n.op, ast.Add):
        return _flatten(n.left) + _flatten(n.right)
    return [n]


def _seal_fields(tree: ast.Module, name: str, modnames: set[str]) -> tuple[list[str], list[str]]:
    """(ordered sealed parameter names incl. 'aad' first, parameter list of the seal function)."""
    fn = _func(tree, name, name)
    params = _params(fn)
    plain = [n for n in ast.walk(fn) if isinstance(n, ast.Assign) and len(n.targets) == 1 and isinstance(n.targets[0], ast.Name) and n.targets[0].id == "plaintext"]
    if len(plain) != 1:
        raise TranslationBroken(name, f"expected exactly one assignment to plaintext, found {len(plain)}")
    fields: list[str] = []
    for piece in _flatten(plain[0].value):
        deps = _param_deps(fn, piece, modnames, name)
        if len(deps) != 1:
            raise TranslationBroken(name, f"plaintext piece derives from {sorted(deps)} (expected exactly one parameter): {ast.unparse(piece)[:60]}")
        (d,) = deps
        if d not in FIELD_CODE:
            raise TranslationBroken(name, f"unknown sealed field {d!r}")
        if d not in fields:
            fields.append(d)
    seals = [n for n in ast.walk(fn) if isinstance(n, ast.Call) and _dotted(n.func) == "crypto.seal_bytes"]
    if len(seals) != 1:
        raise TranslationBroken(name, f"expected exactly one crypto.seal_bytes call, found {len(seals)}")
    c = seals[0]
    kw = {k.arg: k.value for k in c.keywords}
    if (
        len(c.args) != 2
        or ast.unparse(c.args[0]) != "_pack_plaintext(plaintext)"
        or ast.unparse(c.args[1]) != "token_key"
        or set(kw) != {"aad", "version"}
        or ast.unparse(kw["aad"]) != "aad"
        or not isinstance(kw["version"], ast.Name)
        or kw["version"].id not in modnames
    ):
        raise TranslationBroken(name, f"unexpected seal call shape: {ast.unparse(c)[:120]}")
    if "aad" not in params or "token_key" not in params:
        raise TranslationBroken(name, "seal function has no aad / token_key parameter")
    pk = _func(tree, "_pack_plaintext", "_pack_plaintext")
    if _params(pk) != ["plaintext"]:
        raise TranslationBroken("_pack_plaintext", "unexpected parameters")
    _pure_in_args(tree, "_pack_plaintext", modnames | {"_codecs"})
    return ["aad"] + fields, params


def _mint_map(tree: ast.Module, mint: str, seal: str, seal_params: list[str], sealed: list[str], modnames: set[str]) -> dict[str, set[str]]:
    """sealed field -> mint parameters / intrinsic sources it derives from."""
    fn = _func(tree, mint, mint)
    calls = [n for n in ast.walk(fn) if isinstance(n, ast.Call) and isinstance(n.func, ast.Name) and n.func.id == seal]
    if len(calls) != 1:
        raise TranslationBroken(mint, f"expected exactly one call of {seal}, found {len(calls)}")
    c = calls[0]
    if c.keywords or len(c.args) != len(seal_params) or any(isinstance(a, ast.Starred) for a in c.args):
        raise TranslationBroken(mint, f"unexpected argument shape in the call of {seal}")
    by_param = dict(zip(seal_params, c.args))
    out: dict[str, set[str]] = {}
    for f in sealed:
        expr = by_param[f]
        out[f] = _param_deps(fn, expr, modnames, mint)
        for sub in ast.walk(expr):
            if isinstance(sub, ast.Call) and isinstance(sub.func, ast.Name) and sub.func.id in {x.name for x in tree.body if isinstance(x, ast.FunctionDef)}:
                _pure_in_args(tree, sub.func.id, modnames)
    return out


def _enclosing_functions(tree: ast.Module) -> list[ast.FunctionDef]:
    return [n for n in tree.body if isinstance(n, ast.FunctionDef)]


def _classify(fn: ast.FunctionDef, expr: ast.expr, site: str, _depth: int = 0) -> set[str]:
    """Roots of an argument expression inside an _app_stream.py function."""
    d = _dotted(expr)
    params = set(_params(fn))
    local = _assigned_locals(fn)
    if d is not None:
        base = d.split(".")[0]
        if d in EXPR_ROOT:
            if d == "state_info" and "state_info" not in params:
                rhs = local.get("state_info", [])
                if not rhs or any(ast.unparse(r) != "app._state_types.get(method_name)" for r in rhs):
                    raise TranslationBroken(site, "state_info is not app._state_types.get(method_name)")
            if d in ("token", "call_token") and d not in params:
                key = "STATE_KEY" if d == "token" else "CALL_STATE_KEY"
                want = f"custom_metadata.get({key}) if custom_metadata is not None else None"
                if [ast.unparse(r) for r in local.get(d, [])] != [want]:
                    raise TranslationBroken(site, f"{d} is not read from the request batch metadata")
            if d == "state" and "state" not in params:
                if [ast.unparse(r) for r in local.get("state", [])] != ["result.state"]:
                    raise TranslationBroken(site, "local `state` is not result.state")
            if d == "auth" and "auth" not in params:
                if any(ast.unparse(r) != "_get_auth_and_metadata()" for r in local.get("auth", [])) or not local.get("auth"):
                    raise TranslationBroken(site, "auth is not _get_auth_and_metadata()")
            if d == "stream_id" and "stream_id" not in params:
                if [ast.unparse(r) for r in local.get("stream_id", [])] != ["uuid.uuid4().hex"]:
                    raise TranslationBroken(site, "stream_id is not uuid.uuid4().hex")
            if d == "call_id" and "call_id" not in params:
                ok = all(isinstance(r, ast.Call) and isinstance(r.func, ast.Name) and r.func.id in ("_mint_call_token", "_unpack_and_recover_state") for r in local.get("call_id", []))
                if not ok or not local.get("call_id"):
                    raise TranslationBroken(site, "call_id does not come from _mint_call_token / _unpack_and_recover_state")
            return {EXPR_ROOT[d]}
        if base in local and "." not in d and _depth < 4:
            out: set[str] = set()
            for r in local[base]:
                out |= _classify(fn, r, site, _depth + 1)
            return out
        raise TranslationBroken(site, f"unclassified mint argument {d!r}")
    raise TranslationBroken(site, f"unclassified mint argument expression {ast.unparse(expr)[:80]!r}")


def _call_sites(tree: ast.Module, callee: str, callee_params: list[str], site: str) -> list[dict[str, set[str]]]:
    out = []
    for fn in _enclosing_functions(tree):
        for n in ast.walk(fn):
            if isinstance(n, ast.Call) and isinstance(n.func, ast.Name) and n.func.id == callee:
                if any(isinstance(a, ast.Starred) for a in n.args) or any(k.arg is None for k in n.keywords):
                    raise TranslationBroken(site, f"star arguments in a call of {callee} in {fn.name}")
                amap: dict[str, set[str]] = {}
                for p, a in zip(callee_params, n.args):
                    amap[p] = _classify(fn, a, f"{fn.name}->{callee}({p})")
                for k in n.keywords:
                    if k.arg not in callee_params:
                        raise TranslationBroken(site, f"unknown keyword {k.arg} in a call of {callee}")
                    amap[k.arg] = _classify(fn, k.value, f"{fn.name}->{callee}({k.arg})")
                out.append(amap)
    # a reference to the callee other than a direct call (alias, partial, ...) would escape the scan
    refs = sum(1 for n in ast.walk(tree) if isinstance(n, ast.Name) and n.id == callee and isinstance(n.ctx, ast.Load))
    if refs != len(out):
        raise TranslationBroken(site, f"{callee} is referenced {refs} times but called directly {len(out)} times")
    if not out:
        raise TranslationBroken(site, f"no call site of {callee}")
    return out


def _roots_term(rs: set[str]) -> str:
    bad = rs - set(ROOT_ORDER)
    if bad:
        raise TranslationBroken("roots", f"unknown roots {sorted(bad)}")
    return "[" + "; ".join(r for r in ROOT_ORDER if r in rs) + "]"


def _sealed_term(sealed: list[str], mint_deps: dict[str, set[str]], sites: list[dict[str, set[str]]], mint_params: list[str]) -> str:
    items = []
    for f in sealed:
        roots: set[str] = set()
        for dep in mint_deps[f]:
            if dep == "@clock":
                roots.add("RClock")
            elif dep == "@random":
                roots.add("RRandom")
            elif dep == "now":
                # explicit timestamp override: no call site may pass it (checked below) -> the clock
                roots.add("RClock")
            else:
                for s in sites:
                    if dep not in s:
                        raise TranslationBroken("mint", f"a call site does not pass {dep!r}")
                    roots |= s[dep]
        items.append(f"({FIELD_CODE[f]}, {_roots_term(roots)})")
    for s in sites:
        if "now" in s:
            raise TranslationBroken("mint", "a call site passes an explicit timestamp")
    return "[" + "; ".join(items) + "]"


def generate(repo: Path) -> str:
    st_path = repo / "vgi_rpc" / "http" / "server" / "_state_token.py"
    ap_path = repo / "vgi_rpc" / "http" / "server" / "_app_stream.py"
    st = _parse(st_path)
    ap = _parse(ap_path)
    modnames = _module_names(st)

    for fname in ("_compute_aad", "_compute_call_aad"):
        if _params(_func(st, fname, fname)) != ["auth"]:
            raise TranslationBroken(fname, "the AAD is no longer a function of the AuthContext alone")
        _pure_in_args(st, fname, modnames)
    _pure_in_args(st, "_serialize_state_bytes", modnames)
    if _params(_func(st, "_serialize_state_bytes", "_serialize_state_bytes")) != ["state", "state_info"]:
        raise TranslationBroken("_serialize_state_bytes", "unexpected parameters")

    cur_sealed, cur_seal_params = _seal_fields(st, "_seal_cursor_token", modnames)
    call_sealed, call_seal_params = _seal_fields(st, "_seal_call_token", modnames)
    cur_deps = _mint_map(st, "_mint_cursor_token", "_seal_cursor_token", cur_seal_params, cur_sealed, modnames)
    call_deps = _mint_map(st, "_mint_call_token", "_seal_call_token", call_seal_params, call_sealed, modnames)
    # the seal functions are only reachable through the mint functions
    for seal in ("_seal_cursor_token", "_seal_call_token"):
        for tree, where in ((st, "_state_token.py"), (ap, "_app_stream.py")):
            refs = sum(1 for n in ast.walk(tree) if isinstance(n, ast.Name) and n.id == seal and isinstance(n.ctx, ast.Load))
            if refs != (1 if tree is st else 0):
                raise TranslationBroken(seal, f"{refs} references in {where}")
    cur_mint_params = _params(_func(st, "_mint_cursor_token", "_mint_cursor_token"))
    call_mint_params = _params(_func(st, "_mint_call_token", "_mint_call_token"))
    cur_sites = _call_sites(ap, "_mint_cursor_token", cur_mint_params, "_app_stream.py")
    call_sites = _call_sites(ap, "_mint_call_token", call_mint_params, "_app_stream.py")

    # recovery path
    names: list[str] = []
    for fname in ("_unpack_and_recover_state", "_resolve_call_from_token", "_declared_call_state_types"):
        fn = _func(ap, fname, fname)
        for p in _params(fn):
            if p not in names:
                names.append(p)
        for n in ast.walk(fn):
            if isinstance(n, ast.Name) and n.id not in names:
                names.append(n.id)
            if isinstance(n, ast.Attribute) and n.attr not in names:
                names.append(n.attr)
    rec_params = _params(_func(ap, "_unpack_and_recover_state", "_unpack_and_recover_state"))
    rec_sites = _call_sites(ap, "_unpack_and_recover_state", rec_params, "_app_stream.py")
    if len(rec_sites) != 1:
        raise TranslationBroken("_unpack_and_recover_state", f"expected one call site, found {len(rec_sites)}")
    rec_args = "[" + "; ".join(_roots_term(rec_sites[0].get(p, set())) for p in rec_params) + "]"
    # the open functions are called with the identity-only AADs
    src = ast.unparse(_func(ap, "_unpack_and_recover_state", "x"))
    if "_open_cursor_token(token, app._token_key, _compute_aad(auth), app._token_ttl)" not in src:
        raise TranslationBroken("_unpack_and_recover_state", "the cursor token is not opened with _compute_aad(auth)")
    src2 = ast.unparse(_func(ap, "_resolve_call_from_token", "x"))
    if "_open_call_token(call_token, app._token_key, _compute_call_aad(auth), app._token_ttl)" not in src2:
        raise TranslationBroken("_resolve_call_from_token", "the call token is not opened with _compute_call_aad(auth)")

    def cstr(s: str) -> str:
        return '"' + s.replace('"', '""') + '"'

    return (
        "From Coq Require Import List NArith Bool String.\nFrom VGI Require Import M_TokMethod.\nImport ListNotations.\nOpen Scope N_scope.\n"
        f"(* cursor token: sealed fields in plaintext order (0 = AAD first), with the roots of their values over {len(cur_sites)} mint sites *)\n"
        f"Definition gen_cursor_sealed : list (N * list root) :=\n  {_sealed_term(cur_sealed, cur_deps, cur_sites, cur_mint_params)}.\n"
        f"(* call token: {len(call_sites)} mint site(s) *)\n"
        f"Definition gen_call_sealed : list (N * list root) :=\n  {_sealed_term(call_sealed, call_deps, call_sites, call_mint_params)}.\n"
        "(* every identifier / attribute the recovery functions mention *)\n"
        f"Definition gen_recover_names : list string :=\n  [{'; '.join(cstr(n) for n in names)}]%string.\n"
        f"(* roots of the arguments _run_stream_exchange_sync passes to _unpack_and_recover_state({', '.join(rec_params)}) *)\n"
        f"Definition gen_recover_arg_roots : list (list root) :=\n  {rec_args}.\n"
    )
