"""Fail-closed translator for property C40 (capability headers).

Reads, from the tree under test,

* ``make_wsgi_app`` in ``vgi_rpc/http/server/_factory.py``: every statement that mentions the local
  ``capability_headers`` --

      capability_headers: dict[str, str] = {}
      [if <cond>: ...nested ifs...] capability_headers[<HEADER_CONST>] = <value expr>
      if capability_headers: middleware.append(_CapabilitiesMiddleware(capability_headers))

  and emits the ordered table ``gen_cap_table : list row`` (guard = conjunction of the enclosing ``if`` tests,
  header name = the *string* the constant is bound to in ``_common.py`` / ``_introspect.py``, value AST), the
  install guard ``gen_cap_install`` and ``gen_cap_rebound`` (which of the table's variables are assigned to
  inside the function; only the two known, shape-checked re-bindings are accepted);
* ``_CapabilitiesMiddleware`` in ``vgi_rpc/http/server/_middleware.py``: ``__init__`` must store its first
  argument in ``self._headers``; the body of ``process_response`` becomes ``gen_cap_mw_stmts : list mw_stmt``.

Any other mention of the dictionary, any unknown name, any statement shape that is not listed raises
``TranslationBroken``.  The Coq types are those of coq/model/M_CapHeaders.v.
"""
from __future__ import annotations

import ast
from pathlib import Path

from vlib.core import TranslationBroken

DICT = "capability_headers"

# source expression (ast.unparse) -> Coq constructor of M_CapHeaders.var
VARS = {
    "max_request_bytes": "VMaxRequestBytes",
    "max_response_bytes": "VMaxResponseBytes",
    "max_externalized_response_bytes": "VMaxExtResponseBytes",
    "server.external_config": "VExternalConfig",
    "server.external_config.storage": "VExternalStorage",
    "upload_url_provider": "VUploadProvider",
    "max_upload_bytes": "VMaxUploadBytes",
    "enabled_encodings": "VEnabledEncodings",
    "proxy_proof_required": "VProofRequired",
    "introspect_resolver": "VIntrospectResolver",
    "enable_sticky": "VEnableSticky",
    "sticky_default_ttl": "VStickyTtl",
    "sticky_echo_headers": "VEchoHeaders",
}
# variables that are parameters of make_wsgi_app (the others are `server.<attr>` chains or the local below)
PARAMS = {k for k in VARS if "." not in k and k != "enabled_encodings"}


def _cstr(s: str) -> str:
    """Python str -> Coq ``list N`` literal with the text in a comment-free, injective form."""
    for ch in s:
        if ord(ch) > 0x10FFFF:
            raise ValueError(s)
    return "[" + "; ".join(str(ord(ch)) for ch in s) + "]"


def _parse(path: Path) -> ast.Module:
    try:
        return ast.parse(path.read_text())
    except (OSError, SyntaxError) as e:
        raise TranslationBroken(str(path), f"cannot parse: {e}") from e


def _mentions(node: ast.AST, name: str) -> bool:
    return any(isinstance(n, ast.Name) and n.id == name for n in ast.walk(node))


def _module_str_consts(tree: ast.Module) -> dict[str, str]:
    out: dict[str, str] = {}
    for node in tree.body:
        tgt = val = None
        if isinstance(node, ast.Assign) and len(node.targets) == 1 and isinstance(node.targets[0], ast.Name):
            tgt, val = node.targets[0].id, node.value
        elif isinstance(node, ast.AnnAssign) and isinstance(node.target, ast.Name) and node.value is not None:
            tgt, val = node.target.id, node.value
        if tgt is not None and isinstance(val, ast.Constant) and isinstance(val.value, str):
            if tgt in out:
                raise TranslationBroken(tgt, "string constant bound twice at module level")
            out[tgt] = val.value
    return out


class _Factory:
    def __init__(self, repo: Path):
        self.repo = repo
        self.path = repo / "vgi_rpc" / "http" / "server" / "_factory.py"
        self.site = f"{self.path}:make_wsgi_app"
        self.tree = _parse(self.path)
        self.fn = self._find_fn()
        self.consts = self._imported_consts()
        self.rows: list[tuple[str, str, str, str]] = []  # cond, header const name, header text, value
        self.install: str | None = None
        self.seen_init = False

    def bad(self, why: str) -> TranslationBroken:
        return TranslationBroken(self.site, why)

    def _find_fn(self) -> ast.FunctionDef:
        fns = [n for n in self.tree.body if isinstance(n, ast.FunctionDef) and n.name == "make_wsgi_app"]
        if len(fns) != 1:
            raise self.bad("make_wsgi_app not found exactly once")
        fn = fns[0]
        if fn.decorator_list:
            raise self.bad("make_wsgi_app is decorated")
        params = {a.arg for a in fn.args.args + fn.args.kwonlyargs + fn.args.posonlyargs}
        missing = PARAMS - params
        if missing:
            raise self.bad(f"parameters missing: {sorted(missing)}")
        if "server" not in params:
            raise self.bad("parameter `server` missing")
        return fn

    def _imported_consts(self) -> dict[str, str]:
        """Header-name constants visible in _factory.py: NAME -> text, following `from .._common import NAME`."""
        modmap = {
            ("_common", 2): self.repo / "vgi_rpc" / "http" / "_common.py",
            ("_introspect", 1): self.repo / "vgi_rpc" / "http" / "server" / "_introspect.py",
        }
        out: dict[str, str] = {}
        for node in self.tree.body:
            if isinstance(node, ast.ImportFrom) and (node.module, node.level) in modmap:
                consts = _module_str_consts(_parse(modmap[(node.module, node.level)]))
                for alias in node.names:
                    if alias.name in consts:
                        out[alias.asname or alias.name] = consts[alias.name]
        # a module-level rebinding in _factory.py itself would shadow the import
        for node in self.tree.body:
            for n in ast.walk(node) if not isinstance(node, ast.FunctionDef) else []:
                if isinstance(n, ast.Name) and isinstance(n.ctx, ast.Store) and n.id in out:
                    raise self.bad(f"header constant {n.id} is re-bound in _factory.py")
        return out

    # ---- expressions -------------------------------------------------------
    def var(self, e: ast.expr) -> str:
        try:
            text = ast.unparse(e)
        except Exception as ex:  # noqa: BLE001
            raise self.bad("unparsable expression") from ex
        if not isinstance(e, (ast.Name, ast.Attribute)) or text not in VARS:
            raise self.bad(f"unknown configuration expression `{text}`")
        return VARS[text]

    def cond(self, e: ast.expr) -> str:
        if isinstance(e, ast.Compare) and len(e.ops) == 1 and len(e.comparators) == 1:
            rhs = e.comparators[0]
            if isinstance(rhs, ast.Constant) and rhs.value is None:
                if isinstance(e.ops[0], ast.IsNot):
                    return f"CIsNotNone {self.var(e.left)}"
                if isinstance(e.ops[0], ast.Is):
                    return f"CNot (CIsNotNone {self.var(e.left)})"
            raise self.bad(f"unsupported comparison `{ast.unparse(e)}`")
        if isinstance(e, ast.BoolOp) and isinstance(e.op, ast.And):
            terms = [self.cond(v) for v in e.values]
            out = terms[-1]
            for t in reversed(terms[:-1]):
                out = f"CAnd ({t}) ({out})"
            return out
        if isinstance(e, ast.UnaryOp) and isinstance(e.op, ast.Not):
            return f"CNot ({self.cond(e.operand)})"
        if isinstance(e, ast.Constant) and e.value is True:
            return "CTrue"
        if isinstance(e, (ast.Name, ast.Attribute)):
            return f"CTruthy {self.var(e)}"
        raise self.bad(f"unsupported condition `{ast.unparse(e)}`")

    @staticmethod
    def _is_call(e: ast.expr, fname: str, nargs: int) -> bool:
        return isinstance(e, ast.Call) and isinstance(e.func, ast.Name) and e.func.id == fname and len(e.args) == nargs and not e.keywords

    def value(self, e: ast.expr) -> str:
        if isinstance(e, ast.Constant) and isinstance(e.value, str):
            return f"VLit {_cstr(e.value)}"
        if self._is_call(e, "str", 1):
            inner = e.args[0]  # type: ignore[attr-defined]
            if self._is_call(inner, "int", 1):
                return f"VStrInt {self.var(inner.args[0])}"
            return f"VStr {self.var(inner)}"
        if isinstance(e, ast.IfExp):
            return f"VIf ({self.cond(e.test)}) ({self.value(e.body)}) ({self.value(e.orelse)})"
        if (
            isinstance(e, ast.Call)
            and isinstance(e.func, ast.Attribute)
            and e.func.attr == "join"
            and isinstance(e.func.value, ast.Constant)
            and isinstance(e.func.value.value, str)
            and len(e.args) == 1
            and not e.keywords
        ):
            sep = _cstr(e.func.value.value)
            arg = e.args[0]
            # sep.join(x.value for x in SEQ)
            if isinstance(arg, ast.GeneratorExp) and len(arg.generators) == 1:
                g = arg.generators[0]
                if (
                    not g.ifs
                    and not g.is_async
                    and isinstance(g.target, ast.Name)
                    and isinstance(arg.elt, ast.Attribute)
                    and arg.elt.attr == "value"
                    and isinstance(arg.elt.value, ast.Name)
                    and arg.elt.value.id == g.target.id
                ):
                    return f"VJoinValues {sep} {self.var(g.iter)}"
                raise self.bad(f"unsupported generator `{ast.unparse(arg)}`")
            # sep.join(MAPPING.keys())  /  sep.join(MAPPING)
            if isinstance(arg, ast.Call) and isinstance(arg.func, ast.Attribute) and arg.func.attr == "keys" and not arg.args and not arg.keywords:
                return f"VJoinKeys {sep} {self.var(arg.func.value)}"
            if isinstance(arg, (ast.Name, ast.Attribute)) and VARS.get(ast.unparse(arg)) == "VEchoHeaders":
                return f"VJoinKeys {sep} {self.var(arg)}"
            raise self.bad(f"unsupported join argument `{ast.unparse(arg)}`")
        raise self.bad(f"unsupported value expression `{ast.unparse(e)}`")

    # ---- statements --------------------------------------------------------
    def walk(self, stmts: list[ast.stmt], guards: list[str]) -> None:
        for st in stmts:
            if not _mentions(st, DICT):
                # a statement that cannot touch the dictionary; but control flow that leaves the function
                # between the assignments would make later rows conditional -- only `raise` under an `if`
                # whose branch does not mention the dictionary is tolerated (construction fails, no app).
                continue
            if self.install is not None:
                raise self.bad(f"`{DICT}` is used after the middleware was installed (line {st.lineno})")
            if isinstance(st, ast.AnnAssign) and isinstance(st.target, ast.Name) and st.target.id == DICT:
                if self.seen_init or guards or not (isinstance(st.value, ast.Dict) and not st.value.keys):
                    raise self.bad("unexpected (re)initialisation of the dictionary")
                self.seen_init = True
                continue
            if isinstance(st, ast.Assign) and len(st.targets) == 1 and isinstance(st.targets[0], ast.Name) and st.targets[0].id == DICT:
                if self.seen_init or guards or not (isinstance(st.value, ast.Dict) and not st.value.keys):
                    raise self.bad("unexpected (re)initialisation of the dictionary")
                self.seen_init = True
                continue
            if not self.seen_init:
                raise self.bad(f"`{DICT}` used before its initialisation (line {st.lineno})")
            if isinstance(st, ast.Assign) and len(st.targets) == 1 and isinstance(st.targets[0], ast.Subscript):
                tgt = st.targets[0]
                if not (isinstance(tgt.value, ast.Name) and tgt.value.id == DICT):
                    raise self.bad(f"unsupported statement `{ast.unparse(st)[:80]}`")
                if _mentions(st.value, DICT) or _mentions(tgt.slice, DICT):
                    raise self.bad("the dictionary is read inside an assignment")
                key = tgt.slice
                if isinstance(key, ast.Name) and key.id in self.consts:
                    kname, ktext = key.id, self.consts[key.id]
                elif isinstance(key, ast.Constant) and isinstance(key.value, str):
                    kname, ktext = repr(key.value), key.value
                else:
                    raise self.bad(f"header key `{ast.unparse(key)}` is not a known string constant")
                cond = "CTrue"
                if guards:
                    cond = guards[-1]
                    for g in reversed(guards[:-1]):
                        cond = f"CAnd ({g}) ({cond})"
                self.rows.append((cond, kname, ktext, self.value(st.value)))
                continue
            if isinstance(st, ast.If):
                # the install statement
                if isinstance(st.test, ast.Name) and st.test.id == DICT:
                    self._install(st, guards, "InstallIfNonEmpty")
                    continue
                if _mentions(st.test, DICT):
                    raise self.bad(f"the dictionary is read in a condition (line {st.lineno})")
                c = self.cond(st.test)
                self.walk(st.body, guards + [c])
                if any(_mentions(s, DICT) for s in st.orelse):
                    self.walk(st.orelse, guards + [f"CNot ({c})"])
                continue
            if isinstance(st, ast.Expr) and self._is_install_call(st.value):
                self._install_stmt(guards, "InstallAlways")
                continue
            raise self.bad(f"unsupported use of `{DICT}` at line {st.lineno}: `{ast.unparse(st)[:80]}`")

    def _is_install_call(self, e: ast.expr) -> bool:
        # middleware.append(_CapabilitiesMiddleware(capability_headers))
        return (
            isinstance(e, ast.Call)
            and isinstance(e.func, ast.Attribute)
            and e.func.attr == "append"
            and isinstance(e.func.value, ast.Name)
            and e.func.value.id == "middleware"
            and len(e.args) == 1
            and not e.keywords
            and isinstance(e.args[0], ast.Call)
            and isinstance(e.args[0].func, ast.Name)
            and e.args[0].func.id == "_CapabilitiesMiddleware"
            and len(e.args[0].args) == 1
            and not e.args[0].keywords
            and isinstance(e.args[0].args[0], ast.Name)
            and e.args[0].args[0].id == DICT
        )

    def _install_stmt(self, guards: list[str], kind: str) -> None:
        if guards:
            raise self.bad("the capabilities middleware is installed under a configuration guard")
        self.install = kind

    def _install(self, st: ast.If, guards: list[str], kind: str) -> None:
        if st.orelse or len(st.body) != 1 or not (isinstance(st.body[0], ast.Expr) and self._is_install_call(st.body[0].value)):
            raise self.bad("unexpected shape of the middleware installation")
        self._install_stmt(guards, kind)

    def check_flow(self) -> None:
        """Between the dictionary's initialisation and the installation no top-level statement may return,
        and the list `middleware` must reach falcon.App(middleware=middleware ...) unpruned afterwards."""
        body = self.fn.body
        touching = [i for i, s in enumerate(body) if _mentions(s, DICT)]
        if not touching:
            raise self.bad(f"`{DICT}` not found")
        first, last = touching[0], touching[-1]
        for s in body[first : last + 1]:
            for n in ast.walk(s):
                if isinstance(n, ast.Return):
                    raise self.bad(f"return between the capability assignments (line {n.lineno})")
        app_calls = [
            n
            for s in body[last + 1 :]
            for n in ast.walk(s)
            if isinstance(n, ast.Call) and ast.unparse(n.func) in ("falcon.App", "falcon.API") and any(k.arg == "middleware" and _mentions(k.value, "middleware") for k in n.keywords)
        ]
        if len(app_calls) != 1:
            raise self.bad("falcon.App(middleware=middleware...) not found exactly once after the installation")
        call = app_calls[0]
        if call.args or {k.arg for k in call.keywords} != {"middleware"}:
            # e.g. independent_middleware=False would skip process_response of middleware after a raising one
            raise self.bad(f"falcon.App is called with more than `middleware=`: `{ast.unparse(call)[:80]}`")
        mw_arg = ast.unparse(call.keywords[0].value)
        if mw_arg not in ("middleware or None", "middleware"):
            raise self.bad(f"unexpected middleware argument `{mw_arg}`")
        for s in body[last + 1 :]:
            for n in ast.walk(s):
                if isinstance(n, ast.Name) and n.id == "middleware" and isinstance(n.ctx, (ast.Store, ast.Del)):
                    raise self.bad("`middleware` is re-bound after the installation")
                if isinstance(n, ast.Call) and isinstance(n.func, ast.Attribute) and isinstance(n.func.value, ast.Name) and n.func.value.id == "middleware" and n.func.attr in ("remove", "pop", "clear", "__delitem__", "__setitem__", "reverse", "sort"):
                    raise self.bad("`middleware` is pruned after the installation")
                if isinstance(n, ast.Subscript) and isinstance(n.value, ast.Name) and n.value.id == "middleware" and isinstance(n.ctx, (ast.Store, ast.Del)):
                    raise self.bad("`middleware` is pruned after the installation")

    def rebound(self) -> list[str]:
        """Variables of the table that are assigned inside make_wsgi_app, each with its only accepted shape."""
        stores: dict[str, list[ast.stmt]] = {}
        for st in self.fn.body:
            for n in ast.walk(st):
                if isinstance(n, ast.Name) and isinstance(n.ctx, (ast.Store, ast.Del)) and (n.id in PARAMS or n.id in ("enabled_encodings", "server")):
                    stores.setdefault(n.id, []).append(st)
                if isinstance(n, (ast.Global, ast.Nonlocal)):
                    raise self.bad("global/nonlocal in make_wsgi_app")
        out: list[str] = []
        for name, sts in stores.items():
            uniq = list({id(s): s for s in sts}.values())
            if name == "max_response_bytes":
                st = uniq[0]
                ok = (
                    len(uniq) == 1
                    and isinstance(st, ast.If)
                    and ast.unparse(st.test) == "max_stream_response_bytes is not None"
                    and not st.orelse
                    and isinstance(st.body[-1], ast.Assign)
                    and ast.unparse(st.body[-1]) == "max_response_bytes = max_stream_response_bytes"
                    and sum(1 for n in ast.walk(st) if isinstance(n, ast.Name) and n.id == name and isinstance(n.ctx, ast.Store)) == 1
                    and self.fn.body.index(st) < min(i for i, s in enumerate(self.fn.body) if _mentions(s, DICT))
                )
                if not ok:
                    raise self.bad("unexpected re-binding of max_response_bytes")
                out.append(VARS[name])
            elif name == "enabled_encodings":
                st = uniq[0]
                ok = (
                    len(uniq) == 1
                    and isinstance(st, ast.AnnAssign)
                    and st.value is not None
                    and ast.unparse(st.value) == "tuple(codec_levels)"
                    and self.fn.body.index(st) < min(i for i, s in enumerate(self.fn.body) if _mentions(s, DICT))
                )
                if not ok:
                    raise self.bad("unexpected binding of enabled_encodings")
                out.append(VARS[name])
            else:
                raise self.bad(f"`{name}` is re-bound inside make_wsgi_app")
        if "VEnabledEncodings" not in out:
            raise self.bad("enabled_encodings is not bound")
        return sorted(out, key=list(VARS.values()).index)

    def run(self) -> str:
        self.walk(self.fn.body, [])
        if not self.seen_init:
            raise self.bad(f"`{DICT}` is never initialised")
        if self.install is None:
            self.install = "InstallNever"
        self.check_flow()
        # no nested function / lambda / comprehension may capture the dictionary
        for n in ast.walk(self.fn):
            if isinstance(n, (ast.Lambda, ast.FunctionDef, ast.AsyncFunctionDef, ast.ListComp, ast.DictComp, ast.SetComp, ast.GeneratorExp)) and n is not self.fn and _mentions(n, DICT):
                raise self.bad("the dictionary is captured by a nested scope")
        rebound = self.rebound()
        lines = ["Definition gen_cap_table : list row := ["]
        for i, (cond, kname, ktext, val) in enumerate(self.rows):
            sep = ";" if i + 1 < len(self.rows) else ""
            safe = ktext.replace("(*", "( *").replace("*)", "* )")
            lines.append(f"  (* {kname} = {safe!r} *)\n  ({cond}, {_cstr(ktext)}, {val}){sep}")
        lines.append("].")
        lines.append(f"Definition gen_cap_install : install_guard := {self.install}.")
        lines.append("Definition gen_cap_rebound : list var := [" + "; ".join(rebound) + "].")
        return "\n".join(lines) + "\n"


class _Middleware:
    def __init__(self, repo: Path):
        self.path = repo / "vgi_rpc" / "http" / "server" / "_middleware.py"
        self.site = f"{self.path}:_CapabilitiesMiddleware"
        self.tree = _parse(self.path)

    def bad(self, why: str) -> TranslationBroken:
        return TranslationBroken(self.site, why)

    def run(self) -> str:
        cls = [n for n in self.tree.body if isinstance(n, ast.ClassDef) and n.name == "_CapabilitiesMiddleware"]
        if len(cls) != 1:
            raise self.bad("class not found exactly once")
        c = cls[0]
        if c.bases or c.decorator_list or c.keywords:
            raise self.bad("class has bases / decorators")
        fns = {n.name: n for n in c.body if isinstance(n, ast.FunctionDef)}
        others = [n for n in c.body if not isinstance(n, ast.FunctionDef)]
        for n in others:
            ok = (isinstance(n, ast.Expr) and isinstance(n.value, ast.Constant)) or (
                isinstance(n, ast.Assign) and len(n.targets) == 1 and isinstance(n.targets[0], ast.Name) and n.targets[0].id == "__slots__"
            )
            if not ok:
                raise self.bad(f"unexpected class-level statement `{ast.unparse(n)[:60]}`")
        if set(fns) != {"__init__", "process_response"}:
            raise self.bad(f"unexpected methods {sorted(fns)} (a process_request / process_resource hook could short-circuit)")
        init = fns["__init__"]
        args = [a.arg for a in init.args.args]
        if args[:2] != ["self", "headers"] or init.args.vararg or init.args.kwarg or init.args.kwonlyargs:
            raise self.bad("unexpected __init__ signature")
        defaults: dict[str, ast.expr] = dict(zip(args[len(args) - len(init.args.defaults) :], init.args.defaults))
        fields: dict[str, str] = {}
        for st in init.body:
            if isinstance(st, ast.Expr) and isinstance(st.value, ast.Constant):
                continue
            if isinstance(st, ast.Assign) and len(st.targets) == 1 and ast.unparse(st.targets[0]).startswith("self.") and isinstance(st.value, ast.Name) and st.value.id in args:
                fields[ast.unparse(st.targets[0])] = st.value.id
                continue
            raise self.bad(f"unexpected __init__ statement `{ast.unparse(st)[:60]}`")
        if fields.get("self._headers") != "headers":
            raise self.bad("self._headers is not the constructor's first argument")
        self.fields, self.defaults = fields, defaults
        pr = fns["process_response"]
        pargs = [a.arg for a in pr.args.args]
        if pargs != ["self", "req", "resp", "resource", "req_succeeded"] or pr.decorator_list:
            raise self.bad("unexpected process_response signature")
        stmts = self.stmts(pr.body, [])
        return "Definition gen_cap_mw_stmts : list mw_stmt := [\n  " + ";\n  ".join(stmts) + "\n].\n"

    def guard(self, e: ast.expr) -> str:
        if isinstance(e, ast.Name) and e.id == "req_succeeded":
            return "GSucceeded"
        if isinstance(e, ast.Compare) and len(e.ops) == 1 and ast.unparse(e.left) == "req.method" and isinstance(e.comparators[0], ast.Constant) and isinstance(e.comparators[0].value, str):
            g = f"GMethodEq {_cstr(e.comparators[0].value)}"
            if isinstance(e.ops[0], ast.Eq):
                return g
            if isinstance(e.ops[0], ast.NotEq):
                return f"GNot ({g})"
        if isinstance(e, ast.UnaryOp) and isinstance(e.op, ast.Not):
            return f"GNot ({self.guard(e.operand)})"
        if isinstance(e, ast.BoolOp):
            op = "GAnd" if isinstance(e.op, ast.And) else "GOr"
            terms = [self.guard(v) for v in e.values]
            out = terms[-1]
            for t in reversed(terms[:-1]):
                out = f"{op} ({t}) ({out})"
            return out
        raise self.bad(f"unsupported guard `{ast.unparse(e)}`")

    def text(self, e: ast.expr) -> str:
        """A string built from literals and constructor defaults."""
        if isinstance(e, ast.Constant) and isinstance(e.value, str):
            return e.value
        if isinstance(e, ast.JoinedStr):
            out = ""
            for v in e.values:
                if isinstance(v, ast.Constant) and isinstance(v.value, str):
                    out += v.value
                elif isinstance(v, ast.FormattedValue) and v.conversion == -1 and v.format_spec is None:
                    src = ast.unparse(v.value)
                    arg = self.fields.get(src)
                    d = self.defaults.get(arg) if arg else None
                    if d is None or not isinstance(d, ast.Constant) or not isinstance(d.value, int) or isinstance(d.value, bool):
                        raise self.bad(f"f-string part `{src}` is not a constructor default integer")
                    out += str(d.value)
                else:
                    raise self.bad("unsupported f-string part")
            return out
        raise self.bad(f"unsupported text `{ast.unparse(e)}`")

    def stmts(self, body: list[ast.stmt], guards: list[str]) -> list[str]:
        out: list[str] = []

        def wrap(s: str) -> str:
            for g in reversed(guards):
                s = f"MwWhen ({g}) ({s})"
            return s

        for st in body:
            if isinstance(st, ast.Expr) and isinstance(st.value, ast.Constant) and isinstance(st.value.value, str):
                continue  # docstring
            if isinstance(st, ast.For):
                ok = (
                    not st.orelse
                    and ast.unparse(st.iter) == "self._headers.items()"
                    and isinstance(st.target, ast.Tuple)
                    and [ast.unparse(x) for x in st.target.elts] == ["name", "value"]
                    and len(st.body) == 1
                    and isinstance(st.body[0], ast.Expr)
                    and ast.unparse(st.body[0].value) == "resp.set_header(name, value)"
                )
                if not ok:
                    raise self.bad(f"unsupported loop `{ast.unparse(st)[:80]}`")
                out.append(wrap("MwStampAll"))
                continue
            if isinstance(st, ast.Expr) and isinstance(st.value, ast.Call) and ast.unparse(st.value.func) == "resp.set_header" and len(st.value.args) == 2 and not st.value.keywords:
                k, v = self.text(st.value.args[0]), self.text(st.value.args[1])
                out.append(wrap(f"MwSet {_cstr(k)} {_cstr(v)}"))
                continue
            if isinstance(st, ast.If):
                g = self.guard(st.test)
                out += self.stmts(st.body, guards + [g])
                if st.orelse:
                    out += self.stmts(st.orelse, guards + [f"GNot ({g})"])
                continue
            raise self.bad(f"unsupported statement `{ast.unparse(st)[:80]}` (return / raise / delete of headers ...)")
        return out


HEADER = (
    "From Coq Require Import List NArith ZArith Bool.\n"
    "From VGI Require Import M_CapHeaders.\n"
    "Import ListNotations.\nOpen Scope N_scope.\n"
)


def generate(repo: Path) -> str:
    return HEADER + _Factory(repo).run() + _Middleware(repo).run()
