"""Fail-closed translator for the token layer (C12): byte expressions -> ``Layout.layout`` terms, constants,
raise sites, and the few structural facts the hand model of the token functions relies on.

Byte expressions accepted (a flat ``+`` chain, left to right):
  * bytes literal, or a local name bound once to a bytes literal            -> FConst <bytes>
  * ``struct.pack("<Q"|"<I"|"<H"|"B", <name>)``                            -> FInt W64|W32|W16|W8      (argument <name>)
  * ``struct.pack("<I", len(x))`` immediately followed by ``x``             -> FLen W32                 (argument x)
  * a name immediately followed by the literal ``b"\\x00"``                  -> FNulTerm                 (argument name)
  * a name in last position                                                  -> FTail                    (argument name)
  * a name elsewhere whose length is given by the caller (``fixed``)         -> FFixed n                 (argument name)
Anything else raises TranslationBroken.
"""
from __future__ import annotations

import ast
from pathlib import Path
from typing import Any

from vlib.core import TranslationBroken

def E(src: str) -> str:
    """ast.dump of an expression given as source (the expected shape, independent of the Python version's dump format)."""
    return ast.dump(ast.parse(src, mode="eval").body)


_W = {"<Q": "W64", "<I": "W32", "<H": "W16", "B": "W8", "<B": "W8"}


def _parse(path: Path) -> ast.Module:
    try:
        return ast.parse(path.read_text())
    except (OSError, SyntaxError) as e:
        raise TranslationBroken(str(path), f"cannot parse: {e}") from e


def _func(tree: ast.Module, name: str, site: str) -> ast.FunctionDef:
    hits = [n for n in tree.body if isinstance(n, ast.FunctionDef) and n.name == name]
    if len(hits) != 1:
        raise TranslationBroken(site, f"expected exactly one module-level def {name}, found {len(hits)}")
    return hits[0]


def _body(fn: ast.FunctionDef) -> list[ast.stmt]:
    b = list(fn.body)
    if b and isinstance(b[0], ast.Expr) and isinstance(b[0].value, ast.Constant) and isinstance(b[0].value.value, str):
        b = b[1:]
    return b


def cbytes(b: bytes) -> str:
    return "[" + ";".join(str(x) for x in b) + "]"


def module_ints(tree: ast.Module, site: str) -> dict[str, int]:
    """Module-level ``NAME = <int expr over + * << and earlier names>``."""
    env: dict[str, int] = {}

    def ev(n: ast.expr) -> int:
        if isinstance(n, ast.Constant) and isinstance(n.value, int) and not isinstance(n.value, bool):
            return n.value
        if isinstance(n, ast.Name) and n.id in env:
            return env[n.id]
        if isinstance(n, ast.BinOp) and isinstance(n.op, (ast.Add, ast.Mult, ast.LShift)):
            a, b = ev(n.left), ev(n.right)
            return a + b if isinstance(n.op, ast.Add) else a * b if isinstance(n.op, ast.Mult) else a << b
        raise ValueError(ast.dump(n)[:80])

    for node in tree.body:
        if isinstance(node, ast.Assign) and len(node.targets) == 1 and isinstance(node.targets[0], ast.Name):
            try:
                env[node.targets[0].id] = ev(node.value)
            except ValueError:
                continue
    return env


def int_expr(n: ast.expr, env: dict[str, int], site: str) -> int:
    if isinstance(n, ast.Constant) and isinstance(n.value, int) and not isinstance(n.value, bool):
        return n.value
    if isinstance(n, ast.Name) and n.id in env:
        return env[n.id]
    if isinstance(n, ast.BinOp) and isinstance(n.op, (ast.Add, ast.Mult, ast.LShift)):
        a, b = int_expr(n.left, env, site), int_expr(n.right, env, site)
        return a + b if isinstance(n.op, ast.Add) else a * b if isinstance(n.op, ast.Mult) else a << b
    raise TranslationBroken(site, f"not a constant integer expression: {ast.dump(n)[:100]}")


def module_bytes(tree: ast.Module) -> dict[str, bytes]:
    out: dict[str, bytes] = {}
    for node in tree.body:
        if isinstance(node, ast.Assign) and len(node.targets) == 1 and isinstance(node.targets[0], ast.Name):
            if isinstance(node.value, ast.Constant) and isinstance(node.value.value, bytes):
                out[node.targets[0].id] = node.value.value
    return out


def _flatten(n: ast.expr) -> list[ast.expr]:
    if isinstance(n, ast.BinOp) and isinstance(n.op, ast.Add):
        return _flatten(n.left) + _flatten(n.right)
    return [n]


def _is_struct_pack(n: ast.expr) -> tuple[str, ast.expr] | None:
    if (
        isinstance(n, ast.Call)
        and isinstance(n.func, ast.Attribute)
        and n.func.attr == "pack"
        and isinstance(n.func.value, ast.Name)
        and n.func.value.id == "struct"
        and len(n.args) == 2
        and not n.keywords
        and isinstance(n.args[0], ast.Constant)
        and isinstance(n.args[0].value, str)
    ):
        return n.args[0].value, n.args[1]
    return None


def layout_of(expr: ast.expr, consts: dict[str, bytes], fixed: dict[str, int], site: str) -> tuple[list[str], list[str]]:
    """(fields as Coq terms, argument names in order)."""
    items = _flatten(expr)
    fields: list[str] = []
    args: list[str] = []
    i = 0
    while i < len(items):
        it = items[i]
        nxt = items[i + 1] if i + 1 < len(items) else None
        if isinstance(it, ast.Constant) and isinstance(it.value, bytes):
            fields.append(f"FConst {cbytes(it.value)}")
        elif isinstance(it, ast.Name) and it.id in consts:
            fields.append(f"FConst {cbytes(consts[it.id])}")
        elif (sp := _is_struct_pack(it)) is not None:
            fmt, arg = sp
            if fmt not in _W:
                raise TranslationBroken(site, f"unsupported struct format {fmt!r}")
            if isinstance(arg, ast.Name):
                fields.append(f"FInt {_W[fmt]}")
                args.append(arg.id)
            elif (
                isinstance(arg, ast.Call)
                and isinstance(arg.func, ast.Name)
                and arg.func.id == "len"
                and len(arg.args) == 1
                and isinstance(arg.args[0], ast.Name)
                and isinstance(nxt, ast.Name)
                and nxt.id == arg.args[0].id
            ):
                fields.append(f"FLen {_W[fmt]}")
                args.append(nxt.id)
                i += 1
            else:
                raise TranslationBroken(site, f"struct.pack argument is neither a name nor len(x) followed by x: {ast.dump(arg)[:80]}")
        elif isinstance(it, ast.Name):
            if isinstance(nxt, ast.Constant) and nxt.value == b"\x00":
                fields.append("FNulTerm")
                args.append(it.id)
                i += 1
            elif nxt is None:
                fields.append("FTail")
                args.append(it.id)
            elif it.id in fixed:
                fields.append(f"FFixed {fixed[it.id]}")
                args.append(it.id)
            else:
                raise TranslationBroken(site, f"variable-length field {it.id!r} in the middle without a terminator or length prefix")
        else:
            raise TranslationBroken(site, f"unsupported byte expression item {ast.dump(it)[:100]}")
        i += 1
    return fields, args


def _names(xs: list[str]) -> str:
    return "[" + "; ".join(cbytes(x.encode()) for x in xs) + "]"


_ANON_GUARD = E("auth is None or not auth.authenticated")


def _ident_field(attr: str) -> str:
    return E(f"(auth.{attr} or '').encode()")


def aad_layouts(tree: ast.Module, fname: str, tag: str, path: Path) -> str:
    """``_compute_aad``-shaped function -> gen_<tag>_anon_layout, gen_<tag>_auth_layout, gen_<tag>_auth_args."""
    site = f"{path}:{fname}"
    fn = _func(tree, fname, site)
    if [a.arg for a in fn.args.args] != ["auth"]:
        raise TranslationBroken(site, "expected the single parameter 'auth'")
    b = _body(fn)
    if len(b) != 5:
        raise TranslationBroken(site, f"expected 5 statements (prefix, anonymous guard, domain, principal, return), found {len(b)}")
    s0, s1, s2, s3, s4 = b
    if not (isinstance(s0, ast.Assign) and len(s0.targets) == 1 and isinstance(s0.targets[0], ast.Name) and s0.targets[0].id == "prefix" and isinstance(s0.value, ast.Constant) and isinstance(s0.value.value, bytes)):
        raise TranslationBroken(site, "first statement is not prefix = b'...'")
    consts = {"prefix": s0.value.value}
    if not (isinstance(s1, ast.If) and not s1.orelse and ast.dump(s1.test) == _ANON_GUARD and len(s1.body) == 1 and isinstance(s1.body[0], ast.Return) and s1.body[0].value is not None):
        raise TranslationBroken(site, "anonymous guard is not `if auth is None or not auth.authenticated: return ...`")
    anon_fields, anon_args = layout_of(s1.body[0].value, consts, {}, site)
    if anon_args:
        raise TranslationBroken(site, "anonymous AAD depends on a variable")
    for st, nm, attr in ((s2, "domain", "domain"), (s3, "principal", "principal")):
        if not (isinstance(st, ast.Assign) and len(st.targets) == 1 and isinstance(st.targets[0], ast.Name) and st.targets[0].id == nm and ast.dump(st.value) == _ident_field(attr)):
            raise TranslationBroken(site, f"{nm} is not (auth.{attr} or '').encode()")
    if not (isinstance(s4, ast.Return) and s4.value is not None):
        raise TranslationBroken(site, "last statement is not a return")
    auth_fields, auth_args = layout_of(s4.value, consts, {}, site)
    return (
        f"Definition gen_{tag}_prefix : bytes := {cbytes(consts['prefix'])}.\n"
        f"Definition gen_{tag}_anon_layout : layout := [{'; '.join(anon_fields)}].\n"
        f"Definition gen_{tag}_auth_layout : layout := [{'; '.join(auth_fields)}].\n"
        f"Definition gen_{tag}_auth_args : list bytes := {_names(auth_args)}.\n"
    )


def _find_assign(fn: ast.FunctionDef, name: str, site: str) -> ast.expr:
    hits = [n for n in ast.walk(fn) if isinstance(n, ast.Assign) and len(n.targets) == 1 and isinstance(n.targets[0], ast.Name) and n.targets[0].id == name]
    if len(hits) != 1:
        raise TranslationBroken(site, f"expected exactly one assignment to {name}, found {len(hits)}")
    return hits[0].value


def _kw(call: ast.Call, name: str) -> ast.expr | None:
    for k in call.keywords:
        if k.arg == name:
            return k.value
    return None


def plaintext_layout(tree: ast.Module, fname: str, tag: str, env: dict[str, int], path: Path, version_name: str) -> str:
    """``_seal_*_token``: plaintext = <byte expr>; sealed = crypto.seal_bytes(_pack_plaintext(plaintext), token_key, aad=aad, version=V);
    return base64.b64encode(sealed)."""
    site = f"{path}:{fname}"
    fn = _func(tree, fname, site)
    consts: dict[str, bytes] = {}
    expr = _find_assign(fn, "plaintext", site)
    if "_CALL_ID_LEN" not in env:
        raise TranslationBroken(site, "_CALL_ID_LEN not found")
    # call_id = os.urandom(_CALL_ID_LEN) in _mint_call_token is what fixes the length
    mint = _func(tree, "_mint_call_token", site)
    cid = _find_assign(mint, "call_id", site)
    if ast.dump(cid) != E("os.urandom(_CALL_ID_LEN)"):
        raise TranslationBroken(site, "call_id is not os.urandom(_CALL_ID_LEN)")
    fields, args = layout_of(expr, consts, {"call_id": env["_CALL_ID_LEN"]}, site)
    # derived names (x_bytes = x.encode()) are reported under the derived name
    sealed = _find_assign(fn, "sealed", site)
    want = E(f"crypto.seal_bytes(_pack_plaintext(plaintext), token_key, aad=aad, version={version_name})")
    if ast.dump(sealed) != want:
        raise TranslationBroken(site, f"sealed is not crypto.seal_bytes(_pack_plaintext(plaintext), token_key, aad=aad, version={version_name})")
    last = _body(fn)[-1]
    if not (isinstance(last, ast.Return) and last.value is not None and ast.dump(last.value) == E("base64.b64encode(sealed)")):
        raise TranslationBroken(site, "does not return base64.b64encode(sealed)")
    return f"Definition gen_{tag}_layout : layout := [{'; '.join(fields)}].\nDefinition gen_{tag}_args : list bytes := {_names(args)}.\n"


_B64_LENIENT = E("base64.b64decode(token, validate=True)")
_B64_HELPER = E("_decode_token(token)")
_B64_CANON_TEST = E("base64.b64encode(raw) != token")


def open_facts(tree: ast.Module, fname: str, tag: str, version_name: str, env: dict[str, int], path: Path) -> tuple[str, bool]:
    """Facts about ``_open_*_token`` that the hand model uses: armour decoding (canonical or not), version passed to
    open_bytes, minimum plaintext length."""
    site = f"{path}:{fname}"
    fn = _func(tree, fname, site)
    b = _body(fn)
    if not (b and isinstance(b[0], ast.Try) and len(b[0].body) == 1 and isinstance(b[0].body[0], ast.Assign)):
        raise TranslationBroken(site, "first statement is not try: raw = <decode>(token)")
    asg = b[0].body[0]
    if not (len(asg.targets) == 1 and isinstance(asg.targets[0], ast.Name) and asg.targets[0].id == "raw"):
        raise TranslationBroken(site, "first try does not assign raw")
    if not (len(b[0].handlers) == 1 and isinstance(b[0].handlers[0].type, ast.Name) and b[0].handlers[0].type.id == "Exception"):
        raise TranslationBroken(site, "armour decoding is not guarded by `except Exception`")
    d = ast.dump(asg.value)
    if d == _B64_LENIENT:
        canonical = False
    elif d == _B64_HELPER:
        h = _func(tree, "_decode_token", site)
        hb = _body(h)
        ok = (
            [a.arg for a in h.args.args] == ["token"]
            and len(hb) == 3
            and isinstance(hb[0], ast.Assign)
            and len(hb[0].targets) == 1
            and isinstance(hb[0].targets[0], ast.Name)
            and hb[0].targets[0].id == "raw"
            and ast.dump(hb[0].value) == _B64_LENIENT
            and isinstance(hb[1], ast.If)
            and not hb[1].orelse
            and ast.dump(hb[1].test) == _B64_CANON_TEST
            and len(hb[1].body) == 1
            and isinstance(hb[1].body[0], ast.Raise)
            and isinstance(hb[2], ast.Return)
            and isinstance(hb[2].value, ast.Name)
            and hb[2].value.id == "raw"
        )
        if not ok:
            raise TranslationBroken(site, "_decode_token is not `raw = b64decode(token, validate=True); if b64encode(raw) != token: raise; return raw`")
        canonical = True
    else:
        raise TranslationBroken(site, f"unknown armour decoding: {d[:120]}")
    sp = _find_assign_any(fn, "sealed_plaintext", site)
    want = E(f"crypto.open_bytes(raw, token_key, aad=aad, version={version_name})")
    if ast.dump(sp) != want:
        raise TranslationBroken(site, f"sealed_plaintext is not crypto.open_bytes(raw, token_key, aad=aad, version={version_name})")
    # minimum length guard: if len(plaintext) < <const expr>: raise
    mins = [
        n.test.comparators[0]
        for n in ast.walk(fn)
        if isinstance(n, ast.If)
        and isinstance(n.test, ast.Compare)
        and len(n.test.ops) == 1
        and isinstance(n.test.ops[0], ast.Lt)
        and ast.dump(n.test.left) == E("len(plaintext)")
    ]
    if len(mins) != 1:
        raise TranslationBroken(site, "expected exactly one `if len(plaintext) < N` guard")
    n_min = int_expr(mins[0], env, site)
    # TTL guard: if token_ttl > 0: created_at = unpack_from("<Q", plaintext, 0)[0]; if int(time.time()) - created_at > token_ttl: raise
    ttl = [n for n in ast.walk(fn) if isinstance(n, ast.If) and ast.dump(n.test) == E("token_ttl > 0")]
    if len(ttl) != 1 or len(ttl[0].body) != 2 or ttl[0].orelse:
        raise TranslationBroken(site, "expected exactly one `if token_ttl > 0:` block of two statements")
    inner = ttl[0].body[1]
    want_t = E("int(time.time()) - created_at > token_ttl")
    want_c = E("struct.unpack_from('<Q', plaintext, 0)[0]")
    c0 = ttl[0].body[0]
    if not (isinstance(inner, ast.If) and ast.dump(inner.test) == want_t and isinstance(c0, ast.Assign) and ast.dump(c0.value) == want_c):
        raise TranslationBroken(site, "TTL test is not `int(time.time()) - created_at > token_ttl` over struct.unpack_from('<Q', plaintext, 0)[0]")
    return f"Definition gen_{tag}_min_plaintext : N := {n_min}.\n", canonical


def _find_assign_any(fn: ast.FunctionDef, name: str, site: str) -> ast.expr:
    hits: list[ast.expr] = []
    for n in ast.walk(fn):
        if isinstance(n, ast.Assign) and len(n.targets) == 1 and isinstance(n.targets[0], ast.Name) and n.targets[0].id == name:
            hits.append(n.value)
        if isinstance(n, ast.AnnAssign) and isinstance(n.target, ast.Name) and n.target.id == name and n.value is not None:
            hits.append(n.value)
    if len(hits) != 1:
        raise TranslationBroken(site, f"expected exactly one assignment to {name}, found {len(hits)}")
    return hits[0]


_STATUS = {"BAD_REQUEST": 400, "INTERNAL_SERVER_ERROR": 500}


def raise_sites(tree: ast.Module, fnames: list[str], path: Path) -> list[tuple[str | None, int]]:
    """Every ``raise`` inside the named functions must be ``raise _RpcHttpError(RuntimeError(<msg>), status_code=HTTPStatus.X)``;
    returns (constant message | None for computed ones, status)."""
    out: list[tuple[str | None, int]] = []
    for fname in fnames:
        site = f"{path}:{fname}"
        fn = _func(tree, fname, site)
        for n in ast.walk(fn):
            if not isinstance(n, ast.Raise):
                continue
            e = n.exc
            if not (isinstance(e, ast.Call) and isinstance(e.func, ast.Name) and e.func.id == "_RpcHttpError" and len(e.args) == 1):
                raise TranslationBroken(site, f"raise of something other than _RpcHttpError(...) at line {n.lineno}")
            sc = _kw(e, "status_code")
            if not (isinstance(sc, ast.Attribute) and isinstance(sc.value, ast.Name) and sc.value.id == "HTTPStatus" and sc.attr in _STATUS):
                raise TranslationBroken(site, f"status_code is not HTTPStatus.<known> at line {n.lineno}")
            cause = e.args[0]
            msg: str | None = None
            if isinstance(cause, ast.Call) and isinstance(cause.func, ast.Name) and cause.func.id == "RuntimeError" and len(cause.args) == 1:
                a = cause.args[0]
                if isinstance(a, ast.Constant) and isinstance(a.value, str):
                    msg = a.value
                elif isinstance(a, ast.Name) and a.id == "message":
                    msg = None  # _read_segment: supplied by the caller, collected below
                elif isinstance(a, ast.JoinedStr):
                    msg = "".join(v.value if isinstance(v, ast.Constant) else "{}" for v in a.values)
                else:
                    raise TranslationBroken(site, f"unsupported message expression at line {n.lineno}")
            else:
                raise TranslationBroken(site, f"cause is not RuntimeError(<message>) at line {n.lineno}")
            out.append((msg, _STATUS[sc.attr]))
        # messages handed to _read_segment
        for n in ast.walk(fn):
            if isinstance(n, ast.Call) and isinstance(n.func, ast.Name) and n.func.id == "_read_segment":
                if not (len(n.args) == 3 and isinstance(n.args[2], ast.Constant) and isinstance(n.args[2].value, str)):
                    raise TranslationBroken(site, "_read_segment called without a literal message")
                out.append((n.args[2].value, 400))
    return out


def call_site_facts(tree: ast.Module, path: Path) -> None:
    """_app_stream.py: which AAD function and which config fields each open is given, and the order
    cursor -> cache -> call token -> deserialize inside _unpack_and_recover_state."""
    site = f"{path}:_unpack_and_recover_state"
    fn = _func(tree, "_unpack_and_recover_state", site)
    b = _body(fn)
    want0 = E("_open_cursor_token(token, app._token_key, _compute_aad(auth), app._token_ttl)")
    if not (b and isinstance(b[0], ast.Assign) and ast.dump(b[0].value) == want0):
        raise TranslationBroken(site, "first statement is not state_bytes, call_id = _open_cursor_token(token, app._token_key, _compute_aad(auth), app._token_ttl)")
    calls = [n for n in ast.walk(fn) if isinstance(n, ast.Call)]
    first_line = {}
    for c in calls:
        nm = c.func.attr if isinstance(c.func, ast.Attribute) else c.func.id if isinstance(c.func, ast.Name) else None
        if nm and nm not in first_line:
            first_line[nm] = c.lineno
    order = ["_open_cursor_token", "get", "_resolve_call_from_token", "_resolve_state_cls", "_deserialize_state_bytes", "bind_call_state", "rehydrate"]
    lines = [first_line.get(x) for x in order]
    if None in lines or lines != sorted(lines):  # type: ignore[type-var]
        raise TranslationBroken(site, f"call order is not {order}: lines {lines}")
    site2 = f"{path}:_resolve_call_from_token"
    fn2 = _func(tree, "_resolve_call_from_token", site2)
    want1 = E("_open_call_token(call_token, app._token_key, _compute_call_aad(auth), app._token_ttl)")
    if not any(isinstance(n, ast.Call) and ast.dump(n) == want1 for n in ast.walk(fn2)):
        raise TranslationBroken(site2, "does not call _open_call_token(call_token, app._token_key, _compute_call_aad(auth), app._token_ttl)")


def mint_facts(tree: ast.Module, path: Path) -> None:
    """_mint_cursor_token seals under _compute_aad(auth), _mint_call_token under _compute_call_aad(auth)."""
    for fname, callee, aadf in (("_mint_cursor_token", "_seal_cursor_token", "_compute_aad"), ("_mint_call_token", "_seal_call_token", "_compute_call_aad")):
        site = f"{path}:{fname}"
        fn = _func(tree, fname, site)
        hits = [n for n in ast.walk(fn) if isinstance(n, ast.Call) and isinstance(n.func, ast.Name) and n.func.id == callee]
        if len(hits) != 1:
            raise TranslationBroken(site, f"expected one call of {callee}")
        want = E(f"{aadf}(auth)")
        if not any(ast.dump(a) == want for a in hits[0].args):
            raise TranslationBroken(site, f"{callee} is not given {aadf}(auth)")
        if not any(ast.dump(a) == E("token_key") for a in hits[0].args):
            raise TranslationBroken(site, f"{callee} is not given token_key")


def crypto_facts(tree: ast.Module, path: Path) -> str:
    site = f"{path}:open_bytes"
    env = module_ints(tree, site)
    for k in ("_KEY_LEN", "_NONCE_LEN", "_TAG_LEN", "_VERSION_LEN", "_MIN_TOKEN_LEN"):
        if k not in env:
            raise TranslationBroken(site, f"constant {k} not found")
    fn = _func(tree, "open_bytes", site)
    b = _body(fn)
    want_guard = E("len(token) < _MIN_TOKEN_LEN or token[0] != version")
    if not (len(b) == 4 and isinstance(b[0], ast.If) and ast.dump(b[0].test) == want_guard and isinstance(b[0].body[-1], ast.Raise)):
        raise TranslationBroken(site, "guard is not `if len(token) < _MIN_TOKEN_LEN or token[0] != version: raise SealError`")
    want_nonce = E("token[_VERSION_LEN : _VERSION_LEN + _NONCE_LEN]")
    want_body = E("token[_VERSION_LEN + _NONCE_LEN :]")
    want_ret = E("_open(body, normalize_key(key), aad, nonce)")
    if not (isinstance(b[1], ast.Assign) and ast.dump(b[1].value) == want_nonce and isinstance(b[2], ast.Assign) and ast.dump(b[2].value) == want_body and isinstance(b[3], ast.Return) and b[3].value is not None and ast.dump(b[3].value) == want_ret):
        raise TranslationBroken(site, "nonce/body slicing or the _open call changed")
    # seal_bytes: struct.pack("B", version) + nonce + _seal(payload, normalize_key(key), aad, nonce)
    site_s = f"{path}:seal_bytes"
    fs = _func(tree, "seal_bytes", site_s)
    ret = _body(fs)[-1]
    if not (isinstance(ret, ast.Return) and ret.value is not None):
        raise TranslationBroken(site_s, "no return")
    items = _flatten(ret.value)
    want_seal = E("_seal(payload, normalize_key(key), aad, nonce)")
    if not (len(items) == 3 and _is_struct_pack(items[0]) is not None and _is_struct_pack(items[0])[0] == "B" and isinstance(items[1], ast.Name) and items[1].id == "nonce" and ast.dump(items[2]) == want_seal):  # type: ignore[index]
        raise TranslationBroken(site_s, "envelope is not struct.pack('B', version) + nonce + _seal(payload, normalize_key(key), aad, nonce)")
    nonce = _find_assign(fs, "nonce", site_s)
    if ast.dump(nonce) != E("os.urandom(_NONCE_LEN)"):
        raise TranslationBroken(site_s, "nonce is not os.urandom(_NONCE_LEN)")
    # normalize_key: if len(key) == _KEY_LEN: return key ; return hashlib.sha256(key).digest()
    site_n = f"{path}:normalize_key"
    nb = _body(_func(tree, "normalize_key", site_n))
    want_nk = E("len(key) == _KEY_LEN")
    ok_nk = (
        len(nb) == 2
        and isinstance(nb[0], ast.If)
        and not nb[0].orelse
        and ast.dump(nb[0].test) == want_nk
        and len(nb[0].body) == 1
        and isinstance(nb[0].body[0], ast.Return)
        and nb[0].body[0].value is not None
        and ast.dump(nb[0].body[0].value) == E("key")
        and isinstance(nb[1], ast.Return)
        and nb[1].value is not None
        and ast.dump(nb[1].value) == E("hashlib.sha256(key).digest()")
    )
    if not ok_nk:
        raise TranslationBroken(site_n, "normalize_key is not `if len(key) == _KEY_LEN: return key; return hashlib.sha256(key).digest()`")
    return "".join(f"Definition gen_crypto{k} : N := {env[k]}.\n" for k in ("_KEY_LEN", "_NONCE_LEN", "_TAG_LEN", "_VERSION_LEN", "_MIN_TOKEN_LEN"))


def unpack_facts(tree: ast.Module, path: Path) -> str:
    """_unpack_plaintext: empty -> reject; tag raw -> body; tag != zstd -> reject; else bounded decompress."""
    site = f"{path}:_unpack_plaintext"
    consts = module_bytes(tree)
    for k in ("_CODEC_RAW", "_CODEC_ZSTD"):
        if k not in consts or len(consts[k]) != 1:
            raise TranslationBroken(site, f"{k} is not a one-byte literal")
    fn = _func(tree, "_unpack_plaintext", site)
    b = _body(fn)
    shape = [type(s).__name__ for s in b]
    if shape != ["If", "Assign", "If", "If", "Try"]:
        raise TranslationBroken(site, f"statement shape changed: {shape}")
    if ast.dump(b[0].test) != E("not data"):  # type: ignore[attr-defined]
        raise TranslationBroken(site, "first guard is not `if not data`")
    if ast.dump(b[2].test) != E("tag == _CODEC_RAW"):  # type: ignore[attr-defined]
        raise TranslationBroken(site, "second guard is not `if tag == _CODEC_RAW`")
    if ast.dump(b[3].test) != E("tag != _CODEC_ZSTD"):  # type: ignore[attr-defined]
        raise TranslationBroken(site, "third guard is not `if tag != _CODEC_ZSTD`")
    return f"Definition gen_codec_raw : N := {consts['_CODEC_RAW'][0]}.\nDefinition gen_codec_zstd : N := {consts['_CODEC_ZSTD'][0]}.\n"


def generate(repo: Path) -> str:
    p_tok = repo / "vgi_rpc" / "http" / "server" / "_state_token.py"
    p_app = repo / "vgi_rpc" / "http" / "server" / "_app_stream.py"
    p_cry = repo / "vgi_rpc" / "crypto.py"
    t_tok, t_app, t_cry = _parse(p_tok), _parse(p_app), _parse(p_cry)
    env = module_ints(t_tok, str(p_tok))
    out = [
        "From Coq Require Import List NArith.\nFrom VGI Require Import Bytes Layout.\nImport ListNotations.\nOpen Scope N_scope.\n",
    ]
    for k in ("_HEADER_LEN", "_CURSOR_TOKEN_VERSION", "_CALL_TOKEN_VERSION", "_TIMESTAMP_LEN", "_CALL_ID_LEN", "_MIN_CURSOR_PLAINTEXT_LEN", "_MAX_TOKEN_PLAINTEXT_BYTES"):
        if k not in env:
            raise TranslationBroken(str(p_tok), f"constant {k} not found")
        out.append(f"Definition gen{k} : N := {env[k]}.\n")
    out.append(aad_layouts(t_tok, "_compute_aad", "cursor_aad", p_tok))
    out.append(aad_layouts(t_tok, "_compute_call_aad", "call_aad", p_tok))
    out.append(plaintext_layout(t_tok, "_seal_cursor_token", "cursor", env, p_tok, "_CURSOR_TOKEN_VERSION"))
    out.append(plaintext_layout(t_tok, "_seal_call_token", "call", env, p_tok, "_CALL_TOKEN_VERSION"))
    s1, c1 = open_facts(t_tok, "_open_cursor_token", "cursor", "_CURSOR_TOKEN_VERSION", env, p_tok)
    s2, c2 = open_facts(t_tok, "_open_call_token", "call", "_CALL_TOKEN_VERSION", env, p_tok)
    if c1 != c2:
        raise TranslationBroken(str(p_tok), "cursor and call tokens decode their armour differently")
    out += [s1, s2, f"Definition gen_b64_canonical : bool := {'true' if c1 else 'false'}.\n"]
    out.append(unpack_facts(t_tok, p_tok))
    out.append(crypto_facts(t_cry, p_cry))
    mint_facts(t_tok, p_tok)
    call_site_facts(t_app, p_app)
    fn_tok = ["_unpack_plaintext", "_open_call_token", "_read_segment", "_open_cursor_token"] + (["_decode_token"] if c1 else [])
    sites = raise_sites(t_tok, [f for f in fn_tok if f != "_decode_token"], p_tok)
    sites += raise_sites(t_app, ["_unpack_and_recover_state", "_resolve_call_from_token"], p_app)
    # "Missing state token" site of _run_stream_exchange_sync
    fn_ex = _func(t_app, "_run_stream_exchange_sync", str(p_app))
    for n in ast.walk(fn_ex):
        if isinstance(n, ast.Raise) and isinstance(n.exc, ast.Call) and n.exc.args and isinstance(n.exc.args[0], ast.Call):
            a = n.exc.args[0].args
            if a and isinstance(a[0], ast.Constant) and isinstance(a[0].value, str) and "state token" in a[0].value:
                sc = _kw(n.exc, "status_code")
                if not (isinstance(sc, ast.Attribute) and sc.attr in _STATUS):
                    raise TranslationBroken(str(p_app), "status of the missing-token site")
                sites.append((a[0].value, _STATUS[sc.attr]))
    msgs = sorted({m for m, _ in sites if m is not None and "{}" not in m})
    out.append("(* messages of the token layer's raise sites (constant ones), sorted *)\n")
    out.append("Definition gen_messages : list bytes := [\n  " + ";\n  ".join(cbytes(m.encode()) for m in msgs) + "].\n")
    out.append("(* " + " | ".join(msgs) + " *)\n")
    out.append("Definition gen_raise_statuses : list N := [" + "; ".join(str(s) for _, s in sites) + "].\n")
    return "".join(out)
