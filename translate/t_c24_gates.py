"""Fail-closed translator for property C24: the gate-composition code -> Coq data of model/M_Gates.v.

Reads (never imports) ``vgi_rpc/http/_bearer.py``, ``vgi_rpc/http/_proof.py`` and
``vgi_rpc/http/_unauthorized.py`` and emits ``coq/gen/G_Gates.v`` with

  gen_ra_body            require_all's closure ``authenticate`` as a ``list stmt`` program
  gen_ra_ctor_guard      whether require_all refuses a non-PreconditionGate with TypeError
  gen_chain_guards       chain_authenticate's constructor guards, in source order
  gen_chain_swallows     exception classes the chain's ``except`` clause swallows
  gen_off_guard          proxy_proof_gate's mode == "off" constructor guard, as ``mode -> bool``
  gen_required           the ``required = config.mode == "require"`` expression, as ``mode -> bool``
  gen_gate_pre           header pre-checks of the closure ``gate`` (test, reason), in source order
  gen_fail_claims        the dict the gate returns for an unverified request when not required
  gen_proof_error_bases / gen_auth_failure_bases   base classes of ProofError / AuthFailure
  gen_gate_name / gen_claims_key                   GATE_NAME / CLAIMS_KEY as code-point lists

Every shape that is not explicitly recognised raises TranslationBroken: the generated file then has
no definitions and tie/T_Gates.v stops compiling.
"""
from __future__ import annotations

import ast
from pathlib import Path

from vlib.core import TranslationBroken

MODES = {"off": "MOff", "allow": "MAllow", "require": "MRequire"}
REASONS = {
    "no_proof": "RNoProof", "malformed": "RMalformed", "unknown_kid": "RUnknownKid", "expired": "RExpired",
    "not_yet_valid": "RNotYetValid", "bad_mac": "RBadMac", "replayed": "RReplayed",
}
EXC = {"ValueError": "ClsValueError", "PermissionError": "ClsPermissionError", "Exception": "ClsException", "BaseException": "ClsException"}


def _parse(path: Path) -> ast.Module:
    try:
        return ast.parse(path.read_text())
    except (OSError, SyntaxError) as e:
        raise TranslationBroken(str(path), f"cannot parse: {e}") from e


def _func(tree: ast.AST, name: str, site: str) -> ast.FunctionDef:
    body = tree.body if isinstance(tree, (ast.Module, ast.FunctionDef, ast.ClassDef)) else []
    found = [n for n in body if isinstance(n, ast.FunctionDef) and n.name == name]
    if len(found) != 1:
        raise TranslationBroken(site, f"expected exactly one def {name}, found {len(found)}")
    return found[0]


def _strip_doc(body: list[ast.stmt]) -> list[ast.stmt]:
    if body and isinstance(body[0], ast.Expr) and isinstance(body[0].value, ast.Constant) and isinstance(body[0].value.value, str):
        return body[1:]
    return body


def _is_name(n: ast.AST, ident: str) -> bool:
    return isinstance(n, ast.Name) and n.id == ident


def _is_attr(n: ast.AST, base: str, attr: str) -> bool:
    return isinstance(n, ast.Attribute) and n.attr == attr and _is_name(n.value, base)


def _raised_class(st: ast.stmt, site: str) -> tuple[str, list[ast.expr]]:
    if not (isinstance(st, ast.Raise) and st.exc is not None):
        raise TranslationBroken(site, f"expected a raise, got {ast.dump(st)[:80]}")
    exc = st.exc
    if isinstance(exc, ast.Call) and isinstance(exc.func, ast.Name):
        return exc.func.id, list(exc.args)
    if isinstance(exc, ast.Name):
        return exc.id, []
    raise TranslationBroken(site, f"unsupported raise {ast.dump(exc)[:80]}")


def _isinstance_gate(n: ast.AST, var: str) -> bool:
    return (
        isinstance(n, ast.Call) and _is_name(n.func, "isinstance") and len(n.args) == 2 and not n.keywords
        and _is_name(n.args[0], var) and _is_name(n.args[1], "PreconditionGate")
    )


# --------------------------------------------------------------------------- require_all
class _RA:
    def __init__(self, site: str, gate: str, inner: str, req: str):
        self.site, self.gate, self.inner, self.req = site, gate, inner, req
        self.claims: str | None = None
        self.ctx: str | None = None

    def _call_of(self, n: ast.AST, fn: str) -> bool:
        return isinstance(n, ast.Call) and _is_name(n.func, fn) and len(n.args) == 1 and not n.keywords and _is_name(n.args[0], self.req)

    def cond(self, n: ast.expr) -> str:
        if isinstance(n, ast.UnaryOp) and isinstance(n.op, ast.Not):
            return f"(CNot {self.cond(n.operand)})"
        if isinstance(n, ast.Compare) and len(n.ops) == 1 and len(n.comparators) == 1:
            op, left, right = n.ops[0], n.left, n.comparators[0]
            if _is_name(left, self.inner) and isinstance(right, ast.Constant) and right.value is None:
                if isinstance(op, ast.Is):
                    return "CInnerNone"
                if isinstance(op, ast.IsNot):
                    return "(CNot CInnerNone)"
            if (
                self.claims is not None and isinstance(left, ast.Call) and _is_attr(left.func, self.claims, "get")
                and len(left.args) == 1 and not left.keywords and isinstance(left.args[0], ast.Constant) and left.args[0].value == "verified"
                and isinstance(right, ast.Constant) and right.value in ("true", "false")
            ):
                base = f"(CVerifiedIs {'VTrue' if right.value == 'true' else 'VFalse'})"
                if isinstance(op, ast.Eq):
                    return base
                if isinstance(op, ast.NotEq):
                    return f"(CNot {base})"
        raise TranslationBroken(self.site, f"unsupported condition {ast.unparse(n)[:80]}")

    def ret_mk(self, call: ast.Call) -> str:
        if call.args:
            raise TranslationBroken(self.site, "AuthContext(...) with positional arguments")
        kw = {k.arg: k.value for k in call.keywords}
        if None in kw or set(kw) - {"domain", "authenticated", "principal", "claims"} or not {"domain", "authenticated"} <= set(kw):
            raise TranslationBroken(self.site, f"unsupported AuthContext keywords {sorted(map(str, kw))}")
        d = kw["domain"]
        if isinstance(d, ast.Constant) and d.value is None:
            ds = "SDNone"
        elif _is_attr(d, self.gate, "name"):
            ds = "SDGateName"
        else:
            raise TranslationBroken(self.site, f"unsupported domain {ast.unparse(d)[:60]}")
        a = kw["authenticated"]
        if not (isinstance(a, ast.Constant) and isinstance(a.value, bool)):
            raise TranslationBroken(self.site, f"authenticated is not a literal: {ast.unparse(a)[:60]}")
        p = kw.get("principal")
        if p is None or (isinstance(p, ast.Constant) and p.value is None):
            ps = "SPNone"
        elif (
            self.claims is not None and isinstance(p, ast.Call) and _is_attr(p.func, self.claims, "get") and len(p.args) == 1
            and not p.keywords and isinstance(p.args[0], ast.Constant) and p.args[0].value == "proxy"
        ):
            ps = "SPClaimsProxy"
        else:
            raise TranslationBroken(self.site, f"unsupported principal {ast.unparse(p)[:60]}")
        c = kw.get("claims")
        if c is None or (isinstance(c, ast.Dict) and not c.keys):
            cs = "SCEmpty"
        elif (
            self.claims is not None and isinstance(c, ast.Dict) and len(c.keys) == 1 and c.keys[0] is not None
            and _is_attr(c.keys[0], self.gate, "claims_key") and _is_name(c.values[0], self.claims)
        ):
            cs = "SCGateOnly"
        else:
            raise TranslationBroken(self.site, f"unsupported claims {ast.unparse(c)[:60]}")
        return f"SRetMk {ds} {'true' if a.value else 'false'} {ps} {cs}"

    def block(self, body: list[ast.stmt]) -> list[str]:
        out: list[str] = []
        i = 0
        while i < len(body):
            st = body[i]
            if isinstance(st, ast.Assign) and len(st.targets) == 1 and isinstance(st.targets[0], ast.Name):
                tgt = st.targets[0].id
                if self._call_of(st.value, self.gate):
                    self.claims = tgt
                    out.append("SCallGate")
                    i += 1
                    continue
                if self._call_of(st.value, self.inner):
                    self.ctx = tgt
                    out.append("SCallInner")
                    i += 1
                    continue
                # merged = dict(ctx.claims); merged[gate.claims_key] = claims; return dataclasses.replace(ctx, claims=merged)
                if (
                    self.ctx is not None and self.claims is not None and i + 2 < len(body) and isinstance(st.value, ast.Call)
                    and _is_name(st.value.func, "dict") and len(st.value.args) == 1 and not st.value.keywords
                    and _is_attr(st.value.args[0], self.ctx, "claims")
                ):
                    s2, s3 = body[i + 1], body[i + 2]
                    ok2 = (
                        isinstance(s2, ast.Assign) and len(s2.targets) == 1 and isinstance(s2.targets[0], ast.Subscript)
                        and _is_name(s2.targets[0].value, tgt) and _is_attr(s2.targets[0].slice, self.gate, "claims_key")
                        and _is_name(s2.value, self.claims)
                    )
                    ok3 = (
                        isinstance(s3, ast.Return) and isinstance(s3.value, ast.Call)
                        and (_is_attr(s3.value.func, "dataclasses", "replace") or _is_name(s3.value.func, "replace"))
                        and len(s3.value.args) == 1 and _is_name(s3.value.args[0], self.ctx)
                        and len(s3.value.keywords) == 1 and s3.value.keywords[0].arg == "claims" and _is_name(s3.value.keywords[0].value, tgt)
                    )
                    if ok2 and ok3:
                        out.append("SRetMerged")
                        i += 3
                        continue
                raise TranslationBroken(self.site, f"unsupported assignment {ast.unparse(st)[:80]}")
            if isinstance(st, ast.If):
                if st.orelse:
                    raise TranslationBroken(self.site, "if/else is outside the accepted shape")
                c = self.cond(st.test)
                inner = self.block(st.body)
                out.append(f"SIf {c} [{'; '.join(inner)}]")
                i += 1
                continue
            if isinstance(st, ast.Return) and isinstance(st.value, ast.Call) and _is_name(st.value.func, "AuthContext"):
                out.append(self.ret_mk(st.value))
                i += 1
                continue
            raise TranslationBroken(self.site, f"unsupported statement {ast.unparse(st)[:80]}")
        return out


def _require_all(tree: ast.Module, site: str) -> tuple[str, str]:
    fn = _func(tree, "require_all", site)
    names = [a.arg for a in fn.args.args]
    if len(names) != 2 or fn.args.vararg or fn.args.kwarg or fn.args.kwonlyargs:
        raise TranslationBroken(site, f"unexpected signature {names}")
    gate, inner = names
    body = _strip_doc(fn.body)
    guard = False
    closure: ast.FunctionDef | None = None
    returned: str | None = None
    for st in body:
        if isinstance(st, ast.If) and closure is None:
            t = st.test
            if isinstance(t, ast.UnaryOp) and isinstance(t.op, ast.Not) and _isinstance_gate(t.operand, gate) and not st.orelse and len(st.body) == 1:
                cls, _ = _raised_class(st.body[0], site)
                if cls != "TypeError":
                    raise TranslationBroken(site, f"constructor guard raises {cls}")
                guard = True
                continue
            raise TranslationBroken(site, f"unsupported constructor statement {ast.unparse(st)[:80]}")
        if isinstance(st, ast.FunctionDef) and closure is None:
            closure = st
            continue
        if isinstance(st, ast.Expr) and isinstance(st.value, ast.Call) and _is_name(st.value.func, "declare_proxy_headers") and closure is not None:
            if not (st.value.args and _is_name(st.value.args[0], closure.name)):
                raise TranslationBroken(site, "declare_proxy_headers on something else than the closure")
            continue
        if isinstance(st, ast.Return) and closure is not None and isinstance(st.value, ast.Name):
            returned = st.value.id
            continue
        raise TranslationBroken(site, f"unsupported statement in require_all: {ast.unparse(st)[:80]}")
    if closure is None or returned != closure.name:
        raise TranslationBroken(site, "require_all does not return its closure")
    if closure.decorator_list or len(closure.args.args) != 1 or closure.args.vararg or closure.args.kwarg:
        raise TranslationBroken(site, "closure signature")
    ra = _RA(site + ":authenticate", gate, inner, closure.args.args[0].arg)
    prog = ra.block(_strip_doc(closure.body))
    return ("true" if guard else "false"), "[" + ";\n   ".join(prog) + "]"


# --------------------------------------------------------------------------- chain_authenticate
def _exc_classes(t: ast.expr | None, site: str) -> list[str]:
    if t is None:
        return ["ClsException"]
    elts = t.elts if isinstance(t, ast.Tuple) else [t]
    out = []
    for e in elts:
        if not (isinstance(e, ast.Name) and e.id in EXC):
            raise TranslationBroken(site, f"unsupported exception class {ast.unparse(e)[:60]}")
        out.append(EXC[e.id])
    return out


def _chain(tree: ast.Module, site: str) -> tuple[str, str]:
    fn = _func(tree, "chain_authenticate", site)
    if fn.args.args or fn.args.vararg is None or fn.args.kwarg or fn.args.kwonlyargs:
        raise TranslationBroken(site, "unexpected signature")
    auths = fn.args.vararg.arg
    guards: list[str] = []
    closure: ast.FunctionDef | None = None
    returned = None
    for st in _strip_doc(fn.body):
        if closure is None and isinstance(st, ast.If):
            t = st.test
            if isinstance(t, ast.UnaryOp) and isinstance(t.op, ast.Not) and _is_name(t.operand, auths) and not st.orelse and len(st.body) == 1:
                cls, _ = _raised_class(st.body[0], site)
                if cls != "ValueError":
                    raise TranslationBroken(site, f"empty-chain guard raises {cls}")
                guards.append("GEmptyValueError")
                continue
            raise TranslationBroken(site, f"unsupported constructor guard {ast.unparse(st)[:80]}")
        if closure is None and isinstance(st, ast.For):
            ok = (
                isinstance(st.target, ast.Name) and _is_name(st.iter, auths) and not st.orelse and len(st.body) == 1
                and isinstance(st.body[0], ast.If) and not st.body[0].orelse and len(st.body[0].body) == 1
                and _isinstance_gate(st.body[0].test, st.target.id)
            )
            if not ok:
                raise TranslationBroken(site, f"unsupported constructor loop {ast.unparse(st)[:80]}")
            cls, _ = _raised_class(st.body[0].body[0], site)
            if cls != "TypeError":
                raise TranslationBroken(site, f"gate guard raises {cls}")
            guards.append("GAnyGateTypeError")
            continue
        if closure is None and isinstance(st, ast.FunctionDef):
            closure = st
            continue
        if closure is not None and isinstance(st, ast.Expr) and isinstance(st.value, ast.Call) and _is_name(st.value.func, "declare_proxy_headers"):
            continue
        if closure is not None and isinstance(st, ast.Return) and isinstance(st.value, ast.Name):
            returned = st.value.id
            continue
        raise TranslationBroken(site, f"unsupported statement in chain_authenticate: {ast.unparse(st)[:80]}")
    if closure is None or returned != closure.name:
        raise TranslationBroken(site, "chain_authenticate does not return its closure")
    req = closure.args.args[0].arg if len(closure.args.args) == 1 else None
    if req is None:
        raise TranslationBroken(site, "closure signature")
    loops = [s for s in closure.body if isinstance(s, ast.For)]
    if len(loops) != 1 or not _is_name(loops[0].iter, auths) or not isinstance(loops[0].target, ast.Name) or loops[0].orelse:
        raise TranslationBroken(site, "closure must have exactly one loop over the authenticators")
    loop = loops[0]
    var = loop.target.id
    if len(loop.body) != 1 or not isinstance(loop.body[0], ast.Try):
        raise TranslationBroken(site, "loop body must be a single try")
    tr = loop.body[0]
    if tr.orelse or tr.finalbody or len(tr.body) != 1:
        raise TranslationBroken(site, "unexpected try shape")
    r = tr.body[0]
    if not (isinstance(r, ast.Return) and isinstance(r.value, ast.Call) and _is_name(r.value.func, var) and len(r.value.args) == 1 and _is_name(r.value.args[0], req) and not r.value.keywords):
        raise TranslationBroken(site, "try body must be `return auth_fn(req)`")
    sw: list[str] = []
    for h in tr.handlers:
        for node in ast.walk(ast.Module(body=h.body, type_ignores=[])):
            if isinstance(node, (ast.Return, ast.Raise, ast.Break)):
                raise TranslationBroken(site, "handler leaves the loop")
        sw += _exc_classes(h.type, site)
    # after the loop: only a raise of AuthFailure may end the closure; nothing may return a context
    after = closure.body[closure.body.index(loop) + 1 :]
    for node in ast.walk(ast.Module(body=after, type_ignores=[])):
        if isinstance(node, ast.Return):
            raise TranslationBroken(site, "closure returns after the loop")
    if not after or not isinstance(after[-1], ast.Raise):
        raise TranslationBroken(site, "closure does not end with a raise")
    cls, _ = _raised_class(after[-1], site)
    if cls != "AuthFailure":
        raise TranslationBroken(site, f"chain exhaustion raises {cls}")
    before = closure.body[: closure.body.index(loop)]
    for node in ast.walk(ast.Module(body=before, type_ignores=[])):
        if isinstance(node, (ast.Return, ast.Raise, ast.Call)):
            raise TranslationBroken(site, "closure does something before the loop")
    return "[" + "; ".join(guards) + "]", "[" + "; ".join(sw) + "]"


# --------------------------------------------------------------------------- proxy_proof_gate
def _mode_pred(n: ast.expr, cfg: str, site: str) -> str:
    """An expression over ``config.mode`` -> Coq ``mode -> bool`` body in the variable m."""
    if isinstance(n, ast.UnaryOp) and isinstance(n.op, ast.Not):
        return f"negb ({_mode_pred(n.operand, cfg, site)})"
    if isinstance(n, ast.BoolOp):
        parts = [_mode_pred(v, cfg, site) for v in n.values]
        op = " && " if isinstance(n.op, ast.And) else " || "
        return "(" + op.join(f"({p})" for p in parts) + ")"
    if isinstance(n, ast.Compare) and len(n.ops) == 1 and _is_attr(n.left, cfg, "mode"):
        op, right = n.ops[0], n.comparators[0]
        if isinstance(right, ast.Constant) and right.value in MODES:
            if isinstance(op, ast.Eq):
                return f"mode_eqb m {MODES[right.value]}"
            if isinstance(op, ast.NotEq):
                return f"negb (mode_eqb m {MODES[right.value]})"
        if isinstance(right, (ast.Tuple, ast.List, ast.Set)) and all(isinstance(e, ast.Constant) and e.value in MODES for e in right.elts):
            body = "(" + " || ".join(["false"] + [f"mode_eqb m {MODES[e.value]}" for e in right.elts]) + ")"  # type: ignore[attr-defined]
            if isinstance(op, ast.In):
                return body
            if isinstance(op, ast.NotIn):
                return f"negb {body}"
    raise TranslationBroken(site, f"unsupported mode expression {ast.unparse(n)[:80]}")


def _proof_gate(tree: ast.Module, site: str) -> dict[str, str]:
    fn = _func(tree, "proxy_proof_gate", site)
    if not fn.args.args:
        raise TranslationBroken(site, "signature")
    cfg = fn.args.args[0].arg
    body = _strip_doc(fn.body)
    off_guard = "false"
    required_expr: dict[str, str] = {}
    closure: ast.FunctionDef | None = None
    for st in body:
        if isinstance(st, ast.If) and closure is None and not st.orelse and len(st.body) == 1 and isinstance(st.body[0], ast.Raise):
            cls, _ = _raised_class(st.body[0], site)
            if cls != "ValueError":
                raise TranslationBroken(site, f"constructor guard raises {cls}")
            if off_guard != "false":
                raise TranslationBroken(site, "more than one constructor guard")
            off_guard = _mode_pred(st.test, cfg, site)
            continue
        if isinstance(st, ast.Assign) and len(st.targets) == 1 and isinstance(st.targets[0], ast.Name) and closure is None:
            name = st.targets[0].id
            try:
                required_expr[name] = _mode_pred(st.value, cfg, site)
            except TranslationBroken:
                pass  # e.g. the nonce cache; only mode predicates are of interest, and only those can be used below
            continue
        if isinstance(st, ast.FunctionDef) and closure is None:
            closure = st
            continue
        if isinstance(st, ast.Return) and closure is not None:
            v = st.value
            if not (isinstance(v, ast.Call) and _is_name(v.func, "PreconditionGate") and v.args and _is_name(v.args[0], closure.name)):
                raise TranslationBroken(site, "does not return PreconditionGate(<closure>, ...)")
            kw = {k.arg: k.value for k in v.keywords}
            if not (_is_name(kw.get("name"), "GATE_NAME") and _is_name(kw.get("claims_key"), "CLAIMS_KEY")):  # type: ignore[arg-type]
                raise TranslationBroken(site, "gate name / claims key are not GATE_NAME / CLAIMS_KEY")
            continue
        raise TranslationBroken(site, f"unsupported statement in proxy_proof_gate: {ast.unparse(st)[:80]}")
    if closure is None:
        raise TranslationBroken(site, "no gate closure")
    site_g = site + ":gate"
    cb = _strip_doc(closure.body)
    if len(cb) != 2 or not isinstance(cb[0], ast.Assign) or not isinstance(cb[1], ast.Try):
        raise TranslationBroken(site_g, "expected `raw = req.get_header(...)` followed by one try")
    a = cb[0]
    if not (len(a.targets) == 1 and isinstance(a.targets[0], ast.Name) and isinstance(a.value, ast.Call) and isinstance(a.value.func, ast.Attribute)
            and a.value.func.attr == "get_header" and len(a.value.args) == 1 and _is_name(a.value.args[0], "PROOF_HEADER") and not a.value.keywords):
        raise TranslationBroken(site_g, "header read")
    raw = a.targets[0].id
    tr = cb[1]
    if tr.orelse or tr.finalbody or len(tr.handlers) != 1:
        raise TranslationBroken(site_g, "try shape")
    pre: list[str] = []
    for st in tr.body[:-1]:
        if not (isinstance(st, ast.If) and not st.orelse and len(st.body) == 1):
            raise TranslationBroken(site_g, f"unsupported pre-check {ast.unparse(st)[:80]}")
        t = st.test
        if (isinstance(t, ast.Compare) and len(t.ops) == 1 and isinstance(t.ops[0], ast.Is) and _is_name(t.left, raw)
                and isinstance(t.comparators[0], ast.Constant) and t.comparators[0].value is None):
            test = "TNone"
        elif isinstance(t, ast.UnaryOp) and isinstance(t.op, ast.Not) and _is_name(t.operand, raw):
            test = "TFalsy"
        elif (isinstance(t, ast.Compare) and len(t.ops) == 1 and isinstance(t.ops[0], ast.In) and isinstance(t.left, ast.Constant)
              and t.left.value == "," and _is_name(t.comparators[0], raw)):
            test = "TComma"
        else:
            raise TranslationBroken(site_g, f"unsupported header test {ast.unparse(t)[:60]}")
        cls, args = _raised_class(st.body[0], site_g)
        if cls != "ProofError" or not args or not (isinstance(args[0], ast.Constant) and args[0].value in REASONS):
            raise TranslationBroken(site_g, "pre-check does not raise ProofError(<reason literal>, ...)")
        pre.append(f"({test}, {REASONS[args[0].value]})")
    last = tr.body[-1]
    if not (isinstance(last, ast.Return) and isinstance(last.value, ast.Call) and _is_name(last.value.func, "verify_proof")
            and len(last.value.args) == 1 and _is_name(last.value.args[0], raw)):
        raise TranslationBroken(site_g, "try does not end in `return verify_proof(raw, ...)`")
    h = tr.handlers[0]
    if not (_is_name(h.type, "ProofError") and h.name):  # type: ignore[arg-type]
        raise TranslationBroken(site_g, "handler is not `except ProofError as <name>`")
    exc = h.name
    hb = [s for s in h.body if not (isinstance(s, ast.Expr) and isinstance(s.value, ast.Call) and isinstance(s.value.func, ast.Attribute)
                                    and _is_name(s.value.func.value, "_logger"))]
    if len(hb) != 2 or not isinstance(hb[0], ast.If) or hb[0].orelse or len(hb[0].body) != 1 or not isinstance(hb[1], ast.Return):
        raise TranslationBroken(site_g, "handler is not `if <required>: raise ...; return {...}`")
    t = hb[0].test
    if isinstance(t, ast.Name) and t.id in required_expr:
        required = required_expr[t.id]
    else:
        required = _mode_pred(t, cfg, site_g)
    cls, args = _raised_class(hb[0].body[0], site_g)
    if cls != "ProofError" or not args or not _is_attr(args[0], exc, "reason"):
        raise TranslationBroken(site_g, "required branch does not raise ProofError(exc.reason, ...)")
    d = hb[1].value
    if not isinstance(d, ast.Dict) or any(k is None or not isinstance(k, ast.Constant) for k in d.keys):
        raise TranslationBroken(site_g, "allow branch does not return a dict literal")
    items = {k.value: v for k, v in zip(d.keys, d.values)}  # type: ignore[union-attr]
    if set(items) - {"verified", "proxy", "kid", "origin_id", "reason"}:
        raise TranslationBroken(site_g, f"unexpected claim keys {sorted(items)}")

    def const(key: str) -> object:
        v = items.get(key)
        if v is None:
            return None
        if not isinstance(v, ast.Constant) or not isinstance(v.value, str):
            raise TranslationBroken(site_g, f"claim {key} is not a string literal")
        return v.value

    ver = const("verified")
    verified = {"true": "VTrue", "false": "VFalse"}.get(ver, "VOther")  # type: ignore[arg-type]
    px = const("proxy")
    if px is None:
        proxy = "PxNone"
    elif px == "":
        proxy = "PxEmpty"
    else:
        raise TranslationBroken(site_g, "allow branch attributes a proxy label")
    kid = const("kid")
    if kid not in (None, ""):
        raise TranslationBroken(site_g, "allow branch attributes a kid")
    if "origin_id" in items and not _is_attr(items["origin_id"], cfg, "origin_id"):
        raise TranslationBroken(site_g, "origin_id claim is not config.origin_id")
    rs = items.get("reason")
    if rs is not None and _is_attr(rs, exc, "reason"):
        reason = "Some r"
    elif isinstance(rs, ast.Constant) and rs.value == "ok":
        reason = "None"
    else:
        raise TranslationBroken(site_g, "reason claim is not exc.reason")
    return {
        "off_guard": off_guard, "required": required, "pre": "[" + "; ".join(pre) + "]",
        "fail_claims": f"{{| gc_verified := {verified}; gc_proxy := {proxy}; gc_kid := false; gc_reason := {reason} |}}",
    }


def _bases(tree: ast.Module, cls: str, site: str) -> str:
    found = [n for n in tree.body if isinstance(n, ast.ClassDef) and n.name == cls]
    if len(found) != 1:
        raise TranslationBroken(site, f"class {cls} not found")
    return "[" + "; ".join(_exc_classes(ast.Tuple(elts=found[0].bases), site + ":" + cls)) + "]"


def _str_const(tree: ast.Module, name: str, site: str) -> str:
    for n in tree.body:
        if isinstance(n, ast.Assign) and len(n.targets) == 1 and _is_name(n.targets[0], name):
            if isinstance(n.value, ast.Constant) and isinstance(n.value.value, str):
                return "[" + ";".join(str(ord(c)) for c in n.value.value) + "]"
    raise TranslationBroken(site, f"{name} is not a module-level string literal")


def generate(repo: Path) -> str:
    bearer = repo / "vgi_rpc" / "http" / "_bearer.py"
    proof = repo / "vgi_rpc" / "http" / "_proof.py"
    unauth = repo / "vgi_rpc" / "http" / "_unauthorized.py"
    tb, tp, tu = _parse(bearer), _parse(proof), _parse(unauth)
    guard, ra_body = _require_all(tb, "_bearer.py:require_all")
    cguards, swallows = _chain(tb, "_bearer.py:chain_authenticate")
    g = _proof_gate(tp, "_proof.py:proxy_proof_gate")
    return "\n".join([
        "From Coq Require Import List NArith Bool.",
        "From VGI Require Import M_Gates.",
        "Import ListNotations.",
        "Open Scope N_scope.",
        f"Definition gen_gate_name : list N := {_str_const(tp, 'GATE_NAME', '_proof.py')}.",
        f"Definition gen_claims_key : list N := {_str_const(tp, 'CLAIMS_KEY', '_proof.py')}.",
        f"Definition gen_proof_error_bases : list excclass := {_bases(tp, 'ProofError', '_proof.py')}.",
        f"Definition gen_auth_failure_bases : list excclass := {_bases(tu, 'AuthFailure', '_unauthorized.py')}.",
        f"Definition gen_off_guard (m : mode) : bool := {g['off_guard']}.",
        f"Definition gen_required (m : mode) : bool := {g['required']}.",
        f"Definition gen_gate_pre : list (hdrtest * preason) := {g['pre']}.",
        f"Definition gen_fail_claims (r : preason) : gclaims := {g['fail_claims']}.",
        f"Definition gen_ra_ctor_guard : bool := {guard}.",
        f"Definition gen_ra_body : list stmt :=\n  {ra_body}.",
        f"Definition gen_chain_guards : list cguard := {cguards}.",
        f"Definition gen_chain_swallows : list excclass := {swallows}.",
        "",
    ])
