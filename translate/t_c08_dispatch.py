"""Fail-closed translator for C08: the source material of the client's log dispatch -> coq/gen/G_WireLog.v.

Emits ``gen_shape : shape`` (see coq/model/M_WireLog.v):
  sh_levels         the members of ``vgi_rpc.log.Level`` (value string -> member), in source order
  sh_reserved       the positional parameter names of ``Message.__init__`` (a ``**kwargs`` catch-all is required)
  sh_suppressed     the classes of the ``contextlib.suppress(...)`` around ``json.loads(raw_extra.decode())``
  sh_requires_dict  whether the parsed value is used only ``if isinstance(parsed_extra, dict)``
  sh_ctor_kwargs    whether the extras are splatted into the constructor (``Message(..., **extra)``)
  sh_level_guard    whether ``Level(level_str)`` sits in ``try ... except ValueError: return True``
and ``gen_log_keys`` (the three metadata keys).

``_dispatch_log_or_error`` is read statement by statement (debug-logging ``if wire_batch_logger.isEnabledFor`` blocks
removed); every statement must unparse to exactly one of the texts listed in SLOTS, in this order -- the order is what
the model's branch order was written against.  Anything else raises TranslationBroken.
"""
from __future__ import annotations

import ast
from pathlib import Path
from typing import Any

from vlib.core import TranslationBroken

LEVEL_CTOR = {"EXCEPTION": "EXC", "ERROR": "ERR", "WARN": "WARN", "INFO": "INFO", "DEBUG": "DEBUG", "TRACE": "TRACE"}
KNOWN_HANDLERS = {"JSONDecodeError", "ValueError", "RecursionError", "UnicodeDecodeError", "Exception"}


def _cstr(x: str) -> str:
    return "([" + ";".join(str(ord(c)) for c in x) + "]%N : list N)"


def _parse(path: Path) -> ast.Module:
    try:
        return ast.parse(path.read_text())
    except (OSError, SyntaxError) as e:
        raise TranslationBroken(str(path), f"cannot parse: {e}") from e


def _strip_doc(body: list[ast.stmt]) -> list[ast.stmt]:
    if body and isinstance(body[0], ast.Expr) and isinstance(body[0].value, ast.Constant) and isinstance(body[0].value.value, str):
        return body[1:]
    return body


def _is_debug_if(n: ast.stmt) -> bool:
    return isinstance(n, ast.If) and not n.orelse and ast.unparse(n.test) == "wire_batch_logger.isEnabledFor(logging.DEBUG)" and all(
        isinstance(b, ast.Expr) and isinstance(b.value, ast.Call) and ast.unparse(b.value.func) == "wire_batch_logger.debug" for b in n.body
    )


def _clean(body: list[ast.stmt]) -> list[ast.stmt]:
    out = []
    for n in body:
        if _is_debug_if(n):
            continue
        if isinstance(n, ast.If):
            n = ast.If(test=n.test, body=_clean(n.body), orelse=_clean(n.orelse))
        out.append(n)
    return out


def levels(repo: Path) -> list[tuple[str, str]]:
    site = "vgi_rpc/log.py:Level"
    tree = _parse(repo / "vgi_rpc" / "log.py")
    cls = [n for n in tree.body if isinstance(n, ast.ClassDef) and n.name == "Level"]
    if len(cls) != 1 or [ast.unparse(b) for b in cls[0].bases] != ["Enum"]:
        raise TranslationBroken(site, "class Level(Enum) not found exactly once")
    out = []
    for n in _strip_doc(cls[0].body):
        if not (isinstance(n, ast.Assign) and len(n.targets) == 1 and isinstance(n.targets[0], ast.Name) and isinstance(n.value, ast.Constant) and isinstance(n.value.value, str)):
            raise TranslationBroken(site, f"unexpected member statement: {ast.unparse(n)[:80]}")
        name = n.targets[0].id
        if name not in LEVEL_CTOR:
            raise TranslationBroken(site, f"level {name} is not one of the six levels of the model")
        out.append((n.value.value, LEVEL_CTOR[name]))
    if sorted(c for _, c in out) != sorted(LEVEL_CTOR.values()):
        raise TranslationBroken(site, "Level does not have exactly the six members of the model")
    return out


def message_params(repo: Path) -> list[str]:
    site = "vgi_rpc/log.py:Message.__init__"
    tree = _parse(repo / "vgi_rpc" / "log.py")
    cls = [n for n in tree.body if isinstance(n, ast.ClassDef) and n.name == "Message"]
    if len(cls) != 1:
        raise TranslationBroken(site, "class Message not found exactly once")
    init = [n for n in cls[0].body if isinstance(n, ast.FunctionDef) and n.name == "__init__"]
    if len(init) != 1:
        raise TranslationBroken(site, "__init__ not found exactly once")
    a = init[0].args
    if a.posonlyargs or a.vararg or a.kwonlyargs or a.defaults or a.kwarg is None:
        raise TranslationBroken(site, f"unexpected signature: {ast.unparse(a)}")
    body = [ast.unparse(x) for x in _strip_doc(init[0].body)]
    want = ["self.level = level", "self.message = message", f"self.extra: dict[str, object] | None = {a.kwarg.arg} or None"]
    if body != want:
        raise TranslationBroken(site, f"unexpected body: {body}")
    return [x.arg for x in a.args]


# every statement of _dispatch_log_or_error, in order.  A slot is a list of (text, facts) alternatives; the text
# may be a tuple of consecutive statements.
def _slots() -> list[list[tuple[tuple[str, ...], dict[str, Any]]]]:
    one = lambda t: [((t,), {})]  # noqa: E731
    return [
        one("if custom_metadata is None:\n    return False"),
        one("if batch.num_rows != 0:\n    return False"),
        one("level_bytes = custom_metadata.get(LOG_LEVEL_KEY)"),
        one("message_bytes = custom_metadata.get(LOG_MESSAGE_KEY)"),
        one("if level_bytes is None or message_bytes is None:\n    return False"),
        one("level_str = level_bytes.decode()"),
        one("message_str = message_bytes.decode()"),
        one("raw_extra_data: dict[str, object] = {}"),
        one("raw_extra = custom_metadata.get(LOG_EXTRA_KEY)"),
        [],  # the extra parse: recognised structurally (slot index 9)
        one("request_id_bytes = custom_metadata.get(REQUEST_ID_KEY)"),
        one("request_id = ''"),
        one("if request_id_bytes is not None:\n    request_id = request_id_bytes.decode()"),
        [
            (
                (
                    "if level_str == Level.EXCEPTION.value:\n    error_type = str(raw_extra_data.get('exception_type', level_str))\n"
                    "    traceback_str = str(raw_extra_data.get('traceback', ''))\n"
                    "    raise RpcError(error_type, message_str, traceback_str, request_id=request_id)",
                ),
                {},
            ),
            # since the C07 repair the error additionally carries the top-level vgi_rpc.error_kind value (decoded like the
            # ids: UTF-8 assumed; not part of C08's outcome -- RaiseRpc is type + message -- and owned by C07)
            (
                (
                    "if level_str == Level.EXCEPTION.value:\n    error_type = str(raw_extra_data.get('exception_type', level_str))\n"
                    "    traceback_str = str(raw_extra_data.get('traceback', ''))\n"
                    "    kind_bytes = custom_metadata.get(ERROR_KIND_KEY)\n"
                    "    error_kind = kind_bytes.decode() if kind_bytes is not None else None\n"
                    "    raise RpcError(error_type, message_str, traceback_str, request_id=request_id, error_kind=error_kind)",
                ),
                {},
            ),
        ],
        [
            (("extra: dict[str, str] = {k: str(v) for k, v in raw_extra_data.items()}",), {"guard": False}),
            (
                ("try:\n    level = Level(level_str)\nexcept ValueError:\n    return True", "extra: dict[str, object] = {k: str(v) for k, v in raw_extra_data.items()}"),
                {"guard": True},
            ),
        ],
        one("server_id_bytes = custom_metadata.get(SERVER_ID_KEY)"),
        one("if server_id_bytes is not None:\n    extra['server_id'] = server_id_bytes.decode()"),
        one("if request_id:\n    extra['request_id'] = request_id"),
        [
            (("msg = Message(Level(level_str), message_str, **extra)",), {"kwargs": True, "needs_guard": False}),
            (("msg = Message(level, message_str)", "msg.extra = extra or None"), {"kwargs": False, "needs_guard": True}),
        ],
        one("if on_log is not None:\n    on_log(msg)"),
        one("return True"),
    ]


def _extra_parse(n: ast.stmt, site: str) -> dict[str, Any]:
    if not (isinstance(n, ast.If) and not n.orelse and ast.unparse(n.test) == "raw_extra is not None" and len(n.body) == 1 and isinstance(n.body[0], ast.With)):
        raise TranslationBroken(site, f"extra parse: unexpected statement {ast.unparse(n)[:100]}")
    w = n.body[0]
    if len(w.items) != 1 or w.items[0].optional_vars is not None:
        raise TranslationBroken(site, "extra parse: unexpected with-items")
    call = w.items[0].context_expr
    if not (isinstance(call, ast.Call) and ast.unparse(call.func) == "contextlib.suppress" and not call.keywords and call.args):
        raise TranslationBroken(site, f"extra parse: not contextlib.suppress(...): {ast.unparse(call)[:80]}")
    classes = []
    for a in call.args:
        name = a.attr if isinstance(a, ast.Attribute) else (a.id if isinstance(a, ast.Name) else None)
        if name not in KNOWN_HANDLERS or ast.unparse(a) not in (name, "json." + name):
            raise TranslationBroken(site, f"extra parse: suppressed class outside the model's hierarchy: {ast.unparse(a)}")
        classes.append(name)
    body = [ast.unparse(b) for b in w.body]
    if body == ["raw_extra_data = json.loads(raw_extra.decode())"]:
        return {"suppressed": classes, "requires_dict": False}
    if body == ["parsed_extra = json.loads(raw_extra.decode())", "if isinstance(parsed_extra, dict):\n    raw_extra_data = parsed_extra"]:
        return {"suppressed": classes, "requires_dict": True}
    raise TranslationBroken(site, f"extra parse: unexpected body {body}")


def dispatch_shape(repo: Path) -> dict[str, Any]:
    site = "vgi_rpc/rpc/_wire.py:_dispatch_log_or_error"
    tree = _parse(repo / "vgi_rpc" / "rpc" / "_wire.py")
    fns = [n for n in tree.body if isinstance(n, ast.FunctionDef) and n.name == "_dispatch_log_or_error"]
    if len(fns) != 1:
        raise TranslationBroken(site, f"{len(fns)} definitions")
    if [a.arg for a in fns[0].args.args] != ["batch", "custom_metadata", "on_log"]:
        raise TranslationBroken(site, "unexpected parameters")
    body = _clean(_strip_doc(fns[0].body))
    facts: dict[str, Any] = {}
    i = 0
    for si, slot in enumerate(_slots()):
        if not slot:
            if i >= len(body):
                raise TranslationBroken(site, "function ends before the extra parse")
            facts.update(_extra_parse(body[i], site))
            i += 1
            continue
        for texts, f in slot:
            got = tuple(ast.unparse(b) for b in body[i : i + len(texts)])
            if got == texts:
                facts.update(f)
                i += len(texts)
                break
        else:
            shown = ast.unparse(body[i])[:160] if i < len(body) else "<end of function>"
            raise TranslationBroken(site, f"statement {si} has an unknown shape: {shown!r}")
    if i != len(body):
        raise TranslationBroken(site, f"unexpected trailing statement: {ast.unparse(body[i])[:120]!r}")
    if facts["needs_guard"] != facts["guard"]:
        raise TranslationBroken(site, "Level(level_str) is evaluated in an unexpected place")
    return facts


def log_keys(repo: Path) -> list[str]:
    site = "vgi_rpc/metadata.py"
    tree = _parse(repo / "vgi_rpc" / "metadata.py")
    vals: dict[str, bytes] = {}
    for n in tree.body:
        if isinstance(n, ast.Assign) and len(n.targets) == 1 and isinstance(n.targets[0], ast.Name) and n.targets[0].id in ("LOG_LEVEL_KEY", "LOG_MESSAGE_KEY", "LOG_EXTRA_KEY"):
            if not (isinstance(n.value, ast.Constant) and isinstance(n.value.value, bytes)):
                raise TranslationBroken(site, f"{n.targets[0].id} is not a bytes literal")
            vals[n.targets[0].id] = n.value.value
    if sorted(vals) != ["LOG_EXTRA_KEY", "LOG_LEVEL_KEY", "LOG_MESSAGE_KEY"]:
        raise TranslationBroken(site, f"log keys found: {sorted(vals)}")
    return [vals["LOG_LEVEL_KEY"].decode(), vals["LOG_MESSAGE_KEY"].decode(), vals["LOG_EXTRA_KEY"].decode()]


def module(repo: Path) -> str:
    lv = levels(repo)
    params = message_params(repo)
    f = dispatch_shape(repo)
    keys = log_keys(repo)
    b = lambda x: "true" if x else "false"  # noqa: E731
    return (
        "From Coq Require Import List NArith Bool.\nFrom VGI Require Import M_Wire M_WireLog.\nImport ListNotations.\nOpen Scope N_scope.\n"
        "Definition gen_shape : shape := {|\n"
        f"  sh_levels := [{'; '.join(f'({_cstr(v)}, {c})' for v, c in lv)}];\n"
        f"  sh_reserved := [{'; '.join(_cstr(p) for p in params)}];\n"
        f"  sh_suppressed := [{'; '.join(_cstr(c) for c in f['suppressed'])}];\n"
        f"  sh_requires_dict := {b(f['requires_dict'])};\n"
        f"  sh_ctor_kwargs := {b(f['kwargs'])};\n"
        f"  sh_level_guard := {b(f['guard'])} |}}.\n"
        f"Definition gen_log_keys : list (list N) := [{'; '.join(_cstr(k) for k in keys)}].\n"
    )
