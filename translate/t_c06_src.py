"""Fail-closed translator for C06: the request-validation code -> coq/gen/G_Validate.v (a ``cfg`` record of
coq/model/M_Validate.v plus a few shape facts).

Regenerated from the tree under test on every run:

* the order of the three validation steps (``_deserialize_params`` / ``_validate_call_signature`` /
  ``_validate_params``) inside the guarded block of ``RpcServer.serve_one``, ``_run_unary_sync`` and
  ``_run_stream_init_sync``;
* the checks of ``_validate_call_signature`` in source order (unexpected / missing / field count, then per field
  name / type / nullable), each recognised by its exact guard expression;
* the branch order and the value-type guards of ``_deserialize_value``;
* HTTP: the class tuple answered 400, the catch-all status, the ``(KeyError, ValueError) -> TypeError`` wrapper
  around deserialization, the URL-vs-metadata method check, the status a method error gets, and the status
  ``_set_http_status`` turns into ``200 + X-VGI-RPC-Error``;
* socket: the guarded block's single ``except Exception`` handler writes an error stream and returns;
* shape fingerprints (statement structure with messages erased) of ``_validate_params``, ``_deserialize_params``
  and the metadata / row-count checks of ``_read_request``;
* whether the request schema ``_validate_call_signature`` sees is recorded after or before the request batch is
  resolved from a shared-memory / external pointer.

Anything that does not have exactly the expected shape raises TranslationBroken.
"""
from __future__ import annotations

import ast
from http import HTTPStatus
from pathlib import Path
from typing import Any

from vlib.core import TranslationBroken

WIRE = "vgi_rpc/rpc/_wire.py"
SERVER = "vgi_rpc/rpc/_server.py"
UNARY = "vgi_rpc/http/server/_app_unary.py"
STREAM = "vgi_rpc/http/server/_app_stream.py"
RESPONSES = "vgi_rpc/http/server/_responses.py"

# exception class codes shared with coq/model/M_Validate.v (cTypeError ...) and props/C06.py
CLASS_CODES = {
    "TypeError": 0, "KeyError": 1, "ValueError": 2, "ArrowInvalid": 3, "StopIteration": 4, "RpcError": 5,
    "VersionError": 6, "Exception": 7, "OSError": 8, "MethodNotImplementedError": 9, "AttributeError": 10, "IPCError": 11,
}
STAGE_OF = {"_deserialize_params": "SDeser", "_validate_call_signature": "SSig", "_validate_params": "SParams"}


def _parse(repo: Path, rel: str) -> ast.Module:
    try:
        return ast.parse((repo / rel).read_text())
    except (OSError, SyntaxError) as e:
        raise TranslationBroken(rel, f"cannot parse: {e}") from e


def _func(tree: ast.AST, name: str, site: str, cls: str | None = None) -> ast.FunctionDef:
    scope: Any = tree
    if cls is not None:
        cands = [n for n in ast.walk(tree) if isinstance(n, ast.ClassDef) and n.name == cls]
        if len(cands) != 1:
            raise TranslationBroken(site, f"class {cls} not found exactly once")
        scope = cands[0]
    fs = [n for n in scope.body if isinstance(n, ast.FunctionDef) and n.name == name]
    if len(fs) != 1:
        raise TranslationBroken(site, f"function {name} not found exactly once")
    return fs[0]


def _body(f: ast.FunctionDef) -> list[ast.stmt]:
    b = list(f.body)
    if b and isinstance(b[0], ast.Expr) and isinstance(b[0].value, ast.Constant) and isinstance(b[0].value.value, str):
        b = b[1:]
    return b


def _callee(n: ast.AST) -> str | None:
    if isinstance(n, ast.Call):
        try:
            return ast.unparse(n.func)
        except Exception:  # noqa: BLE001
            return None
    return None


def _class_names(e: ast.expr | None, site: str) -> list[str]:
    if e is None:
        raise TranslationBroken(site, "bare except")
    if isinstance(e, ast.Tuple):
        return [x for el in e.elts for x in _class_names(el, site)]
    if isinstance(e, ast.Name):
        return [e.id]
    if isinstance(e, ast.Attribute) and isinstance(e.value, ast.Name) and e.value.id == "pa":
        return [e.attr]
    raise TranslationBroken(site, "unexpected exception expression " + ast.unparse(e))


def _codes(names: list[str], site: str) -> list[int]:
    out = []
    for n in names:
        if n not in CLASS_CODES:
            raise TranslationBroken(site, f"exception class {n} has no code in the model")
        out.append(CLASS_CODES[n])
    return out


class _Erase(ast.NodeTransformer):
    """Erase what does not decide behaviour: arguments of raised exceptions, logging statements."""

    def visit_Raise(self, node: ast.Raise) -> ast.AST:
        if isinstance(node.exc, ast.Call):
            node = ast.Raise(exc=ast.Call(func=node.exc.func, args=[], keywords=[]), cause=node.cause)
        return node


def _shape(stmts: list[ast.stmt]) -> str:
    mod = ast.Module(body=[_Erase().visit(s) for s in stmts], type_ignores=[])
    return ast.unparse(ast.fix_missing_locations(mod))


# ---------------------------------------------------------------------------------------------------------------
def _guarded_block(fn: ast.FunctionDef, site: str) -> tuple[ast.Try, list[str]]:
    """The try statement whose body (lexically, nested trys included) holds the three validation calls."""
    calls = [n for n in ast.walk(fn) if isinstance(n, ast.Call) and _callee(n) in STAGE_OF]
    names = [_callee(c) for c in sorted(calls, key=lambda c: (c.lineno, c.col_offset))]
    if sorted(names) != sorted(STAGE_OF):  # type: ignore[type-var]
        raise TranslationBroken(site, f"expected each validation call exactly once, found {names}")
    order = [STAGE_OF[n] for n in names]  # type: ignore[index]
    tries = [t for t in ast.walk(fn) if isinstance(t, ast.Try)]
    holding = []
    for t in tries:
        inside = [c for s in t.body for c in ast.walk(s) if isinstance(c, ast.Call) and _callee(c) in STAGE_OF]
        if len(inside) == 3:
            holding.append(t)
    if not holding:
        raise TranslationBroken(site, "the three validation calls are not inside one try body")
    # innermost such try
    holding.sort(key=lambda t: (t.lineno, t.col_offset))
    return holding[-1], order


def _check_sequential(block: ast.Try, site: str) -> None:
    """Each validation call is a plain statement of the block (or of a try nested directly in it): no loop,
    no condition decides whether it runs."""
    for s in block.body:
        for c in ast.walk(s):
            if isinstance(c, ast.Call) and _callee(c) in STAGE_OF:
                ok = (isinstance(s, ast.Expr) and s.value is c) or (
                    isinstance(s, ast.Try) and any(isinstance(b, ast.Expr) and b.value is c for b in s.body) and not s.orelse and not s.finalbody
                )
                if not ok:
                    raise TranslationBroken(site, f"{_callee(c)} is not an unconditional statement of the guarded block")


def _socket(repo: Path) -> list[str]:
    site = SERVER + ":serve_one"
    fn = _func(_parse(repo, SERVER), "serve_one", site, cls="RpcServer")
    block, order = _guarded_block(fn, site)
    _check_sequential(block, site)
    if len(block.handlers) != 1 or _class_names(block.handlers[0].type, site) != ["Exception"]:
        raise TranslationBroken(site, "validation block is not guarded by a single `except Exception`")
    h = block.handlers[0]
    writes = [c for s in h.body for c in ast.walk(s) if _callee(c) == "_write_error_stream"]
    if len(writes) != 1 or not isinstance(h.body[-1], ast.Return) or h.body[-1].value is not None:
        raise TranslationBroken(site, "handler does not write one error stream and return")
    if not (len(writes[0].args) >= 3 and ast.unparse(writes[0].args[2]) == (h.name or "")):
        raise TranslationBroken(site, "handler does not report the caught exception itself")
    return order


def _status_of(e: ast.expr, site: str) -> int:
    if isinstance(e, ast.Attribute) and isinstance(e.value, ast.Name) and e.value.id == "HTTPStatus":
        try:
            return int(HTTPStatus[e.attr])
        except KeyError as ex:
            raise TranslationBroken(site, f"unknown HTTPStatus.{e.attr}") from ex
    raise TranslationBroken(site, "status is not an HTTPStatus member: " + ast.unparse(e))


def _rpc_http_error_status(h: ast.ExceptHandler, site: str) -> int:
    if len(h.body) != 1 or not isinstance(h.body[0], ast.Raise):
        raise TranslationBroken(site, "handler is not a single raise")
    r = h.body[0]
    if not (isinstance(r.exc, ast.Call) and _callee(r.exc) == "_RpcHttpError" and len(r.exc.args) == 1 and ast.unparse(r.exc.args[0]) == h.name):
        raise TranslationBroken(site, "handler does not raise _RpcHttpError(<caught exception>, ...)")
    kws = {k.arg: k.value for k in r.exc.keywords}
    if set(kws) != {"status_code"}:
        raise TranslationBroken(site, "unexpected _RpcHttpError keywords")
    return _status_of(kws["status_code"], site)


def _http_site(repo: Path, rel: str, name: str) -> dict[str, Any]:
    site = f"{rel}:{name}"
    fn = _func(_parse(repo, rel), name, site)
    block, order = _guarded_block(fn, site)
    _check_sequential(block, site)
    if len(block.handlers) != 2:
        raise TranslationBroken(site, "expected two handlers on the request-validation block")
    h400, hother = block.handlers
    c400 = _codes(_class_names(h400.type, site), site)
    if _rpc_http_error_status(h400, site) != 400:
        raise TranslationBroken(site, "first handler is not the 400 handler")
    if _class_names(hother.type, site) != ["Exception"]:
        raise TranslationBroken(site, "second handler is not `except Exception`")
    other = _rpc_http_error_status(hother, site)
    # the block must start with _read_request and the URL check
    first = block.body[0]
    if not (isinstance(first, ast.Assign) and _callee(first.value) == "_read_request" and ast.unparse(first.targets[0]) == "(ipc_method, kwargs)"):
        raise TranslationBroken(site, "block does not start with `ipc_method, kwargs = _read_request(...)`")
    second = block.body[1]
    if not (isinstance(second, ast.If) and ast.unparse(second.test) == "ipc_method != method_name" and len(second.body) == 1
            and isinstance(second.body[0], ast.Raise) and _callee(second.body[0].exc) == "TypeError" and not second.orelse):
        raise TranslationBroken(site, "URL / metadata method check missing or changed")
    # wrapper around _deserialize_params
    wrappers = [s for s in block.body if isinstance(s, ast.Try) and any(_callee(c) == "_deserialize_params" for b in s.body for c in ast.walk(b))]
    if len(wrappers) != 1 or len(wrappers[0].handlers) != 1:
        raise TranslationBroken(site, "expected one single-handler try around _deserialize_params")
    wh = wrappers[0].handlers[0]
    conv = _codes(_class_names(wh.type, site), site)
    if not (len(wh.body) == 1 and isinstance(wh.body[0], ast.Raise) and ast.unparse(wh.body[0].exc) == f"TypeError(str({wh.name}))"):
        raise TranslationBroken(site, "deserialization wrapper does not re-raise TypeError(str(exc))")
    if len(wrappers[0].body) != 1:
        raise TranslationBroken(site, "deserialization wrapper guards more than _deserialize_params")
    # the implementation call and its handler
    impl_calls = [c for c in ast.walk(fn) if isinstance(c, ast.Call) and isinstance(c.func, ast.Call) and _callee(c.func) == "getattr"
                  and ast.unparse(c.func.args[0]) == "app._server.implementation" and ast.unparse(c.func.args[1]) == "method_name"]
    if len(impl_calls) != 1 or impl_calls[0].lineno <= block.end_lineno:  # type: ignore[operator]
        raise TranslationBroken(site, "implementation call not found exactly once after the validation block")
    call = impl_calls[0]
    tries = [t for t in ast.walk(fn) if isinstance(t, ast.Try) and any(c is call for b in t.body for c in ast.walk(b))]
    tries.sort(key=lambda t: (t.lineno, t.col_offset))
    inner = next((t for t in reversed(tries) if t.handlers), None)
    if inner is None or len(inner.handlers) != 1 or _class_names(inner.handlers[0].type, site) != ["Exception"]:
        raise TranslationBroken(site, "implementation call is not guarded by a single `except Exception`")
    statuses = [_status_of(s.value, site) for s in ast.walk(inner.handlers[0]) if isinstance(s, ast.Assign)
                and ast.unparse(s.targets[0]) in ("http_status", "outcome.http_status")]
    if len(statuses) != 1:
        raise TranslationBroken(site, "method-error handler does not set exactly one http status")
    return {"order": order, "c400": c400, "other": other, "conv": conv, "method_error": statuses[0]}


def _set_http_status(repo: Path) -> int:
    site = RESPONSES + ":_set_http_status"
    fn = _func(_parse(repo, RESPONSES), "_set_http_status", site)
    b = _body(fn)
    if len(b) != 1 or not isinstance(b[0], ast.If):
        raise TranslationBroken(site, "expected a single if/else")
    i = b[0]
    t = i.test
    if not (isinstance(t, ast.Compare) and ast.unparse(t.left) == "status_code" and len(t.ops) == 1 and isinstance(t.ops[0], ast.Eq)):
        raise TranslationBroken(site, "unexpected test " + ast.unparse(t))
    st = _status_of(t.comparators[0], site)
    if _shape(i.body) != "resp.status = '200'\nresp.set_header(RPC_ERROR_HEADER, 'true')":
        raise TranslationBroken(site, "marker branch changed: " + _shape(i.body))
    if _shape(i.orelse) != "resp.status = str(status_code.value)":
        raise TranslationBroken(site, "pass-through branch changed: " + _shape(i.orelse))
    return st


def _raises_typeerror(body: list[ast.stmt], site: str) -> None:
    if not (len(body) == 1 and isinstance(body[0], ast.Raise) and _callee(body[0].exc) == "TypeError"):
        raise TranslationBroken(site, "check does not raise TypeError")


PRE_ASSIGN = {
    "unexpected": ("sorted(set(kwargs) - set(param_types) - {'ctx'})", "PUnexpected"),
    "missing": ("sorted(set(param_types) - set(kwargs) - set(param_defaults))", "PMissing"),
}
FIELD_TESTS = {"field.name != declared.name": "FName", "field.type != declared.type": "FType", "field.nullable != declared.nullable": "FNullable"}


def _validate_call_signature(repo: Path) -> tuple[list[str], list[str]]:
    site = WIRE + ":_validate_call_signature"
    fn = _func(_parse(repo, WIRE), "_validate_call_signature", site)
    if [a.arg for a in fn.args.args] != ["method_name", "kwargs", "param_types", "param_defaults", "params_schema"]:
        raise TranslationBroken(site, "parameter list changed")
    pre: list[str] = []
    fchecks: list[str] = []
    b = _body(fn)
    i = 0
    seen_schema = False
    seen_loop = False
    while i < len(b):
        s = b[i]
        if seen_loop:
            raise TranslationBroken(site, "statement after the field loop: " + ast.unparse(s)[:60])
        if isinstance(s, ast.Assign) and len(s.targets) == 1 and isinstance(s.targets[0], ast.Name):
            var = s.targets[0].id
            if var in PRE_ASSIGN:
                expr, tok = PRE_ASSIGN[var]
                if ast.unparse(s.value) != expr:
                    raise TranslationBroken(site, f"{var} computed as {ast.unparse(s.value)}")
                nxt = b[i + 1] if i + 1 < len(b) else None
                if not (isinstance(nxt, ast.If) and ast.unparse(nxt.test) == var and not nxt.orelse):
                    raise TranslationBroken(site, f"`if {var}:` does not follow its assignment")
                _raises_typeerror(nxt.body, site)
                if seen_schema:
                    raise TranslationBroken(site, "name-set check placed after the schema lookup")
                pre.append(tok)
                i += 2
                continue
            if var == "request_schema":
                if ast.unparse(s.value) != "_current_request_param_schema.get()":
                    raise TranslationBroken(site, "request_schema read from " + ast.unparse(s.value))
                nxt = b[i + 1] if i + 1 < len(b) else None
                if not (isinstance(nxt, ast.If) and ast.unparse(nxt.test) == "request_schema is None" and len(nxt.body) == 1
                        and isinstance(nxt.body[0], ast.Return) and nxt.body[0].value is None and not nxt.orelse):
                    raise TranslationBroken(site, "`if request_schema is None: return` does not follow")
                seen_schema = True
                i += 2
                continue
            raise TranslationBroken(site, "unexpected assignment to " + var)
        if isinstance(s, ast.If):
            if ast.unparse(s.test) == "len(request_schema) != len(params_schema)" and seen_schema and not s.orelse:
                _raises_typeerror(s.body, site)
                pre.append("PCount")
                i += 1
                continue
            raise TranslationBroken(site, "unexpected check " + ast.unparse(s.test))
        if isinstance(s, ast.For):
            if not seen_schema:
                raise TranslationBroken(site, "field loop before the schema lookup")
            if ast.unparse(s.target) != "(index, (field, declared))" or ast.unparse(s.iter) != "enumerate(zip(request_schema, params_schema, strict=True))" or s.orelse:
                raise TranslationBroken(site, "field loop header changed: " + ast.unparse(s.iter))
            for c in s.body:
                if not (isinstance(c, ast.If) and not c.orelse and ast.unparse(c.test) in FIELD_TESTS):
                    raise TranslationBroken(site, "unexpected statement in the field loop: " + ast.unparse(c)[:60])
                _raises_typeerror(c.body, site)
                fchecks.append(FIELD_TESTS[ast.unparse(c.test)])
            seen_loop = True
            i += 1
            continue
        raise TranslationBroken(site, "unexpected statement " + ast.unparse(s)[:60])
    return pre, fchecks


DESER_TESTS = {
    "isinstance(base, type) and issubclass(base, ArrowSerializableDataclass)": ("DDataclass", "not isinstance(value, bytes)"),
    "isinstance(base, type) and issubclass(base, Enum)": ("DEnum", "not isinstance(value, str)"),
    "origin is dict and isinstance(value, list)": ("DDict", None),
    "origin is frozenset and isinstance(value, list)": ("DFrozenset", None),
}
DESER_RETURNS = {
    "DDataclass": "return base.deserialize_from_batch(batch, metadata, ipc_validation=ipc_validation)",
    "DEnum": "return base[value]",
    "DDict": "return dict(cast('list[tuple[object, object]]', value))",
    "DFrozenset": "return frozenset(value)",
}


def _deserialize_value(repo: Path) -> list[str]:
    site = WIRE + ":_deserialize_value"
    fn = _func(_parse(repo, WIRE), "_deserialize_value", site)
    b = _body(fn)
    out: list[str] = []
    head = [ast.unparse(s) for s in b[:2]]
    if head != ["inner, _ = _is_optional_type(type_hint)", "base = _unwrap_annotated(inner)"]:
        raise TranslationBroken(site, "type unwrapping changed: " + "; ".join(head))
    for s in b[2:-1]:
        if isinstance(s, ast.Assign) and ast.unparse(s) == "origin = get_origin(base)":
            continue
        if not (isinstance(s, ast.If) and not s.orelse and ast.unparse(s.test) in DESER_TESTS):
            raise TranslationBroken(site, "unexpected statement " + ast.unparse(s)[:70])
        tok, guard = DESER_TESTS[ast.unparse(s.test)]
        body = list(s.body)
        if guard is not None:
            g = body[0]
            if not (isinstance(g, ast.If) and ast.unparse(g.test) == guard and not g.orelse):
                raise TranslationBroken(site, f"{tok}: value-type guard changed")
            _raises_typeerror(g.body, site)
            body = body[1:]
        if ast.unparse(body[-1]) != DESER_RETURNS[tok]:
            raise TranslationBroken(site, f"{tok}: conversion changed: " + ast.unparse(body[-1]))
        out.append(tok)
    if ast.unparse(b[-1]) != "return value":
        raise TranslationBroken(site, "fall-through is not `return value`")
    return out


VALIDATE_PARAMS_SHAPE = """for name, value in kwargs.items():
    if value is not None:
        continue
    ptype = param_types.get(name)
    if ptype is None:
        continue
    _, is_nullable = _is_optional_type(ptype)
    if not is_nullable:
        raise TypeError()"""
DESER_PARAMS_SHAPE = """for name, value in kwargs.items():
    if value is None:
        continue
    ptype = param_types.get(name)
    if ptype is None:
        continue
    kwargs[name] = _deserialize_value(value, ptype, ipc_validation)"""
READ_CHECKS = [
    ("method_name_bytes is None", "RpcError"),
    ("version_bytes is None", "VersionError"),
    ("version_bytes != REQUEST_VERSION", "VersionError"),
    ("len(batch.schema) > 0 and batch.num_rows != 1", "RpcError"),
]


def _shapes(repo: Path) -> bool:
    tree = _parse(repo, WIRE)
    for name, want in (("_validate_params", VALIDATE_PARAMS_SHAPE), ("_deserialize_params", DESER_PARAMS_SHAPE)):
        got = _shape(_body(_func(tree, name, WIRE + ":" + name)))
        if got != want:
            raise TranslationBroken(WIRE + ":" + name, "shape changed:\n" + got)
    # the metadata / row-count checks live in _decode_request (called by _read_request once the stream is drained);
    # older trees have them in _read_request itself
    has_decode = any(isinstance(n, ast.FunctionDef) and n.name == "_decode_request" for n in tree.body)
    if has_decode:
        outer = _func(tree, "_read_request", WIRE + ":_read_request")
        rets = [n for n in ast.walk(outer) if isinstance(n, ast.Return)]
        want = "return _decode_request(batch, custom_metadata, external_config, shm, attach_shm)"
        if not rets or any(ast.unparse(r) != want for r in rets):
            raise TranslationBroken(WIRE + ":_read_request", "does not return _decode_request(...) on every path")
        for t in (n for n in ast.walk(outer) if isinstance(n, ast.Try)):
            hs = [(_class_names(h.type, WIRE), ast.unparse(h.body[-1])[:14]) for h in t.handlers]
            if hs != [(["RpcError", "VersionError"], "raise"), (["Exception"], "raise RpcError")]:
                raise TranslationBroken(WIRE + ":_read_request", f"decode-error containment changed: {hs}")
    site = WIRE + (":_decode_request" if has_decode else ":_read_request")
    fn = _func(tree, "_decode_request" if has_decode else "_read_request", site)
    raising = []
    for n in ast.walk(fn):
        if isinstance(n, ast.If) and any(isinstance(x, ast.Raise) for x in n.body):
            raising.append((n.lineno, ast.unparse(n.test), _callee(n.body[-1].exc) if isinstance(n.body[-1], ast.Raise) else None))
    raising.sort()
    if [(t, c) for _, t, c in raising] != READ_CHECKS:
        raise TranslationBroken(site, f"raising checks changed: {[(t, c) for _, t, c in raising]}")
    decode = [t for t in ast.walk(fn) if isinstance(t, ast.Try) and ast.unparse(t.body[0]) == "method_name = method_name_bytes.decode()"]
    if len(decode) != 1 or _class_names(decode[0].handlers[0].type, site) != ["UnicodeDecodeError"] or _callee(decode[0].handlers[0].body[-1].exc) != "RpcError":  # type: ignore[attr-defined]
        raise TranslationBroken(site, "method-name decoding guard changed")
    if not (raising[2][0] < decode[0].lineno < raising[3][0]):
        raise TranslationBroken(site, "method-name decoding moved relative to the other checks")
    kw = [n for n in ast.walk(fn) if isinstance(n, ast.Assign) and ast.unparse(n.targets[0]) == "kwargs"]
    if len(kw) != 1 or ast.unparse(kw[0].value) != "{f.name: batch.column(i)[0].as_py() for i, f in enumerate(batch.schema)}":
        raise TranslationBroken(site, "kwargs construction changed")
    sch = [n for n in ast.walk(fn) if isinstance(n, ast.Call) and ast.unparse(n) == "_current_request_param_schema.set(batch.schema)"]
    if len(sch) != 1 or not isinstance(getattr(sch[0], "lineno", None), int):
        raise TranslationBroken(site, "request schema is not recorded exactly once")
    # where is it recorded relative to pointer resolution?  `batch` is rebound by resolve_external_location and
    # resolve_shm_batch; recorded after both (and before the kwargs are decoded) = the schema of the resolved batch,
    # recorded before both = the schema of the inline (pointer) batch.  Anything in between is outside the model.
    rebinds = [n.lineno for n in ast.walk(fn) if isinstance(n, ast.Assign) and _callee(n.value) in ("resolve_shm_batch", "resolve_external_location")]
    if len(rebinds) != 2:
        raise TranslationBroken(site, f"expected the batch to be rebound by exactly two pointer resolutions, found {len(rebinds)}")
    others = [n.lineno for n in ast.walk(fn) if isinstance(n, (ast.Assign, ast.AugAssign, ast.AnnAssign)) and n.lineno not in rebinds
              and any(isinstance(t, ast.Name) and t.id == "batch" for tgt in (n.targets if isinstance(n, ast.Assign) else [n.target]) for t in ast.walk(tgt))]
    if others:
        raise TranslationBroken(site, f"`batch` is rebound elsewhere (lines {others})")
    if max(rebinds) < sch[0].lineno <= kw[0].lineno:
        return True
    if sch[0].lineno < min(rebinds):
        return False
    raise TranslationBroken(site, "request schema recorded between the two pointer resolutions")


def source_facts(repo: Path) -> dict[str, Any]:
    sock = _socket(repo)
    un = _http_site(repo, UNARY, "_run_unary_sync")
    st = _http_site(repo, STREAM, "_run_stream_init_sync")
    for k in ("c400", "other", "conv", "method_error"):
        if un[k] != st[k]:
            raise TranslationBroken("http", f"unary and stream-init sites disagree on {k}: {un[k]} vs {st[k]}")
    if un["other"] != un["method_error"]:
        raise TranslationBroken("http", "catch-all status and method-error status differ; the model has one field for both")
    pre, fchecks = _validate_call_signature(repo)
    branches = _deserialize_value(repo)
    resolved = _shapes(repo)
    return {
        "schema_resolved": resolved,
        "order_sock": sock, "order_unary": un["order"], "order_init": st["order"], "pre": pre, "fchecks": fchecks,
        "dbranches": branches, "conv": un["conv"], "c400": un["c400"], "other": un["other"], "marker": _set_http_status(repo),
    }


def coq_module(repo: Path) -> str:
    f = source_facts(repo)

    def lst(xs: list[Any]) -> str:
        return "[" + "; ".join(str(x) for x in xs) + "]"

    return (
        "From Coq Require Import List NArith Bool.\nFrom VGI Require Import M_Validate.\nImport ListNotations.\nOpen Scope N_scope.\n"
        "Definition gen_cfg : cfg := {|\n"
        f"  c_order_sock := {lst(f['order_sock'])};\n  c_order_unary := {lst(f['order_unary'])};\n  c_order_init := {lst(f['order_init'])};\n"
        f"  c_pre := {lst(f['pre'])};\n  c_fchecks := {lst(f['fchecks'])};\n  c_dbranches := {lst(f['dbranches'])};\n"
        f"  c_conv := {lst(f['conv'])};\n  c_400 := {lst(f['c400'])};\n  c_schema_resolved := {'true' if f['schema_resolved'] else 'false'};\n  c_other_status := {f['other']};\n  c_marker_status := {f['marker']}\n|}}.\n"
        "Definition run_case := run_case_with gen_cfg.\n"
    )
