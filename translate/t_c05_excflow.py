"""Fail-closed translator for C05: where the request-reading path can raise, and who catches it.

For every *site* (a call or raise statement on the path ``serve -> serve_one -> _read_request [-> _decode_request]
[-> _maybe_attach_shm]``) the full stack of exception handlers that enclose it dynamically, innermost first, is
extracted from the Python AST of vgi_rpc/rpc/_server.py and vgi_rpc/rpc/_wire.py:

    gen_stacks : list (site name * list (function name * handler level))
    handler level = ordered list of (class names, (writes an error stream?, how the handler body ends))
    ending in {"return", "reraise", "raise:<Class>", "break", "fall"}; ``with contextlib.suppress(X)`` is a level
    ``[([X], (false, "fall"))]``.

A site is located by a chain of hops (function, matcher); each hop contributes the ``try`` statements (and
``suppress`` blocks) whose *body* lexically encloses the matched node inside that function (handlers / else /
finally bodies are not protected by their own try, as in Python).  Anything unexpected -- a site that is missing or
ambiguous, a ``finally`` that returns/breaks, an exception expression that is not a name, ``attach_shm`` not being the
lambda around ``_maybe_attach_shm`` -- raises TranslationBroken.

The socket path is selected by the value ``serve_one`` passes for ``contain_decode_errors`` (or the declared default if
it passes none): ``_read_request`` branches on that flag, and only the ``_decode_request`` call that runs for this value
contributes its enclosing handlers (gen_contain_decode_errors records the value).

Also regenerated: the metadata key constants of vgi_rpc/metadata.py the request reader looks at (gen_K_*), and
TRANSPORT_OPTIONS_METHOD_NAME.

The class-name / tuple decoding is reused from translate/t_excflow.py (wire-core); tie/T_ReadReq.v cross-checks the
``serve`` / ``serve_one`` levels of this table against coq/gen/G_WireHandlers.v.
"""
from __future__ import annotations

import ast
from pathlib import Path
from typing import Callable

from translate.t_excflow import _name as exc_names
from vlib.core import TranslationBroken

Matcher = Callable[[ast.AST], bool]


# ---------------------------------------------------------------------------------------------------------------
# AST helpers
# ---------------------------------------------------------------------------------------------------------------
def _functions(path: Path) -> dict[str, ast.FunctionDef]:
    tree = ast.parse(path.read_text())
    out: dict[str, ast.FunctionDef] = {}
    for n in tree.body:
        if isinstance(n, ast.FunctionDef):
            out[n.name] = n
        elif isinstance(n, ast.ClassDef):
            for m in n.body:
                if isinstance(m, ast.FunctionDef):
                    out[f"{n.name}.{m.name}"] = m
    return out


def _dotted(e: ast.AST) -> str | None:
    parts = []
    while isinstance(e, ast.Attribute):
        parts.append(e.attr)
        e = e.value
    if isinstance(e, ast.Name):
        parts.append(e.id)
        return ".".join(reversed(parts))
    return None


def call_to(name: str) -> Matcher:
    """A call whose callee's dotted name is exactly ``name`` (e.g. "ipc.open_stream", "self._serve_unary")."""
    return lambda n: isinstance(n, ast.Call) and _dotted(n.func) == name


def method_call(attr: str, recv: str | None = None) -> Matcher:
    """A call ``<recv>.attr(...)``; ``recv`` None = any receiver expression."""

    def m(n: ast.AST) -> bool:
        if not (isinstance(n, ast.Call) and isinstance(n.func, ast.Attribute) and n.func.attr == attr):
            return False
        return recv is None or _dotted(n.func.value) == recv

    return m


def if_raising(cls: str, mentions: str) -> Matcher:
    """An ``if`` statement whose test mentions the name/attribute ``mentions`` and whose body starts with ``raise cls(...)``."""

    def m(n: ast.AST) -> bool:
        if not (isinstance(n, ast.If) and n.body and isinstance(n.body[0], ast.Raise)):
            return False
        r = n.body[0]
        if not (isinstance(r.exc, ast.Call) and _dotted(r.exc.func) == cls):
            return False
        return any((isinstance(x, ast.Name) and x.id == mentions) or (isinstance(x, ast.Attribute) and x.attr == mentions) for x in ast.walk(n.test))

    return m


FLAG = "contain_decode_errors"


def _effective_flag(rr: ast.FunctionDef, passed: ast.expr | None) -> bool | None:
    """Value of ``contain_decode_errors`` on the socket path: what serve_one passes, else the declared default.
    None = _read_request has no such parameter."""
    params = {a.arg: d for a, d in zip(rr.args.kwonlyargs, rr.args.kw_defaults)}
    pos = rr.args.posonlyargs + rr.args.args
    for a, d in zip(pos[len(pos) - len(rr.args.defaults):], rr.args.defaults):
        params[a.arg] = d
    if FLAG not in params and FLAG not in [a.arg for a in pos]:
        if passed is not None:
            raise TranslationBroken("serve_one", f"passes {FLAG} but _read_request does not take it")
        return None
    v = passed if passed is not None else params.get(FLAG)
    if not (isinstance(v, ast.Constant) and isinstance(v.value, bool)):
        raise TranslationBroken("serve_one", f"{FLAG} is not a literal True/False on the socket path")
    return v.value


def _active_decode_call(rr: ast.FunctionDef, flag: bool | None) -> ast.Call:
    """The call of _decode_request that runs on the socket path, given the value of the flag."""
    is_dec = call_to("_decode_request")

    def calls_in(stmts: list[ast.stmt]) -> list[ast.Call]:
        return [n for st in stmts for n in ast.walk(st) if is_dec(n)]  # type: ignore[misc]

    if flag is None:
        found = calls_in(rr.body)
        if len(found) != 1:
            raise TranslationBroken("_read_request", f"expected exactly one call of _decode_request, found {len(found)}")
        return found[0]
    uses = [n for n in ast.walk(rr) if isinstance(n, ast.Name) and n.id == FLAG]
    ifs = [(i, st) for i, st in enumerate(rr.body) if isinstance(st, ast.If) and any(isinstance(x, ast.Name) and x.id == FLAG for x in ast.walk(st.test))]
    if len(ifs) != 1 or len(uses) != 1:
        raise TranslationBroken("_read_request", f"{FLAG} must be used exactly once, as the test of one top-level `if`")
    i, st = ifs[0]
    t = st.test
    if isinstance(t, ast.Name):
        take_body = flag
    elif isinstance(t, ast.UnaryOp) and isinstance(t.op, ast.Not) and isinstance(t.operand, ast.Name):
        take_body = not flag
    else:
        raise TranslationBroken(f"_read_request:{st.lineno}", f"test on {FLAG} is neither `{FLAG}` nor `not {FLAG}`")
    taken = st.body if take_body else st.orelse
    terminates = bool(taken) and isinstance(taken[-1], (ast.Return, ast.Raise))
    active = calls_in(rr.body[:i]) + calls_in(taken) + ([] if terminates else calls_in(rr.body[i + 1:]))
    if len(active) != 1:
        raise TranslationBroken("_read_request", f"expected exactly one _decode_request call on the socket path, found {len(active)}")
    return active[0]


def _is_suppress(w: ast.With) -> list[str] | None:
    if len(w.items) != 1:
        return None
    ce = w.items[0].context_expr
    if isinstance(ce, ast.Call) and _dotted(ce.func) == "contextlib.suppress":
        names: list[str] = []
        for a in ce.args:
            names += exc_names(a, "contextlib.suppress")
        return names
    return None


def _handler_summary(h: ast.ExceptHandler, site: str) -> tuple[list[str], bool, str]:
    names = exc_names(h.type, site)
    writes = any(isinstance(x, ast.Call) and _dotted(x.func) == "_write_error_stream" for b in h.body for x in ast.walk(b))
    last = h.body[-1]
    if isinstance(last, ast.Return):
        end = "return"
    elif isinstance(last, ast.Raise):
        if last.exc is None:
            end = "reraise"
        elif isinstance(last.exc, ast.Call) and _dotted(last.exc.func) is not None:
            end = "raise:" + str(_dotted(last.exc.func))
        else:
            raise TranslationBroken(site, "handler raises an expression that is not Class(...)")
        # a handler that may return/raise earlier on some path is outside the accepted shape
    elif isinstance(last, ast.Break):
        end = "break"
    else:
        end = "fall"
    for b in h.body[:-1]:
        for x in ast.walk(b):
            if isinstance(x, (ast.Return, ast.Raise, ast.Break, ast.Continue)):
                raise TranslationBroken(site, "handler body leaves early on some path")
    return names, writes, end


Level = list[tuple[list[str], bool, str]]


def _locate(fn: ast.FunctionDef, match: Matcher, nth: int | None, site: str) -> list[Level]:
    """Levels (innermost first) protecting the unique (or nth) node of ``fn`` that satisfies ``match``."""
    found: list[list[Level]] = []

    def visit(node: ast.AST, stack: list[Level]) -> None:
        if match(node):
            found.append(list(stack))
        if isinstance(node, (ast.FunctionDef, ast.AsyncFunctionDef, ast.Lambda, ast.ClassDef)) and node is not fn:
            return  # code of nested functions does not run here
        if isinstance(node, ast.Try):
            if node.handlers:
                lvl = [_handler_summary(h, f"{site}:{h.lineno}") for h in node.handlers]
                inner = [lvl] + stack
            else:
                inner = stack
            for fin in node.finalbody:
                for x in ast.walk(fin):
                    if isinstance(x, (ast.Return, ast.Break, ast.Continue)):
                        raise TranslationBroken(f"{site}:{x.lineno}", "finally block leaves with return/break/continue (would swallow the exception)")
            for b in node.body:
                visit(b, inner)
            for h in node.handlers:
                for b in h.body:
                    visit(b, stack)
            for b in node.orelse + node.finalbody:
                visit(b, stack)
            return
        if isinstance(node, ast.With):
            sup = _is_suppress(node)
            for it in node.items:
                visit(it.context_expr, stack)
            inner = ([[(sup, False, "fall")]] + stack) if sup is not None else stack
            for b in node.body:
                visit(b, inner)
            return
        for child in ast.iter_child_nodes(node):
            visit(child, stack)

    visit(fn, [])
    if nth is None:
        if len(found) != 1:
            raise TranslationBroken(site, f"expected exactly one matching node, found {len(found)}")
        return found[0]
    if nth >= len(found):
        raise TranslationBroken(site, f"expected at least {nth + 1} matching nodes, found {len(found)}")
    return found[nth]



# ---------------------------------------------------------------------------------------------------------------
# code that runs outside every catch-all handler: only calls the model knows as sites (or that cannot raise) may appear
# ---------------------------------------------------------------------------------------------------------------
KNOWN_UNGUARDED: dict[str, set[str]] = {
    # _ConnectionShm.refresh is called from serve_one after validation, outside any try
    "_ConnectionShm.refresh": {"req_md.get", "_maybe_attach_shm", "self.close"},
    # name.decode() / int(size) are the *_shm_meta sites (own handler), ShmSegment.attach the *_attach sites
    "_maybe_attach_shm": {"req_md.get", "_logger.warning", "shm_name_bytes.decode", "int", "ShmSegment.attach"},
    # _read_request itself: reading/draining the stream (pre-drain sites), then delegation; the _decode_request call
    # under the catch-all is skipped, the one in the flag-off branch is not
    "_read_request": {"ValidatedReader", "ipc.open_stream", "reader.read_next_batch_with_custom_metadata", "_drain_stream", "_decode_request", "RpcError", "type"},
    # serve_one between parameter validation and the end of the call
    "RpcServer.serve_one:tail": {"_current_request_metadata.get", "req_md.get", "isinstance", "shm_cache.refresh", "_maybe_attach_shm",
                                 "self._serve_unary", "self._serve_stream"},
}


def _catches_all(t: ast.Try) -> bool:
    for h in t.handlers:
        if h.type is None or (isinstance(h.type, ast.Name) and h.type.id in ("Exception", "BaseException")):
            return True
    return False


def _calls_outside_catch_all(stmts: list[ast.stmt]) -> list[tuple[str, int]]:
    out: list[tuple[str, int]] = []

    def visit(node: ast.AST) -> None:
        if isinstance(node, (ast.FunctionDef, ast.AsyncFunctionDef, ast.Lambda, ast.ClassDef)):
            return
        if isinstance(node, ast.Try) and _catches_all(node):
            for part in (*[b for h in node.handlers for b in h.body], *node.orelse, *node.finalbody):
                visit(part)
            return
        if isinstance(node, ast.Call):
            name = _dotted(node.func)
            if name is None:
                name = "<expr>." + node.func.attr if isinstance(node.func, ast.Attribute) else "<expr>"
            out.append((name, node.lineno))
        for child in ast.iter_child_nodes(node):
            visit(child)

    for st in stmts:
        visit(st)
    return out


def unguarded_calls(F: dict[str, ast.FunctionDef]) -> list[tuple[str, list[str]]]:
    so = F["RpcServer.serve_one"]
    # the statement list that contains the validation try (the one calling _deserialize_params)
    tail: list[ast.stmt] | None = None
    for node in ast.walk(so):
        for field in ("body", "orelse", "finalbody"):
            stmts = getattr(node, field, None)
            if not isinstance(stmts, list):
                continue
            for i, st in enumerate(stmts):
                if isinstance(st, ast.Try) and any(isinstance(b, ast.Expr) and call_to("_deserialize_params")(b.value) for b in st.body):
                    if tail is not None:
                        raise TranslationBroken("serve_one", "more than one validation try")
                    tail = stmts[i + 1:]
    if tail is None:
        raise TranslationBroken("serve_one", "validation try (the one calling _deserialize_params) not found")
    regions = {
        "_ConnectionShm.refresh": F["_ConnectionShm.refresh"].body,
        "_maybe_attach_shm": F["_maybe_attach_shm"].body,
        "_read_request": F["_read_request"].body,
        "RpcServer.serve_one:tail": tail,
    }
    out = []
    for rname, stmts in regions.items():
        found = _calls_outside_catch_all(stmts)
        for name, line in found:
            if name not in KNOWN_UNGUARDED[rname]:
                raise TranslationBroken(f"{rname}:{line}", f"call `{name}(...)` runs outside every catch-all handler and is not a site the model knows")
        out.append((rname, sorted({n for n, _ in found})))
    return out

# ---------------------------------------------------------------------------------------------------------------
# the sites
# ---------------------------------------------------------------------------------------------------------------
def site_stacks(repo: Path) -> tuple[list[tuple[str, list[tuple[str, Level]]]], bool | None]:
    server = repo / "vgi_rpc" / "rpc" / "_server.py"
    wire = repo / "vgi_rpc" / "rpc" / "_wire.py"
    F = {**_functions(wire), **_functions(server)}
    for need in ("RpcServer.serve", "RpcServer.serve_one", "_read_request", "_maybe_attach_shm", "_ConnectionShm.refresh"):
        if need not in F:
            raise TranslationBroken(need, "function not found")
    so = F["RpcServer.serve_one"]

    # attach_shm must be the lambda around _maybe_attach_shm, passed to _read_request
    calls = [n for n in ast.walk(so) if isinstance(n, ast.Call) and _dotted(n.func) == "_read_request"]
    if len(calls) != 1:
        raise TranslationBroken("serve_one", "expected exactly one call of _read_request")
    kw = {k.arg: k.value for k in calls[0].keywords}
    lam = kw.get("attach_shm")
    if not (isinstance(lam, ast.Lambda) and isinstance(lam.body, ast.Call) and _dotted(lam.body.func) == "_maybe_attach_shm"):
        raise TranslationBroken("serve_one", "attach_shm is not `lambda md: _maybe_attach_shm(...)`")
    if not ({"shm", "attach_shm"} <= set(kw) <= {"shm", "attach_shm", FLAG}) or len(calls[0].args) != 3:
        raise TranslationBroken("serve_one", "unexpected argument shape of the _read_request call")
    flag = _effective_flag(F["_read_request"], kw.get(FLAG))

    Hop = tuple[str, Matcher, int | None]
    base: list[Hop] = [("RpcServer.serve", call_to("self.serve_one"), None)]
    rr: list[Hop] = base + [("RpcServer.serve_one", call_to("_read_request"), None)]
    if "_decode_request" in F:
        dec_name = "_decode_request"
        active = _active_decode_call(F["_read_request"], flag)
        dec: list[Hop] = rr + [("_read_request", (lambda n: n is active), None)]
    else:
        if flag is not None:
            raise TranslationBroken("_read_request", f"{FLAG} exists but there is no _decode_request")
        dec_name = "_read_request"
        dec = rr
    r1 = (if_raising("RpcError", "method_name_bytes"), None)   # `if method_name_bytes is None: raise RpcError`
    r2 = (if_raising("RpcError", "num_rows"), None)            # the row-count guard
    v1 = (if_raising("VersionError", "version_bytes"), 0)      # missing / unsupported request_version (first of two)
    attach_in_maybe: Hop = ("_maybe_attach_shm", call_to("ShmSegment.attach"), None)
    int_in_maybe: Hop = ("_maybe_attach_shm", call_to("int"), None)
    sites: list[tuple[str, list[Hop]]] = [
        ("open", rr + [("_read_request", call_to("ipc.open_stream"), None)]),
        ("read", rr + [("_read_request", method_call("read_next_batch_with_custom_metadata", "reader"), None)]),
        ("drain", rr + [("_read_request", call_to("_drain_stream"), None)]),
        ("meta_rpc", dec + [(dec_name, r1[0], r1[1])]),
        ("meta_version", dec + [(dec_name, v1[0], v1[1])]),
        ("method_decode", dec + [(dec_name, method_call("decode", "method_name_bytes"), None)]),
        ("tp_decode", dec + [(dec_name, method_call("decode", "tp"), None)]),
        ("ts_decode", dec + [(dec_name, method_call("decode", "ts"), None)]),
        ("ext", dec + [(dec_name, call_to("resolve_external_location"), None)]),
        ("rr_shm_meta", dec + [(dec_name, call_to("attach_shm"), None), int_in_maybe]),
        ("rr_attach", dec + [(dec_name, call_to("attach_shm"), None), attach_in_maybe]),
        ("resolve_shm", dec + [(dec_name, call_to("resolve_shm_batch"), None)]),
        ("rows", dec + [(dec_name, r2[0], r2[1])]),
        ("as_py", dec + [(dec_name, method_call("as_py"), None)]),
        ("release", dec + [(dec_name, call_to("release_shm"), None)]),
        ("close_owned", dec + [(dec_name, call_to("owned_shm.close"), None)]),
        ("check_version", base + [("RpcServer.serve_one", call_to("self._check_protocol_version"), None)]),
        ("deserialize", base + [("RpcServer.serve_one", call_to("_deserialize_params"), None)]),
        ("validate_sig", base + [("RpcServer.serve_one", call_to("_validate_call_signature"), None)]),
        ("validate_params", base + [("RpcServer.serve_one", call_to("_validate_params"), None)]),
        ("refresh_shm_meta", base + [("RpcServer.serve_one", call_to("shm_cache.refresh"), None), ("_ConnectionShm.refresh", call_to("_maybe_attach_shm"), None), int_in_maybe]),
        ("refresh_attach", base + [("RpcServer.serve_one", call_to("shm_cache.refresh"), None), ("_ConnectionShm.refresh", call_to("_maybe_attach_shm"), None), attach_in_maybe]),
        ("dyn_shm_meta", base + [("RpcServer.serve_one", call_to("_maybe_attach_shm"), None), int_in_maybe]),
        ("dyn_attach", base + [("RpcServer.serve_one", call_to("_maybe_attach_shm"), None), attach_in_maybe]),
        ("dispatch_unary", base + [("RpcServer.serve_one", call_to("self._serve_unary"), None)]),
        ("dispatch_stream", base + [("RpcServer.serve_one", call_to("self._serve_stream"), None)]),
    ]
    short = {"RpcServer.serve": "serve", "RpcServer.serve_one": "serve_one", "_ConnectionShm.refresh": "refresh"}
    out = []
    for name, hops in sites:
        stack: list[tuple[str, Level]] = []
        for fn_name, matcher, nth in reversed(hops):  # innermost hop first
            levels = _locate(F[fn_name], matcher, nth, f"{name}@{fn_name}")
            for lvl in levels:
                stack.append((short.get(fn_name, fn_name), lvl))
        out.append((name, stack))
    # order of the post-drain steps inside the decoding function: the model walks them in this order
    order_fn = F[dec_name]
    first_line: dict[str, int] = {}
    for name, hops in sites:
        in_dec = [(m, nth) for fn_name, m, nth in hops if fn_name == dec_name]
        if not in_dec:
            continue
        m, nth = in_dec[-1]
        nodes = sorted((n for n in ast.walk(order_fn) if m(n)), key=lambda n: (n.lineno, n.col_offset))
        first_line[name] = nodes[nth or 0].lineno
    want = ["meta_rpc", "meta_version", "method_decode", "tp_decode", "ts_decode", "ext", "rr_attach", "resolve_shm", "rows", "as_py", "release", "close_owned"]
    lines = [first_line[w] for w in want]
    if lines != sorted(lines):
        raise TranslationBroken(dec_name, f"request decoding steps are not in the modelled order: {list(zip(want, lines))}")
    # pre-drain order in _read_request
    pre = []
    for m in (call_to("ipc.open_stream"), method_call("read_next_batch_with_custom_metadata", "reader"), call_to("_drain_stream")):
        pre.append([n for n in ast.walk(F["_read_request"]) if m(n)][0].lineno)
    if pre != sorted(pre):
        raise TranslationBroken("_read_request", "open/read/drain are not in the modelled order")
    if "_decode_request" in F:
        dl = active.lineno
        if dl < pre[-1]:
            raise TranslationBroken("_read_request", "_decode_request is called before the request stream is drained")
    else:
        if first_line["meta_rpc"] < pre[-1]:
            raise TranslationBroken("_read_request", "request validation starts before the request stream is drained")
    site_stacks.unguarded = unguarded_calls(F)  # type: ignore[attr-defined]
    return out, flag


def constants(repo: Path) -> list[tuple[str, bytes]]:
    want = ["RPC_METHOD_KEY", "REQUEST_VERSION_KEY", "REQUEST_VERSION", "TRACEPARENT_KEY", "TRACESTATE_KEY", "LOCATION_KEY", "LOG_LEVEL_KEY",
            "SHM_OFFSET_KEY", "SHM_LENGTH_KEY", "SHM_SEGMENT_NAME_KEY", "SHM_SEGMENT_SIZE_KEY"]
    src = repo / "vgi_rpc" / "metadata.py"
    vals: dict[str, bytes] = {}
    for n in ast.parse(src.read_text()).body:
        if isinstance(n, ast.Assign) and len(n.targets) == 1 and isinstance(n.targets[0], ast.Name) and n.targets[0].id in want:
            if not (isinstance(n.value, ast.Constant) and isinstance(n.value.value, bytes)):
                raise TranslationBroken(f"{src}:{n.lineno}", "constant is not a bytes literal")
            if n.targets[0].id in vals:
                raise TranslationBroken(f"{src}:{n.lineno}", "constant assigned twice")
            vals[n.targets[0].id] = n.value.value
    missing = [w for w in want if w not in vals]
    if missing:
        raise TranslationBroken(str(src), f"constants not found: {missing}")
    src2 = repo / "vgi_rpc" / "transport_options.py"
    topt = None
    for n in ast.parse(src2.read_text()).body:
        if isinstance(n, ast.Assign) and len(n.targets) == 1 and isinstance(n.targets[0], ast.Name) and n.targets[0].id == "TRANSPORT_OPTIONS_METHOD_NAME":
            if not (isinstance(n.value, ast.Constant) and isinstance(n.value.value, str)):
                raise TranslationBroken(f"{src2}:{n.lineno}", "not a str literal")
            topt = n.value.value
    if topt is None:
        raise TranslationBroken(str(src2), "TRANSPORT_OPTIONS_METHOD_NAME not found")
    return [(w, vals[w]) for w in want] + [("TRANSPORT_OPTIONS_METHOD_NAME", topt.encode())]


def module(repo: Path) -> str:
    def q(s: str) -> str:
        return '"' + s.replace('"', '""') + '"'

    lines = ["From Coq Require Import List String NArith.", "Import ListNotations.", "Open Scope string_scope.", ""]
    for name, val in constants(repo):
        lines.append(f"Definition gen_K_{name} : list N := [" + ";".join(str(b) for b in val) + "]%N.")
    lines.append("")
    lines.append("Definition gen_stacks : list (string * list (string * list (list string * (bool * string)))) := [")
    rows = []
    stacks, flag = site_stacks(repo)
    lines.insert(-2, "(* contain_decode_errors as it reaches _read_request on the socket path (None = no such parameter) *)")
    lines.insert(-2, "Definition gen_contain_decode_errors : option bool := " + ("None" if flag is None else f"Some {str(flag).lower()}") + ".")
    ug = site_stacks.unguarded  # type: ignore[attr-defined]
    lines.insert(-2, "(* calls that run outside every catch-all handler (all of them are sites of the model or cannot raise; checked by the translator) *)")
    lines.insert(-2, "Definition gen_unguarded_calls : list (string * list string) := [" + "; ".join("(" + q(r) + ", [" + "; ".join(q(c) for c in cs) + "])" for r, cs in ug) + "].")
    for name, stack in stacks:
        lv = "; ".join(
            "(" + q(fn) + ", [" + "; ".join("([" + "; ".join(q(c) for c in cls) + "], (" + ("true" if w else "false") + ", " + q(end) + "))" for cls, w, end in lvl) + "])"
            for fn, lvl in stack
        )
        rows.append(f"  ({q(name)}, [{lv}])")
    lines.append(";\n".join(rows))
    lines.append("].")
    return "\n".join(lines) + "\n"
