"""Fail-closed translator for vgi_rpc/http/server/_introspect.py -> coq/gen/G_TokIntrospect.v  (property C36).

What is regenerated from the working tree on every run:
  * ``_JWS_SHAPED``                         -> ``gen_jws_re``           (via translate/t_regex.py)
  * ``_MAX_BODY_BYTES`` / ``_MAX_TOKEN_CHARS``-> ``gen_max_body`` / ``gen_max_token``
  * ``_TokenIntrospectionResource._read_token``  -> ``gen_checks : list rcheck``   (ordered rejection checks)
  * ``_TokenIntrospectionResource.on_post``      -> ``gen_steps : list step``      (ordered guard / action skeleton)
  * ``_TokenIntrospectionResource._refuse``      -> ``gen_refuse_headers`` / ``gen_refuse_key``
  * ``_IntrospectionDisabledResource.on_post``   -> ``gen_disabled``
  * ``_usable_ttl`` / ``token_digest`` / ``_normalise_principals`` are required to have exactly the
    bodies the model's ``usable_ttl`` / digest flag / ``allowed`` stand for (compared as normalised source).
  * the route in ``_factory.py``: the resolver-holding resource iff ``introspect_resolver is not None``.

Besides shape, a *taint* rule is enforced on ``on_post``: the names ``token`` (the subject credential) and
``req`` may only occur in the whitelisted expressions, log fields may only carry whitelisted credential-free
expressions, and every statement of ``_read_token`` must be one of the known ones -- so a new log line /
response field mentioning the credential breaks the translation.
Wording of log messages and comments is deliberately not looked at.
Anything outside the accepted shapes raises TranslationBroken.
"""
from __future__ import annotations

import ast
from http import HTTPStatus
from pathlib import Path

from translate import t_regex
from vlib.core import TranslationBroken


def _cstr(s: str) -> str:
    if not s.isascii():
        raise TranslationBroken("c36", f"non-ASCII literal {s!r}")
    return "[" + ";".join(str(ord(c)) for c in s) + "]"


def _u(node: ast.AST) -> str:
    return ast.unparse(node)


class _Mod:
    def __init__(self, path: Path):
        self.path = path
        try:
            self.tree = ast.parse(path.read_text())
        except (OSError, SyntaxError) as e:
            raise TranslationBroken(str(path), f"cannot parse: {e}") from e

    def bad(self, where: str, why: str) -> TranslationBroken:
        return TranslationBroken(f"{self.path}:{where}", why)

    def const_int(self, name: str) -> int:
        for n in self.tree.body:
            if isinstance(n, ast.Assign) and len(n.targets) == 1 and isinstance(n.targets[0], ast.Name) and n.targets[0].id == name:
                if isinstance(n.value, ast.Constant) and type(n.value.value) is int and n.value.value >= 0:
                    return n.value.value
                raise self.bad(name, f"not a non-negative int literal: {_u(n.value)}")
        raise self.bad(name, "assignment not found")

    def func(self, name: str, cls: str | None = None) -> ast.FunctionDef:
        scope: list[ast.stmt] = self.tree.body
        if cls is not None:
            found = [n for n in self.tree.body if isinstance(n, ast.ClassDef) and n.name == cls]
            if len(found) != 1:
                raise self.bad(cls, "class not found exactly once")
            scope = found[0].body
        fs = [n for n in scope if isinstance(n, ast.FunctionDef) and n.name == name]
        if len(fs) != 1:
            raise self.bad(f"{cls}.{name}", "function not found exactly once")
        return fs[0]


def _body(fn: ast.FunctionDef) -> list[ast.stmt]:
    """Statements without the docstring."""
    b = list(fn.body)
    if b and isinstance(b[0], ast.Expr) and isinstance(b[0].value, ast.Constant) and isinstance(b[0].value.value, str):
        b = b[1:]
    return b


def _status(m: _Mod, node: ast.expr, where: str) -> int:
    if isinstance(node, ast.Attribute) and isinstance(node.value, ast.Name) and node.value.id == "HTTPStatus" and node.attr in HTTPStatus.__members__:
        return int(HTTPStatus[node.attr].value)
    raise m.bad(where, f"status is not HTTPStatus.<NAME>: {_u(node)}")


def _names(node: ast.AST) -> set[str]:
    return {n.id for n in ast.walk(node) if isinstance(n, ast.Name)}


# ---------------------------------------------------------------------------
# logging calls
# ---------------------------------------------------------------------------

# what a log record / exception text may be built from
_LOG_EXTRA_OK = {
    "req.remote_addr or ''", "caller", "auth.authenticated", "digest", "type(exc).__name__",
    "identity.principal", "type(identity.ttl_seconds).__name__",
}


def _log_call(m: _Mod, st: ast.stmt, where: str) -> bool | None:
    """If *st* is ``_logger.<level>(msg, [exc], extra={...})`` return whether it carries token_digest; else None."""
    if not (isinstance(st, ast.Expr) and isinstance(st.value, ast.Call)):
        return None
    c = st.value
    f = c.func
    if not (isinstance(f, ast.Attribute) and isinstance(f.value, ast.Name) and f.value.id == "_logger" and f.attr in ("debug", "info", "warning", "error")):
        return None
    if not c.args or not (isinstance(c.args[0], ast.Constant) and isinstance(c.args[0].value, str)):
        raise m.bad(where, "log message is not a string literal")
    for a in c.args[1:]:
        if _u(a) != "exc":
            raise m.bad(where, f"log argument other than the caught exception: {_u(a)}")
    has_digest = False
    for kw in c.keywords:
        if kw.arg != "extra" or not isinstance(kw.value, ast.Dict):
            raise m.bad(where, f"unexpected logging keyword {kw.arg}")
        for k, v in zip(kw.value.keys, kw.value.values):
            if not (isinstance(k, ast.Constant) and isinstance(k.value, str)):
                raise m.bad(where, "extra key is not a literal")
            src = _u(v)
            if src not in _LOG_EXTRA_OK:
                raise m.bad(where, f"log field {k.value!r} carries {src}, which is not a whitelisted (credential-free) expression")
            if k.value == "token_digest":
                if src != "digest":
                    raise m.bad(where, "token_digest is not the digest")
                has_digest = True
            elif src == "digest":
                has_digest = True
    return has_digest


def _copt_bool(b: bool | None) -> str:
    return "None" if b is None else f"(Some {'true' if b else 'false'})"


# ---------------------------------------------------------------------------
# on_post
# ---------------------------------------------------------------------------

_CONDS = {
    "not auth.authenticated or caller not in self._principals": "CNotIntrospector",
    "not self._limiter.allow(caller)": "CLimiterDenies",
    "token is None": "CTokenNone",
    "_JWS_SHAPED.match(token)": "CJwsShaped",
    "identity is None": "CIdentityNone",
    "not _usable_ttl(identity.ttl_seconds)": "CTtlUnusable",
}
_FIELDS = {"identity.principal": "FPrincipal", "identity.token_name": "FTokenName", "identity.ttl_seconds": "FTtl"}


def _refuse_call(m: _Mod, st: ast.stmt, where: str) -> tuple[int, str] | None:
    if not (isinstance(st, ast.Expr) and isinstance(st.value, ast.Call) and _u(st.value.func) == "self._refuse"):
        return None
    c = st.value
    if c.keywords or len(c.args) != 3 or _u(c.args[0]) != "resp":
        raise m.bad(where, f"unexpected _refuse call {_u(c)}")
    if not (isinstance(c.args[2], ast.Constant) and isinstance(c.args[2].value, str)):
        raise m.bad(where, "refusal code is not a literal")
    return _status(m, c.args[1], where), c.args[2].value


def _headers_after(m: _Mod, stmts: list[ast.stmt], where: str) -> tuple[list[str], ast.expr | None]:
    """content-type / header / data assignments of a success response -> (hdr terms, data expr)."""
    hs: list[str] = []
    data = None
    for st in stmts:
        src = _u(st)
        if src == "resp.content_type = falcon.MEDIA_JSON":
            hs.append("HJson")
        elif src == "resp.set_header('Cache-Control', 'no-store')":
            hs.append("HNoStore")
        elif isinstance(st, ast.Assign) and _u(st.targets[0]) == "resp.data" and data is None:
            data = st.value
        else:
            raise m.bad(where, f"unexpected statement {src[:80]}")
    return hs, data


def _compact_dump_dict(m: _Mod, node: ast.expr | None, where: str) -> ast.Dict:
    """``json.dumps({...}, separators=(",", ":")).encode()`` -> the dict literal."""
    if node is None:
        raise m.bad(where, "resp.data is never set")
    ok = (
        isinstance(node, ast.Call) and not node.args and not node.keywords
        and isinstance(node.func, ast.Attribute) and node.func.attr == "encode"
        and isinstance(node.func.value, ast.Call) and _u(node.func.value.func) == "json.dumps"
    )
    if not ok:
        raise m.bad(where, f"resp.data is not json.dumps(...).encode(): {_u(node)[:80]}")
    d = node.func.value  # type: ignore[union-attr]
    if len(d.args) != 1 or not isinstance(d.args[0], ast.Dict) or [(k.arg, _u(k.value)) for k in d.keywords] != [("separators", "(',', ':')")]:
        raise m.bad(where, f"json.dumps arguments changed: {_u(d)[:100]}")
    return d.args[0]


def on_post_steps(m: _Mod) -> str:
    fn = m.func("on_post", "_TokenIntrospectionResource")
    where = "on_post"
    stmts = _body(fn)
    if len(stmts) < 3 or _u(stmts[0]) != "auth, _metadata = _get_auth_and_metadata()" or _u(stmts[1]) != "caller = auth.principal or ''":
        raise m.bad(where, "prologue changed (auth, caller)")
    steps: list[str] = []
    i = 2
    n = len(stmts)
    while i < n:
        st = stmts[i]
        src = _u(st)
        if isinstance(st, ast.If):
            if st.orelse:
                raise m.bad(where, f"guard with else: {_u(st.test)}")
            cond = _CONDS.get(_u(st.test))
            if cond is None:
                raise m.bad(where, f"unknown guard {_u(st.test)!r}")
            body = list(st.body)
            log = None
            if body and (lg := _log_call(m, body[0], where)) is not None:
                log = lg
                body = body[1:]
            retry1 = False
            if body and _u(body[0]) == "resp.set_header('Retry-After', '1')":
                retry1 = True
                body = body[1:]
            if len(body) == 2 and (rc := _refuse_call(m, body[0], where)) is not None and isinstance(body[1], ast.Return) and body[1].value is None:
                steps.append(f"SGuardRefuse {cond} {_copt_bool(log)} {'true' if retry1 else 'false'} {rc[0]} {_cstr(rc[1])}")
            elif len(body) == 1 and not retry1 and _u(body[0]) == "raise falcon.HTTPInternalServerError()":
                steps.append(f"SGuardRaise500 {cond} {_copt_bool(log)}")
            else:
                raise m.bad(where, f"guard {cond}: unexpected body {[_u(b)[:60] for b in body]}")
            i += 1
        elif src == "token = self._read_token(req)":
            steps.append("SReadToken")
            i += 1
        elif src == "digest = token_digest(token)":
            steps.append("SDigest")
            i += 1
        elif isinstance(st, ast.Try):
            if st.orelse or st.finalbody or len(st.body) != 1 or _u(st.body[0]) != "identity = self._resolver(token)":
                raise m.bad(where, "resolver try-block changed")
            if len(st.handlers) != 1 or st.handlers[0].type is None or _u(st.handlers[0].type) != "AuthUnavailableError" or st.handlers[0].name != "exc":
                raise m.bad(where, "resolver exception handlers changed")
            hb = list(st.handlers[0].body)
            log = None
            if hb and (lg := _log_call(m, hb[0], where)) is not None:
                log = lg
                hb = hb[1:]
            if len(hb) != 1 or _u(hb[0]) != "raise falcon.HTTPServiceUnavailable(description=str(exc), retry_after=exc.retry_after) from exc":
                raise m.bad(where, f"unavailable handler changed: {[_u(b)[:80] for b in hb]}")
            steps.append(f"SResolve {_copt_bool(log)}")
            i += 1
        else:
            # the success tail: [log]; headers; data
            tail = stmts[i:]
            log = None
            if (lg := _log_call(m, tail[0], where)) is not None:
                log = lg
                tail = tail[1:]
            hs, data = _headers_after(m, tail, where)
            d = _compact_dump_dict(m, data, where)
            fields = []
            for k, v in zip(d.keys, d.values):
                if not (isinstance(k, ast.Constant) and isinstance(k.value, str)):
                    raise m.bad(where, "response key is not a literal")
                f = _FIELDS.get(_u(v))
                if f is None:
                    raise m.bad(where, f"response field {k.value!r} carries {_u(v)}")
                fields.append(f"({_cstr(k.value)}, {f})")
            steps.append(f"SRespond {_copt_bool(log)} [{'; '.join(hs)}] [{'; '.join(fields)}]")
            i = n
    # taint: `token` only in the whitelisted expressions
    allowed_token_uses = {"token = self._read_token(req)", "token is None", "token_digest(token)", "_JWS_SHAPED.match(token)", "self._resolver(token)"}
    for node in ast.walk(fn):
        if isinstance(node, ast.Name) and node.id == "token":
            parent_src = None
            for p in ast.walk(fn):
                for ch in ast.iter_child_nodes(p):
                    if ch is node:
                        parent_src = _u(p)
            if parent_src not in allowed_token_uses:
                raise m.bad(where, f"the subject credential is used in {parent_src!r}")
        if isinstance(node, ast.Name) and node.id == "req":
            parent_src = None
            for p in ast.walk(fn):
                for ch in ast.iter_child_nodes(p):
                    if ch is node:
                        parent_src = _u(p)
            if parent_src not in {"self._read_token(req)", "req.remote_addr"}:
                raise m.bad(where, f"the request is used in {parent_src!r}")
    return "[\n  " + ";\n  ".join(steps) + "\n]"


# ---------------------------------------------------------------------------
# _read_token
# ---------------------------------------------------------------------------

_RETURN_NONE = "return None"


def read_token_checks(m: _Mod) -> str:
    fn = m.func("_read_token", "_TokenIntrospectionResource")
    where = "_read_token"
    out: list[str] = []
    for st in _body(fn):
        src = _u(st)
        if src == "length = req.content_length":
            continue
        if src == "raw = req.bounded_stream.read(_MAX_BODY_BYTES + 1)":
            out.append("@read")
            continue
        if src == "token = body.get('token')":
            out.append("@get")
            continue
        if src == "return token":
            out.append("@ret")
            continue
        if isinstance(st, ast.If) and not st.orelse and [_u(b) for b in st.body] == [_RETURN_NONE]:
            t = _u(st.test)
            k = {
                "length is not None and length > _MAX_BODY_BYTES": "RkLengthOver",
                "len(raw) > _MAX_BODY_BYTES": "RkReadOver",
                "not isinstance(body, dict)": "RkDict",
                "not isinstance(token, str) or not token or len(token) > _MAX_TOKEN_CHARS": "RkToken",
            }.get(t)
            if k is None:
                raise m.bad(where, f"unknown check {t!r}")
            out.append(k)
            continue
        if isinstance(st, ast.Try) and not st.orelse and not st.finalbody and len(st.body) == 1 and len(st.handlers) == 1:
            h = st.handlers[0]
            hsrc = (_u(st.body[0]), _u(h.type) if h.type is not None else None, h.name, [_u(b) for b in h.body])
            if hsrc == ("body = json.loads(raw)", "(ValueError, UnicodeDecodeError)", None, [_RETURN_NONE]):
                out.append("RkJson")
                continue
            if hsrc == ("token.encode('utf-8')", "UnicodeEncodeError", None, [_RETURN_NONE]):
                out.append("RkEncodable")
                continue
        raise m.bad(where, f"unexpected statement {src[:100]}")
    # data flow order: read before the raw checks, json before dict, get before token checks, return last
    def pos(x: str) -> int:
        if out.count(x) != 1:
            raise m.bad(where, f"{x} does not occur exactly once")
        return out.index(x)

    if not (pos("@read") < pos("RkReadOver") < pos("RkJson") < pos("RkDict") < pos("@get") < pos("RkToken") < pos("@ret") == len(out) - 1):
        raise m.bad(where, f"check order changed: {out}")
    if "RkLengthOver" in out and not pos("RkLengthOver") < pos("@read"):
        raise m.bad(where, "content-length check after the read")
    if "RkEncodable" in out and not pos("RkToken") < pos("RkEncodable") < pos("@ret"):
        raise m.bad(where, "encodability check misplaced")
    return "[" + "; ".join(x for x in out if not x.startswith("@")) + "]"


# ---------------------------------------------------------------------------
# _refuse, disabled responder, helper bodies, factory route
# ---------------------------------------------------------------------------

def refuse_shape(m: _Mod) -> tuple[str, str]:
    fn = m.func("_refuse", "_TokenIntrospectionResource")
    where = "_refuse"
    if [a.arg for a in fn.args.args] != ["resp", "status", "error"]:
        raise m.bad(where, "signature changed")
    stmts = _body(fn)
    if not stmts or _u(stmts[0]) != "resp.status = status":
        raise m.bad(where, "does not set the status first")
    hs, data = _headers_after(m, stmts[1:], where)
    d = _compact_dump_dict(m, data, where)
    if len(d.keys) != 1 or not (isinstance(d.keys[0], ast.Constant) and isinstance(d.keys[0].value, str)) or _u(d.values[0]) != "error":
        raise m.bad(where, f"refusal body changed: {_u(d)}")
    return "[" + "; ".join(hs) + "]", _cstr(d.keys[0].value)


def disabled_shape(m: _Mod) -> str:
    fn = m.func("on_post", "_IntrospectionDisabledResource")
    where = "_IntrospectionDisabledResource.on_post"
    stmts = _body(fn)
    if not stmts or not (isinstance(stmts[0], ast.Assign) and _u(stmts[0].targets[0]) == "resp.status"):
        raise m.bad(where, "does not set the status first")
    status = _status(m, stmts[0].value, where)
    hs, data = _headers_after(m, stmts[1:], where)
    d = _compact_dump_dict(m, data, where)
    if len(d.keys) != 1 or not all(isinstance(x, ast.Constant) and isinstance(x.value, str) for x in (d.keys[0], d.values[0])):
        raise m.bad(where, f"body changed: {_u(d)}")
    if _names(fn) - {"resp", "HTTPStatus", "falcon", "json"}:
        raise m.bad(where, f"the disabled responder looks at {sorted(_names(fn) - {'resp', 'HTTPStatus', 'falcon', 'json'})}")
    return f"({status}, {_cstr(d.keys[0].value)}, {_cstr(d.values[0].value)}, [{'; '.join(hs)}])"  # type: ignore[union-attr]


_HELPERS = {
    (None, "_usable_ttl"): ["if isinstance(ttl, bool) or not isinstance(ttl, (int, float)):\n    return False", "return 0 < ttl < math.inf"],
    (None, "token_digest"): ["return hashlib.sha256(token.encode('utf-8')).hexdigest()"],
}


def helper_bodies(m: _Mod, steps: str) -> None:
    for (cls, name), want in _HELPERS.items():
        if name == "_usable_ttl" and "CTtlUnusable" not in steps:
            continue  # the guard is absent: nothing to pin (the tie on gen_steps reports the missing guard)
        got = [_u(s) for s in _body(m.func(name, cls))]
        if got != want:
            raise m.bad(name, f"body changed: {got}")
    got = [_u(s) for s in _body(m.func("_normalise_principals"))]
    if not got or got[0] != "allowed = frozenset((p for p in principals or () if p))" or got[-1] != "return allowed":
        raise m.bad("_normalise_principals", f"body changed: {got[:1]}")


def factory_route(factory: Path) -> None:
    m = _Mod(factory)
    want = (
        "app.add_route(f'{prefix}{INTROSPECT_ENDPOINT}', _TokenIntrospectionResource(introspect_resolver, "
        "_introspect_principals, introspect_rate_limit) if introspect_resolver is not None else _IntrospectionDisabledResource())"
    )
    hits = [n for n in ast.walk(m.tree) if isinstance(n, ast.Expr) and isinstance(n.value, ast.Call) and "INTROSPECT_ENDPOINT" in _u(n)]
    if [_u(h) for h in hits] != [want]:
        raise m.bad("make_wsgi_app", f"introspection route registration changed: {[_u(h)[:120] for h in hits]}")
    norm = [n for n in ast.walk(m.tree) if isinstance(n, ast.Assign) and _u(n) == "_introspect_principals = _normalise_principals(introspect_principals)"]
    if len(norm) != 1:
        raise m.bad("make_wsgi_app", "allowlist is no longer normalised by _normalise_principals")


def generate(repo: Path) -> str:
    src = repo / "vgi_rpc" / "http" / "server" / "_introspect.py"
    m = _Mod(src)
    steps = on_post_steps(m)
    helper_bodies(m, steps)
    factory_route(repo / "vgi_rpc" / "http" / "server" / "_factory.py")
    rh, rk = refuse_shape(m)
    out = [
        "From Coq Require Import List NArith ZArith.",
        "From VGI Require Import Regex M_TokIntrospect.",
        "Import ListNotations.",
        "Open Scope N_scope.",
        t_regex.regex_definition(src, "_JWS_SHAPED", "gen_jws_re"),
        f"Definition gen_max_body : N := {m.const_int('_MAX_BODY_BYTES')}.",
        f"Definition gen_max_token : N := {m.const_int('_MAX_TOKEN_CHARS')}.",
        f"Definition gen_checks : list rcheck := {read_token_checks(m)}.",
        f"Definition gen_steps : list step := {steps}.",
        f"Definition gen_refuse_headers : list hdr := {rh}.",
        f"Definition gen_refuse_key : str := {rk}.",
        f"Definition gen_disabled : N * str * str * list hdr := {disabled_shape(m)}.",
        "Definition params_gen : params := {|",
        "  p_jws := gen_jws_re; p_max_body := gen_max_body; p_max_token := gen_max_token;",
        "  p_checks := gen_checks; p_steps := gen_steps;",
        "  p_refuse_headers := gen_refuse_headers; p_refuse_key := gen_refuse_key; p_disabled := gen_disabled |}.",
    ]
    return "\n".join(out) + "\n"
