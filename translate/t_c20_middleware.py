"""Fail-closed translator for the ordered, guarded middleware list of ``make_wsgi_app`` (property C20).

Accepted shape, all inside ``make_wsgi_app``:
    middleware: list[Any] = [A(...), B(...), ...]          (once, at the top level)
    middleware.append(C(...))                              (any number, under ``if`` nests only)
    falcon.App(middleware=middleware or None)              (the one read)
Every constructed class must be a known middleware (``CLASSES``); every ``if`` test on the way to an ``append`` must be
built from known conditions (``t_c20_exempt.ATOMS``; ``_pkce_active`` is replaced by the test of the ``if`` that sets it).
Anything else -- another use of ``middleware`` (insert, extend, +=, slicing, reorder), an append inside a loop /
try / with / nested function, an unknown class or condition -- raises TranslationBroken.

Also checks which of the vgi middleware classes define ``process_request`` (informational table emitted as a comment).
"""
from __future__ import annotations

import ast
from pathlib import Path

from translate.t_c20_exempt import _parse, find_func, flag_definition, check_no_rebind, guards_term, name_uses, walk_guarded
from vlib.core import TranslationBroken

CLASSES = {
    "_AccessLogEgressMiddleware": "MwAccessLogEgress",
    "_TransportNotifyMiddleware": "MwTransportNotify",
    "_DrainRequestMiddleware": "MwDrain",
    "_RequestIdMiddleware": "MwRequestId",
    "_AccessLogContextMiddleware": "MwAccessLogCtx",
    "_ServerIdEnvMiddleware": "MwServerIdEnv",
    "_MaxRequestBytesMiddleware": "MwMaxBytes",
    "_CompressionMiddleware": "MwCompression",
    "_OtelFalconMiddleware": "MwOtel",
    "falcon.CORSMiddleware": "MwCors",
    "_CorsExtrasMiddleware": "MwCorsExtras",
    "_AuthMiddleware": "MwAuth",
    "_StickyMiddleware": "MwSticky",
    "_OAuthPkceMiddleware": "MwPkce",
    "_CapabilitiesMiddleware": "MwCapabilities",
}


def _ctor(e: ast.expr, site: str) -> str:
    if not isinstance(e, ast.Call):
        raise TranslationBroken(site, f"middleware entry is not a constructor call: {ast.unparse(e)[:80]!r}")
    name = ast.unparse(e.func)
    if name not in CLASSES:
        raise TranslationBroken(site, f"unknown middleware class {name!r}")
    return CLASSES[name]


def middleware_entries(repo: Path) -> list[tuple[str, str]]:
    fap = repo / "vgi_rpc" / "http" / "server" / "_factory.py"
    site = f"{fap}:make_wsgi_app"
    fn = find_func(_parse(fap).body, "make_wsgi_app", site)
    check_no_rebind(fn, site)
    subst = {"_pkce_active": flag_definition(fn, "_pkce_active", site)}
    entries: list[tuple[str, str]] = []
    seen_init = False
    seen_read = False
    accounted = 0
    for st, guards in walk_guarded(fn.body, site, subst):
        uses = name_uses(st, "middleware")
        if not uses:
            continue
        if seen_read:
            raise TranslationBroken(site, "middleware is touched after falcon.App(...) was built")
        if (isinstance(st, ast.AnnAssign) and isinstance(st.target, ast.Name) and st.target.id == "middleware"
                and isinstance(st.value, ast.List) and not guards and not seen_init and uses == 1):
            entries += [("GTrue", _ctor(e, site)) for e in st.value.elts]
            seen_init = True
            accounted += 1
            continue
        if (isinstance(st, ast.Expr) and isinstance(st.value, ast.Call) and ast.unparse(st.value.func) == "middleware.append"
                and len(st.value.args) == 1 and not st.value.keywords and uses == 1):
            if not seen_init:
                raise TranslationBroken(site, "middleware.append before the list exists")
            entries.append((guards_term(guards, site, subst), _ctor(st.value.args[0], site)))
            accounted += 1
            continue
        if (isinstance(st, ast.AnnAssign) and isinstance(st.value, ast.Call) and ast.unparse(st.value.func) == "falcon.App"
                and not st.value.args and len(st.value.keywords) == 1 and st.value.keywords[0].arg == "middleware"
                and ast.unparse(st.value.keywords[0].value) == "middleware or None" and not guards and uses == 1):
            seen_read = True
            accounted += 1
            continue
        raise TranslationBroken(site, f"unsupported use of `middleware`: {ast.unparse(st)[:100]!r}")
    if not seen_init or not seen_read:
        raise TranslationBroken(site, "middleware list initialisation or falcon.App(middleware=middleware or None) not found")
    if accounted != name_uses(fn, "middleware"):
        raise TranslationBroken(site, "`middleware` is used in a place the translator does not follow")
    # the app must not be told to run middleware dependently / re-ordered afterwards
    for n in ast.walk(fn):
        if isinstance(n, ast.Call) and ast.unparse(n.func) in ("app.add_middleware",):
            raise TranslationBroken(site, "app.add_middleware is used")
    return entries


def request_hooks(repo: Path) -> dict[str, bool]:
    """class name -> defines process_request / process_resource (for the classes of _middleware.py)."""
    tree = _parse(repo / "vgi_rpc" / "http" / "server" / "_middleware.py")
    out = {}
    for n in tree.body:
        if isinstance(n, ast.ClassDef) and n.name in CLASSES:
            out[n.name] = any(isinstance(f, ast.FunctionDef) and f.name in ("process_request", "process_resource") for f in n.body)
    return out


def definition(repo: Path, coq_name: str = "gen_middleware_list") -> str:
    entries = middleware_entries(repo)
    hooks = request_hooks(repo)
    body = ";\n    ".join(f"({g}, {m})" for g, m in entries)
    note = ", ".join(f"{k}={'req' if v else 'resp-only'}" for k, v in sorted(hooks.items()))
    return (
        "From Coq Require Import List NArith.\nFrom VGI Require Import M_Exempt.\nImport ListNotations.\nOpen Scope N_scope.\n"
        f"(* middleware list of make_wsgi_app in construction order; request hooks: {note} *)\n"
        f"Definition {coq_name} : list (guard * mw) :=\n  [ {body} ].\n"
    )
