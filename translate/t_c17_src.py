"""Fail-closed translator for C17: constants, the Encoding enum, the size guards of the two middlewares and
of the two chunk loops, the middleware installation order, and two source-shape flags -> coq/gen/G_ReqCaps.v.

Every construct is looked up at one syntactic position and must have one of the listed shapes; anything
else raises TranslationBroken (the generated file is then a stub and tie/T_ReqCaps.v stops compiling).
"""
from __future__ import annotations

import ast
from pathlib import Path
from typing import Any

from vlib.core import TranslationBroken

CODEC = "vgi_rpc/_codec.py"
MIDDLEWARE = "vgi_rpc/http/server/_middleware.py"
FACTORY = "vgi_rpc/http/server/_factory.py"


def _parse(repo: Path, rel: str) -> ast.Module:
    try:
        return ast.parse((repo / rel).read_text())
    except (OSError, SyntaxError) as e:
        raise TranslationBroken(rel, f"cannot parse: {e}") from e


def _func(tree: ast.AST, name: str, site: str, cls: str | None = None) -> ast.FunctionDef:
    scope: Any = tree
    if cls is not None:
        cands = [n for n in ast.walk(tree) if isinstance(n, ast.ClassDef) and n.name == cls]
        if len(cands) != 1:
            raise TranslationBroken(site, f"class {cls} not found exactly once")
        scope = cands[0]
    fs = [n for n in scope.body if isinstance(n, ast.FunctionDef) and n.name == name]
    if len(fs) != 1:
        raise TranslationBroken(site, f"function {name} not found exactly once")
    return fs[0]


def _one(nodes: list[Any], site: str, what: str) -> Any:
    if len(nodes) != 1:
        raise TranslationBroken(site, f"expected exactly one {what}, found {len(nodes)}")
    return nodes[0]


# ---- tiny arithmetic / comparison translator over N ------------------------------------------------
def _expr(n: ast.expr, names: dict[str, str], site: str) -> str:
    """Python int expression -> Coq N term.  `a - b` becomes truncated subtraction: the tie lemma states the
    term, L_ReqCaps proves the subtraction never truncates on reachable states (total <= cap)."""
    if isinstance(n, ast.Constant) and isinstance(n.value, int) and not isinstance(n.value, bool) and n.value >= 0:
        return f"{n.value}"
    key = ast.unparse(n)
    if key in names:
        return names[key]
    if isinstance(n, ast.BinOp) and isinstance(n.op, (ast.Add, ast.Sub)):
        op = "+" if isinstance(n.op, ast.Add) else "-"
        return f"({_expr(n.left, names, site)} {op} {_expr(n.right, names, site)})"
    if isinstance(n, ast.Call) and isinstance(n.func, ast.Name) and n.func.id == "min" and len(n.args) == 2 and not n.keywords:
        return f"(N.min {_expr(n.args[0], names, site)} {_expr(n.args[1], names, site)})"
    raise TranslationBroken(site, f"unsupported size expression {key!r}")


def _cmp(n: ast.expr, names: dict[str, str], site: str) -> str:
    if isinstance(n, ast.Compare) and len(n.ops) == 1:
        a, b = _expr(n.left, names, site), _expr(n.comparators[0], names, site)
        op = n.ops[0]
        if isinstance(op, ast.Gt):
            return f"({b} <? {a})"
        if isinstance(op, ast.Lt):
            return f"({a} <? {b})"
        if isinstance(op, ast.GtE):
            return f"({b} <=? {a})"
        if isinstance(op, ast.LtE):
            return f"({a} <=? {b})"
    raise TranslationBroken(site, f"unsupported guard {ast.unparse(n)!r}")


def _raises(stmts: list[ast.stmt], exc: str) -> bool:
    return (
        len(stmts) == 1
        and isinstance(stmts[0], ast.Raise)
        and isinstance(stmts[0].exc, ast.Call)
        and isinstance(stmts[0].exc.func, ast.Name)
        and stmts[0].exc.func.id == exc
    )


# ---- _codec.py --------------------------------------------------------------------------------------
def chunk_const(tree: ast.Module) -> int:
    site = f"{CODEC}:_DECOMPRESS_CHUNK_BYTES"
    hits = [n for n in tree.body if isinstance(n, ast.Assign) and len(n.targets) == 1 and isinstance(n.targets[0], ast.Name) and n.targets[0].id == "_DECOMPRESS_CHUNK_BYTES"]
    node = _one(hits, site, "assignment")
    if not (isinstance(node.value, ast.Constant) and isinstance(node.value.value, int) and node.value.value > 0):
        raise TranslationBroken(site, "not a positive int literal")
    return int(node.value.value)


def enc_table(tree: ast.Module) -> list[tuple[str, str]]:
    site = f"{CODEC}:Encoding"
    cls = _one([n for n in tree.body if isinstance(n, ast.ClassDef) and n.name == "Encoding"], site, "class")
    out = []
    for st in cls.body:
        if isinstance(st, ast.Expr) and isinstance(st.value, ast.Constant) and isinstance(st.value.value, str):
            continue  # docstring
        if isinstance(st, ast.Assign) and len(st.targets) == 1 and isinstance(st.targets[0], ast.Name) and isinstance(st.value, ast.Constant) and isinstance(st.value.value, str):
            out.append((st.targets[0].id, st.value.value))
            continue
        raise TranslationBroken(site, f"unexpected class member {ast.unparse(st)[:60]!r}")
    known = {"ZSTD": "Zstd", "GZIP": "Gzip", "IDENTITY": "Identity"}
    for name, val in out:
        if name not in known:
            raise TranslationBroken(site, f"Encoding member {name} is not modelled")
        if not val.isascii():
            raise TranslationBroken(site, "non-ASCII wire name")
    return [(known[n], v) for n, v in out]


def no_shared_decoder(tree: ast.Module) -> None:
    """Source obligation "no decoder object is shared between requests": every zstandard.ZstdDecompressor(...) /
    zlib.decompressobj(...) is constructed inside the (undecorated) function that decodes ONE body, and the object a
    stream_reader / decompress call is made on is such a fresh construction (directly, or through a local name)."""
    site = f"{CODEC}:decoder-object-per-body"
    owners = {"_decompress_body_zstd": "ZstdDecompressor", "_decompress_body_gzip": "decompressobj"}

    def is_ctor(n: ast.AST) -> bool:
        return isinstance(n, ast.Call) and ast.unparse(n.func) in ("zstandard.ZstdDecompressor", "zlib.decompressobj", "ZstdDecompressor", "decompressobj")

    inside: set[int] = set()
    for f in tree.body:
        if isinstance(f, ast.FunctionDef) and f.name in owners:
            if f.decorator_list:
                raise TranslationBroken(site, f"{f.name} is decorated")
            fresh = {t.id for st in ast.walk(f) if isinstance(st, ast.Assign) and is_ctor(st.value) for t in st.targets if isinstance(t, ast.Name)}
            for st in ast.walk(f):
                if isinstance(st, (ast.Global, ast.Nonlocal)):
                    raise TranslationBroken(site, f"{f.name} declares global/nonlocal names")
                if is_ctor(st):
                    inside.add(id(st))
                if isinstance(st, ast.Call) and isinstance(st.func, ast.Attribute) and st.func.attr in ("stream_reader", "decompress") and f.name == "_decompress_body_zstd":
                    recv = st.func.value
                    if not (is_ctor(recv) or (isinstance(recv, ast.Name) and recv.id in fresh)):
                        raise TranslationBroken(site, f"{f.name}: {ast.unparse(st.func)} is called on an object not constructed for this body ({ast.unparse(recv)})")
                if isinstance(st, ast.Call) and isinstance(st.func, ast.Attribute) and st.func.attr in ("decompress", "flush") and f.name == "_decompress_body_gzip":
                    recv = st.func.value
                    if not (isinstance(recv, ast.Name) and recv.id in fresh):
                        raise TranslationBroken(site, f"{f.name}: {ast.unparse(st.func)} is called on an object not constructed for this body ({ast.unparse(recv)})")
    for n in ast.walk(tree):
        if is_ctor(n) and id(n) not in inside:
            raise TranslationBroken(site, f"a decoder object is constructed outside the per-body decode functions (line {getattr(n, 'lineno', '?')})")
    for n in ast.walk(tree):
        if isinstance(n, ast.FunctionDef) and any("cache" in ast.unparse(d) for d in n.decorator_list) and "ecompress" in n.name:
            raise TranslationBroken(site, f"{n.name} caches a decoder-related object")


def zstd_loop(tree: ast.Module) -> dict[str, str]:
    site = f"{CODEC}:_decompress_body_zstd"
    fn = _func(tree, "_decompress_body_zstd", site)
    names = {"_DECOMPRESS_CHUNK_BYTES": "chunkc", "max_output_size": "cap", "total": "total", "declared": "declared", "len(chunk)": "n"}
    # up-front refusal: if declared is not None and declared > max_output_size: raise Limit
    pre = [
        n for n in fn.body
        if isinstance(n, ast.If) and isinstance(n.test, ast.BoolOp) and isinstance(n.test.op, ast.And) and len(n.test.values) == 2
        and ast.unparse(n.test.values[0]) == "declared is not None" and _raises(n.body, "DecompressionLimitExceeded") and not n.orelse
    ]
    pre_if = _one(pre, site, "declared-size pre-check")
    idx_pre = fn.body.index(pre_if)
    # the one-shot call must come after the pre-check: `if declared is not None: return ...decompress(data)`
    one = [n for n in fn.body[idx_pre + 1 :] if isinstance(n, ast.If) and ast.unparse(n.test) == "declared is not None" and len(n.body) == 1 and isinstance(n.body[0], ast.Return) and ast.unparse(n.body[0].value) == "zstandard.ZstdDecompressor().decompress(data)"]
    _one(one, site, "one-shot decode after the pre-check")
    loops = [n for n in ast.walk(fn) if isinstance(n, ast.While)]
    loop = _one(loops, site, "while loop")
    if ast.unparse(loop.test) != "True" or len(loop.body) != 5:
        raise TranslationBroken(site, "loop shape changed")
    s_read, s_brk, s_add, s_guard, s_app = loop.body
    if not (isinstance(s_read, ast.Assign) and ast.unparse(s_read.targets[0]) == "chunk" and isinstance(s_read.value, ast.Call) and ast.unparse(s_read.value.func) == "reader.read" and len(s_read.value.args) == 1 and not s_read.value.keywords):
        raise TranslationBroken(site, "read statement changed")
    if ast.unparse(s_brk) != "if not chunk:\n    break":
        raise TranslationBroken(site, "break statement changed")
    if ast.unparse(s_add) != "total += len(chunk)":
        raise TranslationBroken(site, "accumulation changed")
    if not (isinstance(s_guard, ast.If) and _raises(s_guard.body, "DecompressionLimitExceeded") and not s_guard.orelse):
        raise TranslationBroken(site, "limit guard changed")
    if ast.unparse(s_app) != "chunks.append(chunk)":
        raise TranslationBroken(site, "append changed")
    return {
        "gen_zstd_declared_guard": f"fun (cap declared : N) => {_cmp(pre_if.test.values[1], names, site)}",
        "gen_zstd_req": f"fun (chunkc cap total : N) => {_expr(s_read.value.args[0], names, site)}",
        "gen_zstd_total_guard": f"fun (cap total : N) => {_cmp(s_guard.test, names, site)}",
    }


def gzip_loop(tree: ast.Module) -> tuple[dict[str, str], bool, bool]:
    site = f"{CODEC}:_decompress_body_gzip"
    fn = _func(tree, "_decompress_body_gzip", site)
    names = {"_DECOMPRESS_CHUNK_BYTES": "chunkc", "max_output_size": "cap", "total": "total"}
    loop = _one([n for n in ast.walk(fn) if isinstance(n, ast.While)], site, "while loop")
    if ast.unparse(loop.test) != "remaining or do.unconsumed_tail" or len(loop.body) != 4:
        raise TranslationBroken(site, "loop shape changed")
    s_in, s_dec, s_chunk, s_brk = loop.body
    if ast.unparse(s_in) != "if do.unconsumed_tail:\n    inbuf = do.unconsumed_tail\nelse:\n    inbuf, remaining = (remaining, b'')":
        raise TranslationBroken(site, "input selection changed")
    if not (isinstance(s_dec, ast.Assign) and ast.unparse(s_dec.targets[0]) == "chunk" and isinstance(s_dec.value, ast.Call) and ast.unparse(s_dec.value.func) == "do.decompress" and len(s_dec.value.args) == 2 and ast.unparse(s_dec.value.args[0]) == "inbuf"):
        raise TranslationBroken(site, "decompress statement changed")
    if not (isinstance(s_chunk, ast.If) and ast.unparse(s_chunk.test) == "chunk" and len(s_chunk.body) == 3 and ast.unparse(s_chunk.body[0]) == "total += len(chunk)" and isinstance(s_chunk.body[1], ast.If) and _raises(s_chunk.body[1].body, "DecompressionLimitExceeded") and ast.unparse(s_chunk.body[2]) == "chunks.append(chunk)" and not s_chunk.orelse):
        raise TranslationBroken(site, "chunk handling changed")
    brk = ast.unparse(s_brk)
    if brk == "if not chunk and (not do.unconsumed_tail):\n    break":
        eof_break = False
    elif brk == "if do.eof or (not chunk and (not do.unconsumed_tail)):\n    break":
        eof_break = True
    else:
        raise TranslationBroken(site, "break statement changed")
    idx = fn.body.index(loop)
    rest = fn.body[idx + 1 :]
    if len(rest) < 3 or ast.unparse(rest[0]) != "tail = do.flush()":
        raise TranslationBroken(site, "flush statement changed")
    s_tail = rest[1]
    if not (isinstance(s_tail, ast.If) and ast.unparse(s_tail.test) == "tail" and len(s_tail.body) == 3 and ast.unparse(s_tail.body[0]) == "total += len(tail)" and isinstance(s_tail.body[1], ast.If) and _raises(s_tail.body[1].body, "DecompressionLimitExceeded") and ast.unparse(s_tail.body[2]) == "chunks.append(tail)"):
        raise TranslationBroken(site, "tail handling changed")
    # optional end-of-stream test between the tail handling and the return
    after = rest[2:]
    eof_capped = False
    if len(after) == 2 and isinstance(after[0], ast.If) and ast.unparse(after[0].test) == "not do.eof" and _raises(after[0].body, "DecompressionError") and not after[0].orelse:
        eof_capped = True
        after = after[1:]
    if not (len(after) == 1 and ast.unparse(after[0]) == "return b''.join(chunks)"):
        raise TranslationBroken(site, "statements after the tail handling changed")
    # the uncapped branch: `if max_output_size is None:` either returns decompress+flush directly, or binds it,
    # tests do.eof and returns
    unc = _one([n for n in fn.body[:idx] if isinstance(n, ast.If) and ast.unparse(n.test) == "max_output_size is None"], site, "uncapped branch")
    body = [ast.unparse(s) for s in unc.body]
    if body == ["return do.decompress(data) + do.flush()"]:
        eof_uncapped = False
    elif len(unc.body) == 3 and body[0] == "out = do.decompress(data) + do.flush()" and isinstance(unc.body[1], ast.If) and ast.unparse(unc.body[1].test) == "not do.eof" and _raises(unc.body[1].body, "DecompressionError") and body[2] == "return out":
        eof_uncapped = True
    else:
        raise TranslationBroken(site, "uncapped branch changed")
    if eof_capped != eof_uncapped:
        raise TranslationBroken(site, "end-of-stream test present in only one of the two branches")
    return (
        {
            "gen_gzip_req": f"fun (chunkc cap total : N) => {_expr(s_dec.value.args[1], names, site)}",
            "gen_gzip_total_guard": f"fun (cap total : N) => {_cmp(s_chunk.body[1].test, names, site)}",
            "gen_gzip_tail_guard": f"fun (cap total : N) => {_cmp(s_tail.body[1].test, names, site)}",
        },
        eof_capped,
        eof_break,
    )


# ---- _middleware.py ---------------------------------------------------------------------------------
def cap_middleware(tree: ast.Module) -> dict[str, str]:
    site = f"{MIDDLEWARE}:_MaxRequestBytesMiddleware.process_request"
    fn = _func(tree, "process_request", site, cls="_MaxRequestBytesMiddleware")
    names = {"self._max_bytes": "cap", "cl": "cl", "len(body)": "blen"}
    stmts = [s for s in fn.body if not (isinstance(s, ast.Expr) and isinstance(s.value, ast.Constant))]
    if len(stmts) != 5:
        raise TranslationBroken(site, "statement count changed")
    s_path, s_for, s_cl, s_if1, s_if2 = stmts
    if ast.unparse(s_path) != "path = req.path" or not isinstance(s_for, ast.For) or ast.unparse(s_cl) != "cl = req.content_length":
        raise TranslationBroken(site, "prologue changed")
    if ast.unparse(s_for) != "for prefix in self._exempt_prefixes:\n    if path == prefix or path.startswith(prefix + '/'):\n        return":
        raise TranslationBroken(site, "exemption loop changed")
    if not (isinstance(s_if1, ast.If) and isinstance(s_if1.test, ast.BoolOp) and isinstance(s_if1.test.op, ast.And) and len(s_if1.test.values) == 2 and ast.unparse(s_if1.test.values[0]) == "cl is not None" and ast.unparse(s_if1.body[0]) == "self._raise_too_large(cl)" and len(s_if1.body) == 1 and not s_if1.orelse):
        raise TranslationBroken(site, "Content-Length guard changed")
    if not (isinstance(s_if2, ast.If) and ast.unparse(s_if2.test) == "cl is None" and len(s_if2.body) == 3 and not s_if2.orelse):
        raise TranslationBroken(site, "no-Content-Length branch changed")
    r, g, a = s_if2.body
    if not (isinstance(r, ast.Assign) and ast.unparse(r.targets[0]) == "body" and isinstance(r.value, ast.Call) and ast.unparse(r.value.func) == "req.bounded_stream.read" and len(r.value.args) == 1):
        raise TranslationBroken(site, "bounded read changed")
    if not (isinstance(g, ast.If) and ast.unparse(g.body[0]) == "self._raise_too_large(len(body))" and len(g.body) == 1 and not g.orelse):
        raise TranslationBroken(site, "sentinel guard changed")
    if ast.unparse(a) != "req.context.capped_request_body = body":
        raise TranslationBroken(site, "capped body hand-over changed")
    rt = _func(tree, "_raise_too_large", site, cls="_MaxRequestBytesMiddleware")
    if not (len([s for s in rt.body if isinstance(s, ast.Raise)]) == 1 and "falcon.HTTPContentTooLarge(" in ast.unparse(rt)):
        raise TranslationBroken(site, "_raise_too_large no longer raises HTTPContentTooLarge")
    return {
        "gen_cap_cl_guard": f"fun (cap cl : N) => {_cmp(s_if1.test.values[1], names, site)}",
        "gen_cap_read_size": f"fun (cap : N) => {_expr(r.value.args[0], names, site)}",
        "gen_cap_len_guard": f"fun (cap blen : N) => {_cmp(g.test, names, site)}",
    }


def compression_request(tree: ast.Module) -> bool:
    """Checks the order token -> unknown(415) -> [identity] -> disabled(415) -> decode with 413/400 mapping;
    returns whether the identity arm is present."""
    site = f"{MIDDLEWARE}:_CompressionMiddleware.process_request"
    fn = _func(tree, "process_request", site, cls="_CompressionMiddleware")
    stmts = fn.body
    start = [i for i, s in enumerate(stmts) if ast.unparse(s) == "content_encoding = (req.get_header('Content-Encoding') or '').strip().lower()"]
    i = _one(start, site, "token normalisation")
    rest = stmts[i + 1 :]
    if len(rest) < 5:
        raise TranslationBroken(site, "too few statements after token normalisation")
    if ast.unparse(rest[0]) != "if not content_encoding:\n    return":
        raise TranslationBroken(site, "empty-token arm changed")
    if ast.unparse(rest[1]) != "req_enc = next((e for e in Encoding if e.value == content_encoding), None)":
        raise TranslationBroken(site, "token lookup changed")
    if not (isinstance(rest[2], ast.If) and ast.unparse(rest[2].test) == "req_enc is None" and _raises(rest[2].body, "falcon.HTTPUnsupportedMediaType") is False):
        pass
    def raises_attr(sts: list[ast.stmt], name: str) -> bool:
        return len(sts) == 1 and isinstance(sts[0], ast.Raise) and isinstance(sts[0].exc, ast.Call) and ast.unparse(sts[0].exc.func) == name
    if not (isinstance(rest[2], ast.If) and ast.unparse(rest[2].test) == "req_enc is None" and raises_attr(rest[2].body, "falcon.HTTPUnsupportedMediaType") and not rest[2].orelse):
        raise TranslationBroken(site, "unknown-coding arm changed")
    k = 3
    identity = False
    if isinstance(rest[k], ast.If) and ast.unparse(rest[k].test) == "req_enc is Encoding.IDENTITY":
        if not (len(rest[k].body) == 1 and isinstance(rest[k].body[0], ast.Return) and rest[k].body[0].value is None and not rest[k].orelse):
            raise TranslationBroken(site, "identity arm has an unexpected body")
        identity = True
        k += 1
    if not (isinstance(rest[k], ast.If) and ast.unparse(rest[k].test) == "req_enc not in self._decode" and raises_attr(rest[k].body, "falcon.HTTPUnsupportedMediaType") and not rest[k].orelse):
        raise TranslationBroken(site, "disabled-coding arm changed")
    tr = rest[k + 1]
    if not (isinstance(tr, ast.Try) and len(rest) == k + 2 and len(tr.handlers) == 2 and not tr.orelse and not tr.finalbody):
        raise TranslationBroken(site, "decode try-block changed")
    want_body = [
        "compressed = getattr(req.context, 'capped_request_body', None)",
        "if compressed is None:\n    compressed = req.bounded_stream.read()",
        "decompressed = _decompress_with_encoding(req_enc, compressed, max_output_size=self._max_decompressed_bytes)",
        "req.context.decompressed_stream = pa.BufferReader(decompressed)",
        "_current_request_batch.set(decompressed)",
    ]
    if [ast.unparse(s) for s in tr.body] != want_body:
        raise TranslationBroken(site, "decode body changed")
    h1, h2 = tr.handlers
    if not (ast.unparse(h1.type) == "DecompressionLimitExceeded" and raises_attr(h1.body, "falcon.HTTPContentTooLarge")):
        raise TranslationBroken(site, "limit handler changed")
    if not (ast.unparse(h2.type) == "Exception" and raises_attr(h2.body, "falcon.HTTPBadRequest")):
        raise TranslationBroken(site, "error handler changed")
    return identity


# ---- _factory.py ------------------------------------------------------------------------------------
def factory(tree: ast.Module) -> list[str]:
    site = f"{FACTORY}:make_wsgi_app"
    fn = _one([n for n in ast.walk(tree) if isinstance(n, ast.FunctionDef) and n.name == "make_wsgi_app"], site, "function")
    src = [ast.unparse(s) for s in fn.body]
    def index(text: str, what: str) -> int:
        hits = [i for i, s in enumerate(src) if s == text]
        return int(_one(hits, site, what))
    i_cap = index(
        "if max_request_bytes is not None:\n    middleware.append(_MaxRequestBytesMiddleware(max_request_bytes, exempt_prefixes=(f'{prefix}/health',)))",
        "cap middleware installation",
    )
    i_dec = index(
        "decodable: tuple[Encoding, ...] = tuple((enc for enc in (Encoding.ZSTD, Encoding.GZIP) if enc in runtime and (not (zstd_disabled and enc is Encoding.ZSTD))))",
        "decodable set",
    )
    index("runtime = set(available_encodings())", "runtime set")
    index("zstd_disabled = os.environ.get('VGI_HTTP_DISABLE_ZSTD') == '1'", "zstd switch")
    i_cmp = index(
        "if decodable or codec_levels:\n    max_decompressed_bytes = max_request_bytes\n    middleware.append(_CompressionMiddleware(codec_levels, decode_encodings=decodable, max_decompressed_bytes=max_decompressed_bytes))",
        "compression middleware installation",
    )
    if not (i_cap < i_dec < i_cmp):
        raise TranslationBroken(site, "cap middleware is no longer installed before the compression middleware")
    # nothing between the two may append a middleware that reads the body
    for s in src[i_cap + 1 : i_cmp]:
        if "middleware.append" in s or "middleware.insert" in s:
            raise TranslationBroken(site, "a middleware is installed between the cap and the compression middleware")
    # the middlewares installed before the cap: none of them may touch the body on the request path
    head = _one([s for s in fn.body if isinstance(s, ast.AnnAssign) and ast.unparse(s.target) == "middleware"], site, "middleware list")
    names = [ast.unparse(e.func) for e in head.value.elts if isinstance(e, ast.Call)] if isinstance(head.value, ast.List) else None
    if names != ["_AccessLogEgressMiddleware", "_TransportNotifyMiddleware", "_DrainRequestMiddleware", "_RequestIdMiddleware", "_AccessLogContextMiddleware"]:
        raise TranslationBroken(site, f"initial middleware list changed: {names}")
    return ["Zstd", "Gzip"]


def _init_filter(tree: ast.Module) -> None:
    """_CompressionMiddleware.__init__: self._decode = tuple(enc for enc in decodable if enc in runtime)."""
    site = f"{MIDDLEWARE}:_CompressionMiddleware.__init__"
    fn = _func(tree, "__init__", site, cls="_CompressionMiddleware")
    src = [ast.unparse(s) for s in fn.body]
    for want in (
        "decodable = tuple(encode_levels) if decode_encodings is None else tuple(decode_encodings)",
        "self._decode: tuple[Encoding, ...] = tuple((enc for enc in decodable if enc in runtime))",
        "self._max_decompressed_bytes = max_decompressed_bytes",
        "runtime = set(available_encodings())",
    ):
        if want not in src:
            raise TranslationBroken(site, f"statement missing: {want}")


def extract(repo: Path) -> dict[str, Any]:
    codec = _parse(repo, CODEC)
    mw = _parse(repo, MIDDLEWARE)
    fac = _parse(repo, FACTORY)
    defs: dict[str, str] = {}
    no_shared_decoder(codec)
    defs.update(zstd_loop(codec))
    gz, gz_eof, gz_break = gzip_loop(codec)
    defs.update(gz)
    defs.update(cap_middleware(mw))
    _init_filter(mw)
    # decompress(): dispatch order identity / zstd / gzip with the cap passed through
    dfn = _func(codec, "decompress", f"{CODEC}:decompress")
    body = [ast.unparse(s) for s in dfn.body if not (isinstance(s, ast.Expr) and isinstance(s.value, ast.Constant))]
    if body != [
        "if encoding is Encoding.IDENTITY:\n    return data",
        "if encoding is Encoding.ZSTD:\n    return _decompress_body_zstd(data, max_output_size=max_output_size)",
        "if encoding is Encoding.GZIP:\n    return _decompress_body_gzip(data, max_output_size=max_output_size)",
        "raise ValueError(f'Unsupported encoding: {encoding!r}')",
    ]:
        raise TranslationBroken(f"{CODEC}:decompress", "dispatch changed")
    return {
        "chunk": chunk_const(codec),
        "enc_table": enc_table(codec),
        "defs": defs,
        "gzip_eof_check": gz_eof,
        "gzip_eof_break": gz_break,
        "identity_pass": compression_request(mw),
        "candidates": factory(fac),
    }


def coq_text(repo: Path) -> str:
    x = extract(repo)
    lines = [
        "From Coq Require Import List NArith Bool.",
        "From VGI Require Import M_ReqCaps.",
        "Import ListNotations.",
        "Open Scope N_scope.",
        f"Definition gen_chunk : N := {x['chunk']}.",
        "Definition gen_enc_table : list (enc * list N) := ["
        + "; ".join(f"({e}, [{'; '.join(str(ord(c)) for c in v)}])" for e, v in x["enc_table"])
        + "].",
        f"Definition gen_decodable_candidates : list enc := [{'; '.join(x['candidates'])}].",
        f"Definition gen_identity_pass : bool := {'true' if x['identity_pass'] else 'false'}.",
        f"Definition gen_gzip_eof_check : bool := {'true' if x['gzip_eof_check'] else 'false'}.",
        f"Definition gen_gzip_eof_break : bool := {'true' if x['gzip_eof_break'] else 'false'}.",
    ]
    for name, body in sorted(x["defs"].items()):
        lines.append(f"Definition {name} := {body}.")
    return "\n".join(lines) + "\n"
