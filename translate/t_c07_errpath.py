"""Fail-closed translator for property C07 (the error path) -> coq/gen/G_WireErr.v.

Reads from the tree under test and emits

* the metadata key constants of ``vgi_rpc/metadata.py`` and ``RPC_ERROR_HEADER`` (``vgi_rpc/http/_common.py``) as
  code-point lists (``gen_K_*``, ``gen_RPC_ERROR_HEADER``);
* ``_set_http_status`` (``vgi_rpc/http/server/_responses.py``) as the Coq FUNCTION ``gen_set_http_status : N -> N * bool``
  (status sent, marker header set) -- only the shape ``if status_code == HTTPStatus.<X>: resp.status = "<n>";
  resp.set_header(RPC_ERROR_HEADER, "true") else: resp.status = str(status_code.value)`` is accepted;
* the data flow of the error triple as tables of normalised source expressions (``ast.unparse``):
  ``gen_from_exception`` (summary f-string pieces, the extras written unconditionally, the error_kind guard),
  ``gen_hoist`` (the error_kind hoist of ``Message.add_to_metadata``), ``gen_client_raise`` (how
  ``_dispatch_log_or_error`` builds every argument of ``RpcError`` on an EXCEPTION batch),
  ``gen_rpcerror_fields`` (``RpcError.__init__``: attribute <- parameter, and the text handed to ``Exception``);
* ``gen_http_sites``: for the HTTP dispatch functions the ordered ``except`` clauses together with the status effect of
  each handler body (which HTTPStatus it stores / raises as ``_RpcHttpError`` / sets in ``_current_response_status``).

coq/tie/T_WireErr.v proves each equal to what coq/model/M_WireErr.v was written against.
"""
from __future__ import annotations

import ast
from http import HTTPStatus
from pathlib import Path

from vlib.core import TranslationBroken


def _parse(p: Path) -> ast.Module:
    if not p.exists():
        raise TranslationBroken(str(p), "file not found")
    return ast.parse(p.read_text())


def _func(tree: ast.AST, name: str, site: str) -> ast.FunctionDef:
    for n in ast.walk(tree):
        if isinstance(n, ast.FunctionDef) and n.name == name:
            return n
    raise TranslationBroken(site, f"function {name} not found")


def _class(tree: ast.Module, name: str, site: str) -> ast.ClassDef:
    for n in tree.body:
        if isinstance(n, ast.ClassDef) and n.name == name:
            return n
    raise TranslationBroken(site, f"class {name} not found")


def _cstr(x: str) -> str:
    return "([" + ";".join(str(ord(c)) for c in x) + "]%N : list N)"


def _q(x: str) -> str:
    if any(ord(c) > 126 or ord(c) < 32 for c in x):
        raise TranslationBroken("string", f"non-printable source text {x!r}")
    return '"' + x.replace('"', '""') + '"'


def _qlist(xs: list[str]) -> str:
    return "[" + "; ".join(_q(x) for x in xs) + "]"


def _body(f: ast.FunctionDef) -> list[ast.stmt]:
    b = list(f.body)
    if b and isinstance(b[0], ast.Expr) and isinstance(b[0].value, ast.Constant) and isinstance(b[0].value.value, str):
        b = b[1:]
    return b


# --------------------------------------------------------------------------- constants
def _bytes_consts(repo: Path) -> dict[str, str]:
    src = repo / "vgi_rpc" / "metadata.py"
    tree = _parse(src)
    want = ["LOG_LEVEL_KEY", "LOG_MESSAGE_KEY", "LOG_EXTRA_KEY", "ERROR_KIND_KEY", "SERVER_ID_KEY", "REQUEST_ID_KEY"]
    got: dict[str, str] = {}
    for n in tree.body:
        if isinstance(n, ast.Assign) and len(n.targets) == 1 and isinstance(n.targets[0], ast.Name) and n.targets[0].id in want:
            if not (isinstance(n.value, ast.Constant) and isinstance(n.value.value, bytes)):
                raise TranslationBroken(f"{src}:{n.lineno}", "metadata key is not a bytes literal")
            if n.targets[0].id in got:
                raise TranslationBroken(f"{src}:{n.lineno}", "metadata key bound twice")
            got[n.targets[0].id] = n.value.value.decode("utf-8")
    for w in want:
        if w not in got:
            raise TranslationBroken(str(src), f"{w} not found")
    return got


def _marker_header(repo: Path) -> str:
    src = repo / "vgi_rpc" / "http" / "_common.py"
    for n in _parse(src).body:
        if isinstance(n, ast.Assign) and len(n.targets) == 1 and isinstance(n.targets[0], ast.Name) and n.targets[0].id == "RPC_ERROR_HEADER":
            if isinstance(n.value, ast.Constant) and isinstance(n.value.value, str):
                return n.value.value
            raise TranslationBroken(f"{src}:{n.lineno}", "RPC_ERROR_HEADER is not a str literal")
    raise TranslationBroken(str(src), "RPC_ERROR_HEADER not found")


# --------------------------------------------------------------------------- _set_http_status as a function
def _set_http_status(repo: Path) -> str:
    src = repo / "vgi_rpc" / "http" / "server" / "_responses.py"
    f = _func(_parse(src), "_set_http_status", str(src))
    site = f"{src}:_set_http_status"
    if [a.arg for a in f.args.args] != ["resp", "status_code"]:
        raise TranslationBroken(site, "unexpected parameters")
    body = _body(f)
    if len(body) != 1 or not isinstance(body[0], ast.If):
        raise TranslationBroken(site, "body is not a single if/else")
    st = body[0]
    t = st.test
    if not (isinstance(t, ast.Compare) and len(t.ops) == 1 and isinstance(t.ops[0], ast.Eq) and isinstance(t.left, ast.Name) and t.left.id == "status_code"
            and isinstance(t.comparators[0], ast.Attribute) and isinstance(t.comparators[0].value, ast.Name) and t.comparators[0].value.id == "HTTPStatus"):
        raise TranslationBroken(site, "test is not `status_code == HTTPStatus.<NAME>`")
    try:
        trigger = HTTPStatus[t.comparators[0].attr].value
    except KeyError as e:
        raise TranslationBroken(site, f"unknown HTTPStatus member {t.comparators[0].attr}") from e
    if [ast.unparse(x) for x in st.body[1:]] != ["resp.set_header(RPC_ERROR_HEADER, 'true')"] or len(st.body) != 2:
        raise TranslationBroken(site, "then-branch is not `resp.status = <lit>; resp.set_header(RPC_ERROR_HEADER, 'true')`")
    a = st.body[0]
    if not (isinstance(a, ast.Assign) and ast.unparse(a.targets[0]) == "resp.status" and isinstance(a.value, ast.Constant) and isinstance(a.value.value, str) and a.value.value.isdigit()):
        raise TranslationBroken(site, "then-branch does not assign a numeric status literal")
    sent = int(a.value.value)
    if [ast.unparse(x) for x in st.orelse] != ["resp.status = str(status_code.value)"]:
        raise TranslationBroken(site, "else-branch is not `resp.status = str(status_code.value)`")
    return f"Definition gen_set_http_status (code : N) : N * bool := if (code =? {trigger})%N then ({sent}%N, true) else (code, false).\n"


# --------------------------------------------------------------------------- Message.from_exception / add_to_metadata
def _from_exception(repo: Path) -> tuple[list[str], list[tuple[str, str]], list[str], list[str]]:
    src = repo / "vgi_rpc" / "log.py"
    cls = _class(_parse(src), "Message", str(src))
    f = _func(cls, "from_exception", str(src))
    site = f"{src}:Message.from_exception"
    summary: list[str] | None = None
    extras: list[tuple[str, str]] | None = None
    guard: list[str] = []
    ret: str | None = None
    for n in _body(f):
        if isinstance(n, ast.Assign) and ast.unparse(n.targets[0]) == "summary":
            if not isinstance(n.value, ast.JoinedStr):
                raise TranslationBroken(site, "summary is not an f-string")
            summary = []
            for v in n.value.values:
                if isinstance(v, ast.Constant):
                    summary.append(str(v.value))
                elif isinstance(v, ast.FormattedValue) and v.conversion == -1 and v.format_spec is None:
                    summary.append("{" + ast.unparse(v.value) + "}")
                else:
                    raise TranslationBroken(site, "summary f-string uses a conversion / format spec")
        elif isinstance(n, ast.AnnAssign) and ast.unparse(n.target) == "extra":
            if not isinstance(n.value, ast.Dict):
                raise TranslationBroken(site, "extra is not a dict literal")
            extras = []
            for k, v in zip(n.value.keys, n.value.values):
                if not (isinstance(k, ast.Constant) and isinstance(k.value, str)):
                    raise TranslationBroken(site, "extra key is not a str literal")
                extras.append((k.value, ast.unparse(v)))
        elif isinstance(n, ast.Assign) and ast.unparse(n.targets[0]) == "kind":
            guard.append(ast.unparse(n))
        elif isinstance(n, ast.If) and "kind" in ast.unparse(n.test):
            guard.append("if " + ast.unparse(n.test) + ": " + "; ".join(ast.unparse(x) for x in n.body))
            if n.orelse:
                raise TranslationBroken(site, "error_kind guard has an else branch")
        elif isinstance(n, ast.Return):
            ret = ast.unparse(n.value) if n.value is not None else ""
    # any other write to extra["exception_type" | "traceback" | "error_kind"] would change the triple
    for n in ast.walk(f):
        if isinstance(n, ast.Subscript) and isinstance(n.ctx, ast.Store) and ast.unparse(n.value) == "extra":
            key = ast.unparse(n.slice)
            if key not in ("'cause'", "'context'", "'frames'", "'error_kind'"):
                raise TranslationBroken(site, f"unexpected write extra[{key}]")
    if summary is None or extras is None or ret is None or len(guard) != 2:
        raise TranslationBroken(site, "summary / extra / error_kind guard / return not found in the expected shape")
    hoist_f = _func(cls, "add_to_metadata", str(src))
    hoist: list[str] = []
    for n in _body(hoist_f):
        hoist.append(ast.unparse(n).replace("\n", " ; "))
    hoist = [" ".join(h.split()) for h in hoist]
    return summary, extras, guard + ["return " + ret], hoist


# --------------------------------------------------------------------------- client: _dispatch_log_or_error, RpcError
def _client_raise(repo: Path) -> list[tuple[str, str]]:
    src = repo / "vgi_rpc" / "rpc" / "_wire.py"
    f = _func(_parse(src), "_dispatch_log_or_error", str(src))
    site = f"{src}:_dispatch_log_or_error"
    defs: dict[str, str] = {}
    for n in ast.walk(f):
        if isinstance(n, ast.Assign) and len(n.targets) == 1 and isinstance(n.targets[0], ast.Name):
            defs.setdefault(n.targets[0].id, [])  # type: ignore[arg-type]
            defs[n.targets[0].id].append(ast.unparse(n.value))  # type: ignore[attr-defined]
        if isinstance(n, ast.AnnAssign) and isinstance(n.target, ast.Name) and n.value is not None:
            defs.setdefault(n.target.id, [])  # type: ignore[arg-type]
            defs[n.target.id].append(ast.unparse(n.value))  # type: ignore[attr-defined]
    block = None
    for n in ast.walk(f):
        if isinstance(n, ast.If) and ast.unparse(n.test) == "level_str == Level.EXCEPTION.value":
            block = n
    if block is None:
        raise TranslationBroken(site, "EXCEPTION arm `if level_str == Level.EXCEPTION.value` not found")
    raises = [x for x in block.body if isinstance(x, ast.Raise)]
    if len(raises) != 1 or raises[0] is not block.body[-1]:
        raise TranslationBroken(site, "EXCEPTION arm does not end in exactly one raise")
    call = raises[0].exc
    if not (isinstance(call, ast.Call) and ast.unparse(call.func) == "RpcError"):
        raise TranslationBroken(site, "EXCEPTION arm does not raise RpcError(...)")
    rows: list[tuple[str, str]] = []

    def origin(e: ast.expr) -> str:
        if isinstance(e, ast.Name):
            d = defs.get(e.id)
            if d is None:
                raise TranslationBroken(site, f"RpcError argument {e.id} has no definition in the function")
            return e.id + " := " + " | ".join(d)  # type: ignore[arg-type]
        return ast.unparse(e)

    for i, a in enumerate(call.args):
        rows.append((f"arg{i}", " ".join(origin(a).split())))
    for kw in call.keywords:
        if kw.arg is None:
            raise TranslationBroken(site, "RpcError(**kwargs)")
        rows.append((kw.arg, " ".join(origin(kw.value).split())))
    # transitive closure: every local the arguments are computed from, in order of first use
    todo = [a.id for a in list(call.args) + [k.value for k in call.keywords] if isinstance(a, ast.Name)]
    seen = set(todo)
    order: list[str] = []
    while todo:
        nm = todo.pop(0)
        for d in defs.get(nm, []):  # type: ignore[union-attr]
            for sub in ast.walk(ast.parse(d, mode="eval")):
                if isinstance(sub, ast.Name) and sub.id in defs and sub.id not in seen:
                    seen.add(sub.id)
                    todo.append(sub.id)
                    order.append(sub.id)
    for nm in ("level_str", "message_str", "raw_extra_data"):
        if nm not in seen:
            raise TranslationBroken(site, f"{nm} does not feed RpcError any more")
    for nm in order:
        rows.append((nm, " ".join(" | ".join(defs[nm]).split())))  # type: ignore[arg-type]
    return rows


def _rpcerror(repo: Path) -> list[tuple[str, str]]:
    src = repo / "vgi_rpc" / "rpc" / "_common.py"
    cls = _class(_parse(src), "RpcError", str(src))
    f = _func(cls, "__init__", str(src))
    site = f"{src}:RpcError.__init__"
    rows = [("params", ", ".join([a.arg for a in f.args.args] + ["*"] + [a.arg for a in f.args.kwonlyargs]))]
    for n in _body(f):
        if isinstance(n, ast.Assign) and len(n.targets) == 1 and isinstance(n.targets[0], ast.Attribute) and ast.unparse(n.targets[0].value) == "self":
            rows.append((n.targets[0].attr, ast.unparse(n.value)))
        elif isinstance(n, ast.Expr) and isinstance(n.value, ast.Call) and ast.unparse(n.value.func) == "super().__init__":
            rows.append(("super", ", ".join(ast.unparse(a) for a in n.value.args)))
        else:
            raise TranslationBroken(site, "unexpected statement " + ast.unparse(n)[:60])
    return rows


# --------------------------------------------------------------------------- HTTP dispatch sites
HTTP_FUNCS = [
    ("_app_unary.py", "_run_unary_sync"),
    ("_app_stream.py", "_run_stream_init_sync"),
    ("_app_stream.py", "_run_http_exchange_init"),
    ("_app_stream.py", "_run_http_exchange_turn"),
    ("_app_stream.py", "_exchange_error_response"),
    ("_app_stream.py", "_run_http_producer_turn"),
]


DISPATCH_MARKS = ("implementation, method_name)(", "state.process(", "_write_stream_header(", "_enforce_response_budgets(")


def _status_effects(body: list[ast.stmt]) -> list[str]:
    out: list[str] = []
    for st in body:
        for n in ast.walk(st):
            if isinstance(n, ast.Assign) and ast.unparse(n.targets[0]) in ("http_status", "outcome.http_status") and ast.unparse(n.value).startswith("HTTPStatus."):
                out.append("status=" + ast.unparse(n.value)[len("HTTPStatus."):])
            elif isinstance(n, ast.Call) and ast.unparse(n.func) == "_current_response_status.set":
                out.append("ctxvar=" + ast.unparse(n.args[0]).replace("HTTPStatus.", ""))
            elif isinstance(n, ast.Raise) and isinstance(n.exc, ast.Call) and ast.unparse(n.exc.func) == "_RpcHttpError":
                sc = [ast.unparse(k.value) for k in n.exc.keywords if k.arg == "status_code"]
                out.append("raise=" + (sc[0].replace("HTTPStatus.", "") if sc else "?"))
            elif isinstance(n, ast.Call) and ast.unparse(n.func) == "_write_error_batch":
                out.append("error_batch")
    return out


def _http_sites(repo: Path) -> list[tuple[str, list[tuple[list[str], list[str]]]]]:
    from translate.t_excflow import _name, _tries

    table = []
    for fname, fn in HTTP_FUNCS:
        src = repo / "vgi_rpc" / "http" / "server" / fname
        f = _func(_parse(src), fn, str(src))
        tries: list[ast.Try] = []
        _tries(f, tries)
        tries.sort(key=lambda t: (t.lineno, t.col_offset))
        rows = []
        for t in tries:
            # only the try statements an exception raised INSIDE DISPATCH can reach: their body (transitively) calls the
            # implementation method, state.process(), the stream-header writer or the response-budget check.  The
            # request-reading handlers (which classes mean 400) are C06/C15's subject and are left out on purpose.
            body_src = "\n".join(ast.unparse(x) for x in t.body)
            if not any(mark in body_src for mark in DISPATCH_MARKS):
                continue
            for h in t.handlers:
                eff = _status_effects(h.body)
                if eff:
                    rows.append((_name(h.type, f"{src}:{fn}:{h.lineno}"), eff))
        if fn == "_exchange_error_response":
            rows.append((["<body>"], _status_effects(f.body)))
        table.append((fn, rows))
    return table


# --------------------------------------------------------------------------- module text
def _pairs(name: str, rows: list[tuple[str, str]]) -> str:
    return f"Definition {name} : list (string * string) := [\n  " + ";\n  ".join(f"({_q(a)}, {_q(b)})" for a, b in rows) + "\n].\n"


def module(repo: Path) -> str:
    consts = _bytes_consts(repo)
    out = ["From Coq Require Import List NArith Bool String.\nImport ListNotations.\nOpen Scope N_scope.\nOpen Scope string_scope.\n"]
    names = {"LOG_LEVEL_KEY": "gen_K_LEVEL", "LOG_MESSAGE_KEY": "gen_K_MESSAGE", "LOG_EXTRA_KEY": "gen_K_EXTRA", "ERROR_KIND_KEY": "gen_K_KIND",
             "SERVER_ID_KEY": "gen_K_SERVER_ID", "REQUEST_ID_KEY": "gen_K_REQUEST_ID"}
    for k, nm in names.items():
        out.append(f"Definition {nm} : list N := {_cstr(consts[k])}.\n")
    out.append(f"Definition gen_RPC_ERROR_HEADER : string := {_q(_marker_header(repo))}.\n")
    out.append(_set_http_status(repo))
    summary, extras, guard, hoist = _from_exception(repo)
    out.append(f"Definition gen_summary : list string := {_qlist(summary)}.\n")
    out.append(_pairs("gen_extras", extras))
    out.append(f"Definition gen_kind_guard : list string := {_qlist(guard)}.\n")
    out.append(f"Definition gen_hoist : list string := {_qlist(hoist)}.\n")
    out.append(_pairs("gen_client_raise", _client_raise(repo)))
    out.append(_pairs("gen_rpcerror_fields", _rpcerror(repo)))
    sites = _http_sites(repo)
    rows = []
    for fn, hs in sites:
        inner = "; ".join(f"({_qlist(cl)}, {_qlist(eff)})" for cl, eff in hs)
        rows.append(f"({_q(fn)}, [{inner}])")
    out.append("Definition gen_http_sites : list (string * list (list string * list string)) := [\n  " + ";\n  ".join(rows) + "\n].\n")
    return "".join(out)
