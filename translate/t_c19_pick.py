"""Fail-closed translator for the source material of C19 -> coq/gen/G_Negotiate.v

  vgi_rpc/_codec.py                   class Encoding (member order, values); available_encodings() with zstd
  vgi_rpc/http/server/_middleware.py  _CompressionMiddleware.__init__   : the `_levels` comprehension (runtime filter)
                                      ._pick_response_encoding          : header names, the loop iterable, every guard
                                                                          and every returned pair  -> gen_pick
                                      .process_request                  : the ("zstd","gzip") pre-compression guard
                                      .process_response                 : the two announcing header names and their guard

Only the tiny expression language listed in `_Tr` is accepted; anything else raises TranslationBroken, the generated
file then lacks the definition and tie/T_Negotiate.v stops compiling.
"""
from __future__ import annotations

import ast
from pathlib import Path

from vlib.core import TranslationBroken


def _cstr(s: str) -> str:
    return "([" + "; ".join(str(ord(c)) for c in s) + "]%N : list N)"


def _parse(path: Path) -> ast.Module:
    try:
        return ast.parse(path.read_text())
    except (OSError, SyntaxError) as e:
        raise TranslationBroken(str(path), f"cannot parse: {e}") from e


def _class(tree: ast.Module, name: str, site: str) -> ast.ClassDef:
    for n in tree.body:
        if isinstance(n, ast.ClassDef) and n.name == name:
            return n
    raise TranslationBroken(site, f"class {name} not found")


def _func(body: list[ast.stmt], name: str, site: str) -> ast.FunctionDef:
    for n in body:
        if isinstance(n, ast.FunctionDef) and n.name == name:
            return n
    raise TranslationBroken(site, f"function {name} not found")


def _strip_doc(body: list[ast.stmt]) -> list[ast.stmt]:
    if body and isinstance(body[0], ast.Expr) and isinstance(body[0].value, ast.Constant) and isinstance(body[0].value.value, str):
        return body[1:]
    return body


def _ctor(member: str) -> str:
    return member[:1].upper() + member[1:].lower()


def _enc_attr(e: ast.expr, site: str) -> str:
    if isinstance(e, ast.Attribute) and isinstance(e.value, ast.Name) and e.value.id == "Encoding":
        return _ctor(e.attr)
    raise TranslationBroken(site, f"expected Encoding.<MEMBER>, got {ast.dump(e)[:80]}")


# ------------------------------------------------------------------------------------------------------
def enum_members(codec_py: Path) -> list[tuple[str, str]]:
    site = f"{codec_py}:Encoding"
    cls = _class(_parse(codec_py), "Encoding", site)
    if not (len(cls.bases) == 1 and ast.unparse(cls.bases[0]) in ("enum.Enum", "Enum")):
        raise TranslationBroken(site, "Encoding is not a plain enum.Enum")
    out = []
    for st in _strip_doc(cls.body):
        if isinstance(st, ast.Assign) and len(st.targets) == 1 and isinstance(st.targets[0], ast.Name) and isinstance(st.value, ast.Constant) and isinstance(st.value.value, str):
            out.append((st.targets[0].id, st.value.value))
        else:
            raise TranslationBroken(site, f"unexpected class body statement: {ast.dump(st)[:80]}")
    return out


def runtime_with_zstd(codec_py: Path) -> list[str]:
    site = f"{codec_py}:available_encodings"
    fn = _func(_parse(codec_py).body, "available_encodings", site)
    body = _strip_doc(fn.body)
    if not (len(body) == 2 and isinstance(body[0], ast.If) and ast.unparse(body[0].test) == "_zstd_available()" and not body[0].orelse
            and len(body[0].body) == 1 and isinstance(body[0].body[0], ast.Return) and isinstance(body[1], ast.Return)):
        raise TranslationBroken(site, "expected `if _zstd_available(): return (...)` then `return (...)`")
    tup = body[0].body[0].value
    if not isinstance(tup, ast.Tuple):
        raise TranslationBroken(site, "zstd branch does not return a tuple")
    return [_enc_attr(e, site) for e in tup.elts]


class _Tr:
    """Expressions of _pick_response_encoding over: the loop variable, `custom`, `standard`, `self._levels`."""

    def __init__(self, site: str, lists: dict[str, str], var: str | None):
        self.site = site
        self.lists = dict(lists)
        self.var = var

    def bad(self, what: str, e: ast.AST) -> TranslationBroken:
        return TranslationBroken(self.site, f"{what}: {ast.dump(e)[:120]}")

    def lst(self, e: ast.expr) -> str:
        if isinstance(e, ast.Name) and e.id in self.lists:
            return self.lists[e.id]
        if isinstance(e, ast.Attribute) and isinstance(e.value, ast.Name) and e.value.id == "self" and e.attr == "_levels":
            return "levels"
        if isinstance(e, ast.BinOp) and isinstance(e.op, ast.Add):
            return f"({self.lst(e.left)} ++ {self.lst(e.right)})"
        if isinstance(e, ast.ListComp):
            if len(e.generators) != 1:
                raise self.bad("list comprehension with several generators", e)
            g = e.generators[0]
            if g.is_async or not isinstance(g.target, ast.Name) or not (isinstance(e.elt, ast.Name) and e.elt.id == g.target.id):
                raise self.bad("list comprehension is not a plain filter", e)
            inner = _Tr(self.site, self.lists, g.target.id)
            conds = [inner.boolean(c) for c in g.ifs] or ["true"]
            return f"(filter (fun v_{g.target.id} => {' && '.join(conds)}) {self.lst(g.iter)})"
        raise self.bad("unsupported list expression", e)

    def elem(self, e: ast.expr) -> str:
        if isinstance(e, ast.Name) and e.id == self.var:
            return "v_" + e.id
        raise self.bad("expected the loop variable", e)

    def boolean(self, e: ast.expr) -> str:
        if isinstance(e, ast.Constant) and isinstance(e.value, bool):
            return "true" if e.value else "false"
        if isinstance(e, ast.BoolOp):
            op = " && " if isinstance(e.op, ast.And) else " || "
            return "(" + op.join(self.boolean(v) for v in e.values) + ")"
        if isinstance(e, ast.UnaryOp) and isinstance(e.op, ast.Not):
            return f"(negb {self.boolean(e.operand)})"
        if isinstance(e, ast.Compare) and len(e.ops) == 1:
            op, rhs = e.ops[0], e.comparators[0]
            if isinstance(op, (ast.In, ast.NotIn)):
                t = f"(mem {self.elem(e.left)} {self.lst(rhs)})"
                return t if isinstance(op, ast.In) else f"(negb {t})"
            if isinstance(op, (ast.Is, ast.IsNot, ast.Eq, ast.NotEq)):
                t = f"(enc_eqb {self.elem(e.left)} {_enc_attr(rhs, self.site)})"
                return t if isinstance(op, (ast.Is, ast.Eq)) else f"(negb {t})"
        if isinstance(e, ast.Call) and isinstance(e.func, ast.Name) and e.func.id == "bool" and len(e.args) == 1 and not e.keywords:
            return f"(negb (is_nil {self.lst(e.args[0])}))"
        raise self.bad("unsupported boolean expression", e)

    def option(self, e: ast.expr) -> str:
        if isinstance(e, ast.Constant) and e.value is None:
            return "None"
        if isinstance(e, ast.Name) and e.id == self.var:
            return f"(Some v_{e.id})"
        raise self.bad("unsupported first component of the returned pair", e)

    def pair(self, st: ast.stmt) -> str:
        if isinstance(st, ast.Return) and isinstance(st.value, ast.Tuple) and len(st.value.elts) == 2:
            return f"({self.option(st.value.elts[0])}, {self.boolean(st.value.elts[1])})"
        raise self.bad("expected `return (x, y)`", st)


def _header_parse(st: ast.stmt, site: str) -> tuple[str, str]:
    """`NAME = parse_encoding_list(req.get_header("H") or "")` -> (NAME, H)"""
    ok = (isinstance(st, ast.Assign) and len(st.targets) == 1 and isinstance(st.targets[0], ast.Name) and isinstance(st.value, ast.Call)
          and isinstance(st.value.func, ast.Name) and st.value.func.id == "parse_encoding_list" and len(st.value.args) == 1 and not st.value.keywords)
    if ok:
        a = st.value.args[0]  # type: ignore[union-attr]
        if (isinstance(a, ast.BoolOp) and isinstance(a.op, ast.Or) and len(a.values) == 2 and isinstance(a.values[1], ast.Constant) and a.values[1].value == ""
                and isinstance(a.values[0], ast.Call) and ast.unparse(a.values[0].func) == "req.get_header" and len(a.values[0].args) == 1
                and not a.values[0].keywords and isinstance(a.values[0].args[0], ast.Constant) and isinstance(a.values[0].args[0].value, str)):
            return st.targets[0].id, a.values[0].args[0].value  # type: ignore[union-attr]
    raise TranslationBroken(site, f"expected NAME = parse_encoding_list(req.get_header(\"...\") or \"\"): {ast.unparse(st)[:100]}")


def pick(mw: ast.ClassDef, site: str) -> tuple[str, dict[str, str]]:
    fn = _func(mw.body, "_pick_response_encoding", site)
    body = _strip_doc(fn.body)
    if len(body) != 4:
        raise TranslationBroken(site, f"expected 2 header assignments, a for loop and a return; got {len(body)} statements")
    n1, h1 = _header_parse(body[0], site)
    n2, h2 = _header_parse(body[1], site)
    if {n1, n2} != {"standard", "custom"}:
        raise TranslationBroken(site, f"the parsed lists are called {n1}, {n2}")
    headers = {n1: h1, n2: h2}
    loop = body[2]
    if not (isinstance(loop, ast.For) and isinstance(loop.target, ast.Name) and not loop.orelse):
        raise TranslationBroken(site, "third statement is not a plain for loop")
    var = loop.target.id
    tr = _Tr(site, {"standard": "standard", "custom": "custom"}, var)
    arms = []
    for st in loop.body:
        if not (isinstance(st, ast.If) and not st.orelse and len(st.body) == 1):
            raise TranslationBroken(site, f"loop body statement is not `if c: return (...)`: {ast.unparse(st)[:100]}")
        arms.append((tr.boolean(st.test), tr.pair(st.body[0])))
    final = _Tr(site, {"standard": "standard", "custom": "custom"}, None).pair(body[3])
    it = tr.lst(loop.iter)
    chain = ""
    for c, r in arms:
        chain += f"if {c} then {r}\n        else "
    text = (
        "Definition gen_pick (levels custom standard : list enc) : option enc * bool :=\n"
        "  (fix loop (l : list enc) : option enc * bool :=\n"
        "     match l with\n"
        f"     | [] => {final}\n"
        f"     | v_{var} :: r =>\n        {chain}loop r\n"
        "     end)\n"
        f"  {it}.\n"
    )
    return text, headers


def levels_filter(mw: ast.ClassDef, site: str) -> str:
    init = _func(mw.body, "__init__", site)
    runtime_ok = False
    for st in ast.walk(init):
        if isinstance(st, ast.Assign) and len(st.targets) == 1 and isinstance(st.targets[0], ast.Name) and st.targets[0].id == "runtime":
            runtime_ok = ast.unparse(st.value) == "set(available_encodings())"
    if not runtime_ok:
        raise TranslationBroken(site, "__init__: runtime is not set(available_encodings())")
    for st in ast.walk(init):
        if isinstance(st, ast.AnnAssign) and ast.unparse(st.target) == "self._levels" and st.value is not None:
            v = st.value
            if (isinstance(v, ast.DictComp) and len(v.generators) == 1 and ast.unparse(v.generators[0].iter) == "encode_levels.items()"
                    and isinstance(v.generators[0].target, ast.Tuple) and len(v.generators[0].target.elts) == 2
                    and ast.unparse(v.key) == ast.unparse(v.generators[0].target.elts[0]) and ast.unparse(v.value) == ast.unparse(v.generators[0].target.elts[1])):
                k = ast.unparse(v.key)
                tr = _Tr(site, {"runtime": "gen_runtime"}, k)
                conds = [tr.boolean(c) for c in v.generators[0].ifs] or ["true"]
                return f"Definition gen_levels_of (cfg : list enc) : list enc := filter (fun v_{k} => {' && '.join(conds)}) cfg.\n"
            raise TranslationBroken(site, f"self._levels is not a filtering dict comprehension over encode_levels.items(): {ast.unparse(v)[:100]}")
    raise TranslationBroken(site, "self._levels assignment not found")


def precompress_guard(mw: ast.ClassDef, site: str) -> list[str]:
    fn = _func(mw.body, "process_request", site)
    for n in ast.walk(fn):
        if isinstance(n, ast.Call) and ast.unparse(n.func) == "_current_response_codec.set" and len(n.args) == 1:
            a = n.args[0]
            if (isinstance(a, ast.IfExp) and ast.unparse(a.body) == "chosen.value" and isinstance(a.orelse, ast.Constant) and a.orelse.value is None
                    and isinstance(a.test, ast.BoolOp) and isinstance(a.test.op, ast.And) and len(a.test.values) == 2
                    and ast.unparse(a.test.values[0]) == "chosen is not None"):
                c = a.test.values[1]
                if (isinstance(c, ast.Compare) and ast.unparse(c.left) == "chosen.value" and len(c.ops) == 1 and isinstance(c.ops[0], ast.In)
                        and isinstance(c.comparators[0], (ast.Tuple, ast.List, ast.Set))
                        and all(isinstance(x, ast.Constant) and isinstance(x.value, str) for x in c.comparators[0].elts)):
                    return [x.value for x in c.comparators[0].elts]  # type: ignore[attr-defined]
            raise TranslationBroken(site, f"unexpected _current_response_codec.set argument: {ast.unparse(a)[:120]}")
    raise TranslationBroken(site, "process_request does not publish _current_response_codec")


def announce_headers(mw: ast.ClassDef, site: str) -> tuple[str, str]:
    fn = _func(mw.body, "process_response", site)
    found: set[tuple[str, str]] = set()
    stamped = 0
    for n in ast.walk(fn):
        if isinstance(n, ast.Call) and ast.unparse(n.func) == "resp.set_header":
            stamped += 1
    for n in ast.walk(fn):
        if isinstance(n, ast.If) and ast.unparse(n.test) == "getattr(req.context, 'use_custom_encoding_header', False)":
            def one(stmts: list[ast.stmt]) -> str:
                if (len(stmts) == 1 and isinstance(stmts[0], ast.Expr) and isinstance(stmts[0].value, ast.Call) and ast.unparse(stmts[0].value.func) == "resp.set_header"
                        and len(stmts[0].value.args) == 2 and isinstance(stmts[0].value.args[0], ast.Constant) and ast.unparse(stmts[0].value.args[1]) == "encoding.value"):
                    return str(stmts[0].value.args[0].value)
                raise TranslationBroken(site, f"unexpected announcing branch: {ast.unparse(stmts[0])[:100] if stmts else 'empty'}")
            found.add((one(n.body), one(n.orelse)))
    if len(found) != 1 or stamped != 2 * sum(1 for n in ast.walk(fn) if isinstance(n, ast.If) and ast.unparse(n.test) == "getattr(req.context, 'use_custom_encoding_header', False)"):
        raise TranslationBroken(site, f"announcing sites are not uniform: {sorted(found)} ({stamped} set_header calls)")
    return next(iter(found))


def generate(repo: Path) -> str:
    codec_py = repo / "vgi_rpc" / "_codec.py"
    mw_py = repo / "vgi_rpc" / "http" / "server" / "_middleware.py"
    site = f"{mw_py}:_CompressionMiddleware"
    members = enum_members(codec_py)
    runtime = runtime_with_zstd(codec_py)
    mw = _class(_parse(mw_py), "_CompressionMiddleware", site)
    pick_text, headers = pick(mw, site + "._pick_response_encoding")
    vgi_content, content = announce_headers(mw, site + ".process_response")
    pre = precompress_guard(mw, site + ".process_request")
    out = [
        "From Coq Require Import List NArith Bool.",
        "From VGI Require Import M_Negotiate.",
        "Import ListNotations.",
        "Open Scope N_scope.",
        "(* Encoding members in definition order: constructor, value *)",
        "Definition gen_enum : list (enc * list N) := [" + "; ".join(f"({_ctor(n)}, {_cstr(v)})" for n, v in members) + "].",
        "Definition gen_runtime : list enc := [" + "; ".join(runtime) + "].",
        levels_filter(mw, site + ".__init__"),
        f"Definition gen_hdr_standard : list N := {_cstr(headers['standard'])}.",
        f"Definition gen_hdr_custom : list N := {_cstr(headers['custom'])}.",
        f"Definition gen_announce_custom : list N := {_cstr(vgi_content)}.",
        f"Definition gen_announce_standard : list N := {_cstr(content)}.",
        "Definition gen_precompress_names : list (list N) := [" + "; ".join(_cstr(x) for x in pre) + "].",
        pick_text,
    ]
    return "\n".join(out) + "\n"
