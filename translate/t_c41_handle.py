"""Fail-closed translator for C41: the concurrency skeleton of ``_serve_socket_threaded`` -> coq/gen/G_ConnIso.v.

Emits
  gen_permits : option nat -> option nat   permits of the semaphore as a function of max_connections, from
                                           ``semaphore = None ; if max_connections is not None: semaphore = threading.Semaphore(max_connections)``
  gen_handle  : list hop                   the statements of the per-connection thread body ``_handle`` in source order
                                           (guards ``if semaphore is not None`` folded into the *IfSem tokens; try / except /
                                           finally structure kept as bracket tokens)
  gen_accept  : list aop                   what happens between a successful ``sock.accept()`` and ``t.start()`` in the
                                           accept loop -- straight-line code only: a conditional, return, break, continue
                                           or raise there would mean an accepted connection can be dropped
Also checks (raises otherwise): both serve_unix and serve_tcp reach _serve_socket_threaded with their own
``max_connections`` argument when ``threaded``; the thread target is ``_handle`` with args ``(conn,)``.
Any shape not listed here raises TranslationBroken.
"""
from __future__ import annotations

import ast
from pathlib import Path

from vlib.core import TranslationBroken

SITE = "vgi_rpc/rpc/_transport.py:_serve_socket_threaded"


def _fn(tree: ast.AST, name: str) -> ast.FunctionDef:
    found = [n for n in ast.walk(tree) if isinstance(n, ast.FunctionDef) and n.name == name]
    if len(found) != 1:
        raise TranslationBroken(SITE, f"{len(found)} definitions of {name}")
    return found[0]


def _is_name(n: ast.AST, name: str) -> bool:
    return isinstance(n, ast.Name) and n.id == name


def _is_sem_guard(test: ast.expr) -> bool:
    return (isinstance(test, ast.Compare) and _is_name(test.left, "semaphore") and len(test.ops) == 1 and isinstance(test.ops[0], ast.IsNot)
            and isinstance(test.comparators[0], ast.Constant) and test.comparators[0].value is None)


def _call_of(stmt: ast.stmt) -> ast.Call | None:
    if isinstance(stmt, ast.Expr) and isinstance(stmt.value, ast.Call):
        return stmt.value
    return None


def _method_call(stmt: ast.stmt, obj: str, meth: str, nargs: int = 0) -> bool:
    c = _call_of(stmt)
    return (c is not None and isinstance(c.func, ast.Attribute) and c.func.attr == meth and _is_name(c.func.value, obj)
            and len(c.args) == nargs and not c.keywords)


def _permits(fn: ast.FunctionDef) -> str:
    body = [s for s in fn.body if not (isinstance(s, ast.Expr) and isinstance(s.value, ast.Constant))]
    init = None
    for idx, s in enumerate(body):
        if isinstance(s, ast.AnnAssign) and _is_name(s.target, "semaphore"):
            init = idx
            if not (isinstance(s.value, ast.Constant) and s.value.value is None):
                raise TranslationBroken(SITE, "semaphore is not initialised to None")
            break
    if init is None:
        raise TranslationBroken(SITE, "no `semaphore: ... = None`")
    nxt = body[init + 1]
    ok = (isinstance(nxt, ast.If) and not nxt.orelse and isinstance(nxt.test, ast.Compare) and _is_name(nxt.test.left, "max_connections")
          and len(nxt.test.ops) == 1 and isinstance(nxt.test.ops[0], ast.IsNot) and isinstance(nxt.test.comparators[0], ast.Constant)
          and nxt.test.comparators[0].value is None and len(nxt.body) == 1)
    if not ok:
        raise TranslationBroken(SITE, "semaphore is not created under `if max_connections is not None:`")
    a = nxt.body[0]
    if not (isinstance(a, ast.Assign) and len(a.targets) == 1 and _is_name(a.targets[0], "semaphore") and isinstance(a.value, ast.Call)
            and isinstance(a.value.func, ast.Attribute) and a.value.func.attr == "Semaphore" and _is_name(a.value.func.value, "threading")
            and not a.value.keywords and len(a.value.args) == 1):
        raise TranslationBroken(SITE, "semaphore is not threading.Semaphore(<expr>)")
    arg = a.value.args[0]
    if _is_name(arg, "max_connections"):
        expr = "k"
    elif isinstance(arg, ast.BinOp) and _is_name(arg.left, "max_connections") and isinstance(arg.right, ast.Constant) and isinstance(arg.right.value, int) and arg.right.value >= 0:
        if isinstance(arg.op, ast.Add):
            expr = f"(k + {arg.right.value})"
        elif isinstance(arg.op, ast.Sub):
            expr = f"(k - {arg.right.value})"
        else:
            raise TranslationBroken(SITE, f"semaphore size: {ast.unparse(arg)}")
    else:
        raise TranslationBroken(SITE, f"semaphore size: {ast.unparse(arg)}")
    # no other assignment to `semaphore` anywhere in the function
    n_assign = sum(1 for n in ast.walk(fn) if isinstance(n, (ast.Assign, ast.AnnAssign, ast.AugAssign))
                   and any(_is_name(t, "semaphore") for t in (n.targets if isinstance(n, ast.Assign) else [n.target])))
    if n_assign != 2:
        raise TranslationBroken(SITE, f"{n_assign} assignments to `semaphore`")
    return f"Definition gen_permits (m : option nat) : option nat := match m with None => None | Some k => Some {expr} end."


def _handle_stmt(s: ast.stmt, out: list[str]) -> None:
    if isinstance(s, ast.Nonlocal):
        return
    if isinstance(s, ast.If) and _is_sem_guard(s.test) and not s.orelse and len(s.body) == 1:
        if _method_call(s.body[0], "semaphore", "acquire"):
            out.append("HAcquireIfSem")
            return
        if _method_call(s.body[0], "semaphore", "release"):
            out.append("HReleaseIfSem")
            return
    if _method_call(s, "semaphore", "acquire") or _method_call(s, "semaphore", "release"):
        raise TranslationBroken(SITE, "unguarded semaphore operation in _handle")
    if isinstance(s, ast.Assign) and len(s.targets) == 1 and _is_name(s.targets[0], "transport") and isinstance(s.value, ast.Call) \
            and _is_name(s.value.func, "transport_factory") and len(s.value.args) == 1 and _is_name(s.value.args[0], "conn"):
        out.append("HMkTransport")
        return
    if isinstance(s, ast.Try):
        if s.orelse:
            raise TranslationBroken(SITE, "try/else in _handle")
        out.append("HTry")
        for b in s.body:
            _handle_stmt(b, out)
        for hd in s.handlers:
            if not (isinstance(hd.type, ast.Name) and hd.name is None):
                raise TranslationBroken(SITE, f"except clause: {ast.unparse(hd.type) if hd.type else 'bare'}")
            out.append(f"(HExcept {_cstr(hd.type.id)})")
            for b in hd.body:
                c = _call_of(b)
                if c is not None and isinstance(c.func, ast.Attribute) and _is_name(c.func.value, "_logger"):
                    out.append("HLog")
                else:
                    raise TranslationBroken(SITE, f"except body: {ast.unparse(b)[:60]}")
        out.append("HFinally")
        for b in s.finalbody:
            _handle_stmt(b, out)
        out.append("HEndTry")
        return
    c = _call_of(s)
    if c is not None and isinstance(c.func, ast.Attribute) and c.func.attr == "serve" and _is_name(c.func.value, "server") \
            and len(c.args) == 1 and _is_name(c.args[0], "transport") and not c.keywords:
        out.append("HServe")
        return
    if _method_call(s, "transport", "close"):
        out.append("HClose")
        return
    if isinstance(s, ast.With) and len(s.items) == 1 and _is_name(s.items[0].context_expr, "state_lock"):
        # bookkeeping of the idle-shutdown machinery (C33): conn_count, idle timer, active set -- no semaphore, no serve
        for n in ast.walk(s):
            if isinstance(n, ast.Name) and n.id in ("semaphore", "server", "transport"):
                raise TranslationBroken(SITE, "state_lock block of _handle touches semaphore / server / transport")
            if isinstance(n, (ast.Return, ast.Raise)):
                raise TranslationBroken(SITE, "state_lock block of _handle returns / raises")
        out.append("HBookkeeping")
        return
    raise TranslationBroken(SITE, f"_handle statement: {ast.unparse(s)[:80]}")


def _cstr(x: str) -> str:
    from vlib.coqterm import cstr

    return cstr(x)


def _accept(fn: ast.FunctionDef) -> list[str]:
    loops = [n for n in ast.walk(fn) if isinstance(n, ast.While)]
    if len(loops) != 1:
        raise TranslationBroken(SITE, f"{len(loops)} while loops")
    body = loops[0].body
    if not (isinstance(loops[0].test, ast.Constant) and loops[0].test.value is True):
        raise TranslationBroken(SITE, "accept loop is not `while True`")
    if not (body and isinstance(body[0], ast.Try) and len(body[0].body) == 1):
        raise TranslationBroken(SITE, "accept loop does not start with try: conn, _ = sock.accept()")
    acc = body[0].body[0]
    if not (isinstance(acc, ast.Assign) and isinstance(acc.value, ast.Call) and isinstance(acc.value.func, ast.Attribute)
            and acc.value.func.attr == "accept" and _is_name(acc.value.func.value, "sock")):
        raise TranslationBroken(SITE, "first statement of the accept loop is not sock.accept()")
    out = ["AAccept"]
    started = False
    for s in body[1:]:
        for n in ast.walk(s):
            if isinstance(n, (ast.If, ast.Return, ast.Break, ast.Continue, ast.Raise, ast.Try, ast.While, ast.For)):
                raise TranslationBroken(SITE, f"control flow between accept() and t.start(): {type(n).__name__}")
        if isinstance(s, ast.Assign) and len(s.targets) == 1 and _is_name(s.targets[0], "t") and isinstance(s.value, ast.Call) \
                and isinstance(s.value.func, ast.Attribute) and s.value.func.attr == "Thread":
            kw = {k.arg: k.value for k in s.value.keywords}
            if not (_is_name(kw.get("target"), "_handle") and isinstance(kw.get("args"), ast.Tuple) and len(kw["args"].elts) == 1 and _is_name(kw["args"].elts[0], "conn")):
                raise TranslationBroken(SITE, "thread is not Thread(target=_handle, args=(conn,))")
            out.append("AMkThread")
        elif _method_call(s, "t", "start"):
            out.append("AStart")
            started = True
        elif isinstance(s, ast.With) and len(s.items) == 1 and _is_name(s.items[0].context_expr, "state_lock"):
            out.append("ABookkeeping")
        elif _method_call(s, "conn", "settimeout", 1):
            out.append("ASetBlocking")
        else:
            raise TranslationBroken(SITE, f"accept-loop statement: {ast.unparse(s)[:80]}")
    if not started or out[-1] != "AStart":
        raise TranslationBroken(SITE, "accept loop does not end with t.start()")
    return out


def _check_callers(tree: ast.AST) -> None:
    for name in ("serve_unix", "serve_tcp"):
        fn = _fn(tree, name)
        calls = [n for n in ast.walk(fn) if isinstance(n, ast.Call) and _is_name(n.func, "_serve_socket_threaded")]
        if len(calls) != 1:
            raise TranslationBroken(f"vgi_rpc/rpc/_transport.py:{name}", f"{len(calls)} calls of _serve_socket_threaded")
        c = calls[0]
        if not (len(c.args) >= 3 and _is_name(c.args[0], "server") and _is_name(c.args[2], "max_connections")):
            raise TranslationBroken(f"vgi_rpc/rpc/_transport.py:{name}", "max_connections is not passed through")
        ok = False
        for n in ast.walk(fn):
            if isinstance(n, ast.If) and _is_name(n.test, "threaded") and any(c in ast.walk(b) for b in n.body):
                ok = True
        if not ok:
            raise TranslationBroken(f"vgi_rpc/rpc/_transport.py:{name}", "threaded branch does not call _serve_socket_threaded")


def module(repo: Path) -> str:
    path = Path(repo) / "vgi_rpc" / "rpc" / "_transport.py"
    try:
        tree = ast.parse(path.read_text())
    except (OSError, SyntaxError) as e:
        raise TranslationBroken(str(path), f"cannot parse: {e}") from e
    fn = _fn(tree, "_serve_socket_threaded")
    handle = [n for n in fn.body if isinstance(n, ast.FunctionDef) and n.name == "_handle"]
    if len(handle) != 1:
        raise TranslationBroken(SITE, "no nested _handle")
    h = handle[0]
    if not (len(h.args.args) == 1 and h.args.args[0].arg == "conn"):
        raise TranslationBroken(SITE, "_handle signature")
    ops: list[str] = []
    for s in h.body:
        _handle_stmt(s, ops)
    acc = _accept(fn)
    _check_callers(tree)
    return (
        "From Coq Require Import List NArith Arith.\nFrom VGI Require Import M_Wire M_ConnIso.\nImport ListNotations.\nOpen Scope nat_scope.\n"
        + _permits(fn) + "\n"
        + f"Definition gen_handle : list hop := [{'; '.join(ops)}].\n"
        + f"Definition gen_accept : list aop := [{'; '.join(acc)}].\n"
    )
