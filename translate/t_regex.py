"""Fail-closed translator: a module-level ``NAME = re.compile(<literal>[, flags])`` -> a Coq ``Regex.re`` term.

Accepts exactly the sre constructs listed in ``_node``; anything else raises TranslationBroken.
Python semantics carried over:
  * ``^`` / ``\\A`` (no MULTILINE) -> Bos ; ``$`` (no MULTILINE) -> Dollar ; ``\\Z`` -> EndZ
  * ``\\d`` ``\\w`` ``\\s`` on str patterns are the *Unicode* classes -> CPred 0 / 1 / 2
  * IGNORECASE: every literal / range is widened to the set of characters Python's own ``re`` accepts
    for it (computed by brute force over all code points with the runtime's ``re`` -- an environment fact)
  * ``X{m,n}`` for a single-character X -> ``rep_cls`` ; ``X*`` -> Star ; ``X+`` -> Cat X (Star X) ; ``X?`` -> Alt Eps X
"""
from __future__ import annotations

import ast
import re
from pathlib import Path

try:  # Python >= 3.11
    import re._parser as sre_parse  # type: ignore[import-not-found]
    import re._constants as sre_c  # type: ignore[import-not-found]
except Exception:  # pragma: no cover
    import sre_parse  # type: ignore[no-redef]
    import sre_constants as sre_c  # type: ignore[no-redef]

from vlib.core import TranslationBroken

MAXREPEAT = sre_c.MAXREPEAT


def find_compile(path: Path, name: str) -> tuple[str, int]:
    """Return (pattern, flags) of ``name = re.compile(pattern[, flags])`` at module level."""
    site = f"{path}:{name}"
    try:
        tree = ast.parse(path.read_text())
    except (OSError, SyntaxError) as e:
        raise TranslationBroken(site, f"cannot parse: {e}") from e
    for node in tree.body:
        tgt = None
        if isinstance(node, ast.Assign) and len(node.targets) == 1 and isinstance(node.targets[0], ast.Name):
            tgt, val = node.targets[0].id, node.value
        elif isinstance(node, ast.AnnAssign) and isinstance(node.target, ast.Name) and node.value is not None:
            tgt, val = node.target.id, node.value
        if tgt != name:
            continue
        if not (isinstance(val, ast.Call) and isinstance(val.func, ast.Attribute) and val.func.attr == "compile" and isinstance(val.func.value, ast.Name) and val.func.value.id == "re"):
            raise TranslationBroken(site, "not a re.compile(...) call")
        if not val.args:
            raise TranslationBroken(site, "re.compile without a pattern")
        try:
            pat = ast.literal_eval(val.args[0])
        except Exception as e:
            raise TranslationBroken(site, f"pattern is not a literal: {ast.dump(val.args[0])[:80]}") from e
        if not isinstance(pat, str):
            raise TranslationBroken(site, "bytes patterns are not supported")
        flags = 0
        fl_nodes = list(val.args[1:]) + [k.value for k in val.keywords if k.arg == "flags"]
        for fn in fl_nodes:
            flags |= _flags(fn, site)
        return pat, flags
    raise TranslationBroken(site, "assignment not found")


def _flags(n: ast.expr, site: str) -> int:
    if isinstance(n, ast.BinOp) and isinstance(n.op, ast.BitOr):
        return _flags(n.left, site) | _flags(n.right, site)
    if isinstance(n, ast.Attribute) and isinstance(n.value, ast.Name) and n.value.id == "re":
        v = getattr(re, n.attr, None)
        if isinstance(v, re.RegexFlag):
            return int(v)
    raise TranslationBroken(site, f"unsupported flags expression {ast.dump(n)[:80]}")


_icase_cache: dict[int, list[int]] = {}


def _icase_variants(c: int) -> list[int]:
    """All code points Python's re matches for literal chr(c) under IGNORECASE (environment fact)."""
    if c not in _icase_cache:
        ch = chr(c)
        cands = {c}
        for v in (ch.lower(), ch.upper(), ch.swapcase(), ch.casefold(), ch.title()):
            if len(v) == 1:
                cands.add(ord(v))
        # plus the few non-trivial Unicode equivalents sre knows (K/kelvin, s/long-s, ...): test all candidates
        for x in (0x212A, 0x17F, 0x130, 0x131, 0x1E9E, 0xB5, 0x3BC, 0x345, 0x399, 0x3B9, 0x1FBE):
            cands.add(x)
        pat = re.compile(re.escape(ch), re.IGNORECASE)
        _icase_cache[c] = sorted(x for x in cands if pat.fullmatch(chr(x)))
    return _icase_cache[c]


class _T:
    def __init__(self, site: str, flags: int):
        self.site = site
        self.icase = bool(flags & re.IGNORECASE)
        unsupported = flags & ~(re.IGNORECASE | re.UNICODE)
        if unsupported:
            raise TranslationBroken(site, f"unsupported flags {re.RegexFlag(unsupported)!r}")

    def bad(self, why: str) -> TranslationBroken:
        return TranslationBroken(self.site, why)

    # -- character classes ---------------------------------------------------
    def lit_cls(self, c: int) -> str:
        if self.icase:
            vs = _icase_variants(c)
            return self.union([f"CChar {v}" for v in vs])
        return f"CChar {c}"

    def range_cls(self, lo: int, hi: int) -> str:
        if self.icase:
            parts = [f"CRange {lo} {hi}"]
            extra = set()
            if hi - lo > 512:
                raise self.bad("IGNORECASE range too wide")
            for c in range(lo, hi + 1):
                for v in _icase_variants(c):
                    if not (lo <= v <= hi):
                        extra.add(v)
            parts += [f"CChar {v}" for v in sorted(extra)]
            return self.union(parts)
        return f"CRange {lo} {hi}"

    @staticmethod
    def union(parts: list[str]) -> str:
        assert parts
        out = parts[-1]
        for p in reversed(parts[:-1]):
            out = f"COr ({p}) ({out})"
        return out

    def category(self, cat: object) -> str:
        table = {
            sre_c.CATEGORY_DIGIT: "CPred 0",
            sre_c.CATEGORY_NOT_DIGIT: "CNeg (CPred 0)",
            sre_c.CATEGORY_WORD: "CPred 1",
            sre_c.CATEGORY_NOT_WORD: "CNeg (CPred 1)",
            sre_c.CATEGORY_SPACE: "CPred 2",
            sre_c.CATEGORY_NOT_SPACE: "CNeg (CPred 2)",
        }
        if cat not in table:
            raise self.bad(f"unsupported category {cat}")
        return table[cat]

    def in_cls(self, items: list[tuple[object, object]]) -> str:
        neg = False
        parts = []
        for op, av in items:
            if op is sre_c.NEGATE:
                neg = True
            elif op is sre_c.LITERAL:
                parts.append(self.lit_cls(int(av)))  # type: ignore[call-overload]
            elif op is sre_c.RANGE:
                lo, hi = av  # type: ignore[misc]
                parts.append(self.range_cls(int(lo), int(hi)))
            elif op is sre_c.CATEGORY:
                parts.append(self.category(av))
            else:
                raise self.bad(f"unsupported class item {op}")
        if not parts:
            raise self.bad("empty class")
        u = self.union(parts)
        return f"CNeg ({u})" if neg else u

    def single_cls(self, seq: list[tuple[object, object]]) -> str | None:
        """If seq is one single-character item, its class term."""
        if len(seq) != 1:
            return None
        op, av = seq[0]
        if op is sre_c.LITERAL:
            return self.lit_cls(int(av))  # type: ignore[call-overload]
        if op is sre_c.NOT_LITERAL:
            return f"CNeg ({self.lit_cls(int(av))})"  # type: ignore[call-overload]
        if op is sre_c.IN:
            return self.in_cls(list(av))  # type: ignore[call-overload]
        if op is sre_c.ANY:
            return "CAnyNoNL"
        return None

    # -- expressions ---------------------------------------------------------
    def seq(self, items: list[tuple[object, object]]) -> str:
        terms = [self.node(op, av) for op, av in items]
        if not terms:
            return "Eps"
        out = terms[-1]
        for t in reversed(terms[:-1]):
            out = f"Cat ({t}) ({out})"
        return out

    def node(self, op: object, av: object) -> str:
        one = self.single_cls([(op, av)])
        if one is not None:
            return f"Chr ({one})"
        if op is sre_c.AT:
            if av in (sre_c.AT_BEGINNING, sre_c.AT_BEGINNING_STRING):
                return "Bos"
            if av is sre_c.AT_END:
                return "Dollar"
            if av is sre_c.AT_END_STRING:
                return "EndZ"
            raise self.bad(f"unsupported anchor {av}")
        if op is sre_c.SUBPATTERN:
            _group, add_flags, del_flags, p = av  # type: ignore[misc]
            if add_flags or del_flags:
                raise self.bad("inline flags unsupported")
            return self.seq(list(p))
        if op is sre_c.BRANCH:
            _, alts = av  # type: ignore[misc]
            terms = [self.seq(list(a)) for a in alts]
            out = terms[-1]
            for t in reversed(terms[:-1]):
                out = f"Alt ({t}) ({out})"
            return out
        if op is sre_c.MAX_REPEAT:
            lo, hi, p = av  # type: ignore[misc]
            items = list(p)
            k = self.single_cls(items)
            if hi is MAXREPEAT or hi == MAXREPEAT:
                inner = f"Chr ({k})" if k is not None else self.seq(items)
                if lo == 0:
                    return f"Star ({inner})"
                if lo == 1:
                    return f"Cat ({inner}) (Star ({inner}))"
                raise self.bad("{m,} with m>1 unsupported")
            if k is not None:
                if hi > 1024:
                    raise self.bad("repeat bound too large")
                return f"rep_cls ({k}) {int(lo)} {int(hi)}"
            if (lo, hi) == (0, 1):
                return f"Alt Eps ({self.seq(items)})"
            raise self.bad("bounded repeat of a non-character expression unsupported")
        raise self.bad(f"unsupported construct {op}")


def translate_pattern(pattern: str, flags: int, site: str) -> str:
    try:
        parsed = sre_parse.parse(pattern, flags)
    except re.error as e:
        raise TranslationBroken(site, f"invalid regex: {e}") from e
    t = _T(site, flags)
    return t.seq(list(parsed))


def regex_definition(path: Path, name: str, coq_name: str) -> str:
    pat, flags = find_compile(path, name)
    term = translate_pattern(pat, flags, f"{path}:{name}")
    esc = pat.replace("(*", "( *").replace("*)", "* )")
    return f"(* {name} = re.compile(r'{esc}', flags={flags}) *)\nDefinition {coq_name} : re :=\n  {term}.\n"
