"""Fail-closed translator for C27: the pieces of code whose exact shape decides the sticky lifecycle.

Reads with ``ast`` (every shape that is not exactly one of the accepted ones raises TranslationBroken):

  vgi_rpc/rpc/_common.py          CallContext.open_session   -> refusal guards in source order
                                  CallContext.close_session  -> must be: sink None guard, sink.close(), action set
  vgi_rpc/http/server/_sticky.py  _SessionRegistry.open      -> first statement is the draining refusal (ServerDrainingError)
                                  _StickySink.open / .close  -> field assignments after the callback returned
                                  _StickyMiddleware._open_session -> first statement calls self._registry.open
                                  _StickyMiddleware.process_response -> header emission rules from the sink
                                  _StickyMiddleware.process_request  -> accept_opens expression, session_lost return
                                                                         precedes the sink creation
  vgi_rpc/http/_client.py         _SessionTrackingClient._capture -> order of the view updates
                                  _SessionTrackingClient._merge_headers -> opt-in header always, token iff held
  vgi_rpc/http/_common.py         header-name constants are three distinct names

Emitted (gen/G_StickyLife.v):  gen_cfg : cfg   (record of M_StickyLife.v)
"""
from __future__ import annotations

import ast
from pathlib import Path

from vlib.core import TranslationBroken


def _parse(path: Path) -> ast.Module:
    try:
        return ast.parse(path.read_text())
    except (OSError, SyntaxError) as e:
        raise TranslationBroken(str(path), f"cannot parse: {e}") from e


def _cls(mod: ast.Module, name: str, site: str) -> ast.ClassDef:
    found = [n for n in mod.body if isinstance(n, ast.ClassDef) and n.name == name]
    if len(found) != 1:
        raise TranslationBroken(site, f"expected exactly one class {name}, found {len(found)}")
    return found[0]


def _func(body: list[ast.stmt], name: str, site: str) -> ast.FunctionDef:
    found = [n for n in body if isinstance(n, ast.FunctionDef) and n.name == name]
    if len(found) != 1:
        raise TranslationBroken(site, f"expected exactly one def {name}, found {len(found)}")
    return found[0]


def _body(fn: ast.FunctionDef) -> list[ast.stmt]:
    b = fn.body
    if b and isinstance(b[0], ast.Expr) and isinstance(b[0].value, ast.Constant) and isinstance(b[0].value.value, str):
        return b[1:]
    return b


def _u(node: ast.AST) -> str:
    return ast.unparse(node)


def _is_raise(stmts: list[ast.stmt], exc_name: str) -> bool:
    if len(stmts) != 1 or not isinstance(stmts[0], ast.Raise) or stmts[0].exc is None:
        return False
    e = stmts[0].exc
    return isinstance(e, ast.Call) and isinstance(e.func, ast.Name) and e.func.id == exc_name


def _open_guards(common: ast.Module) -> list[str]:
    site = "rpc/_common.py:CallContext.open_session"
    fn = _func(_cls(common, "CallContext", site).body, "open_session", site)
    b = _body(fn)
    if not b or _u(b[0]) != "sink = _current_sticky_sink.get()":
        raise TranslationBroken(site, "first statement is not `sink = _current_sticky_sink.get()`")
    guards: list[str] = []
    i = 1
    tests = {
        "sink is None": "GNoSink",
        "not sink.accept_opens": "GNotAccept",
        "_current_session_context.get() is not None": "GBound",
    }
    while i < len(b) and isinstance(b[i], ast.If):
        st = b[i]
        assert isinstance(st, ast.If)
        t = _u(st.test)
        if t not in tests or st.orelse or not _is_raise(st.body, "RuntimeError"):
            raise TranslationBroken(site, f"unexpected guard `if {t}` (or its body is not a single raise RuntimeError)")
        guards.append(tests[t])
        i += 1
    rest = [_u(s) for s in b[i:]]
    if rest != ["sink.open(state, ttl)", "_current_sticky_action.set('open')"]:
        raise TranslationBroken(site, f"statements after the guards are {rest}")
    return guards


def _check_close_session(common: ast.Module) -> None:
    site = "rpc/_common.py:CallContext.close_session"
    fn = _func(_cls(common, "CallContext", site).body, "close_session", site)
    b = _body(fn)
    got = [_u(s) for s in b]
    if len(b) != 4 or got[0] != "sink = _current_sticky_sink.get()" or not (
        isinstance(b[1], ast.If) and _u(b[1].test) == "sink is None" and not b[1].orelse and _is_raise(b[1].body, "RuntimeError")
    ) or got[2:] != ["sink.close()", "_current_sticky_action.set('close')"]:
        raise TranslationBroken(site, f"unexpected body {got}")


def _registry_open_guard(sticky: ast.Module) -> list[str]:
    site = "_sticky.py:_SessionRegistry.open"
    fn = _func(_cls(sticky, "_SessionRegistry", site).body, "open", site)
    b = _body(fn)
    out: list[str] = []
    if b and isinstance(b[0], ast.If):
        st = b[0]
        if _u(st.test) != "self._draining" or st.orelse or not _is_raise(st.body, "ServerDrainingError"):
            raise TranslationBroken(site, f"first statement is an unexpected `if {_u(st.test)}`")
        out.append("GDraining")
        b = b[1:]
    # nothing after the drain test may refuse or branch
    for s in b:
        for n in ast.walk(s):
            if isinstance(n, (ast.Raise, ast.If, ast.Try, ast.While, ast.For)):
                raise TranslationBroken(site, f"unexpected control flow after the drain test: {_u(s)[:80]}")
    joined = " ; ".join(_u(s) for s in b)
    if "self._entries[session_id] = entry" not in joined or "return (session_id, expires_at)" not in joined:
        raise TranslationBroken(site, "registration / return statement not found")
    # the middleware callback must reach the registry before anything else
    site2 = "_sticky.py:_StickyMiddleware._open_session"
    fn2 = _func(_cls(sticky, "_StickyMiddleware", site2).body, "_open_session", site2)
    b2 = _body(fn2)
    if not b2 or _u(b2[0]) != "session_id, expires_at = self._registry.open(state, ttl, principal_key)":
        raise TranslationBroken(site2, "first statement does not call self._registry.open")
    for s in b2:
        for n in ast.walk(s):
            if isinstance(n, (ast.Raise, ast.If, ast.Try, ast.While, ast.For)):
                raise TranslationBroken(site2, f"unexpected control flow: {_u(s)[:80]}")
    return out


_SID_CAPTURE = ["sc = _current_session_context.get()", "if sc is not None:\n    self.session_id = sc.session_id"]


def _sink_updates(stmts: list[ast.stmt], site: str, in_open: bool) -> list[str]:
    out: list[str] = []
    for s in stmts:
        t = _u(s)
        if t == "self.mint_token = token" and in_open:
            out.append("UMintTok")
        elif t == "self.mint_token = None":
            out.append("UMintNone")
        elif t == "self.closed = True":
            out.append("UClosed true")
        elif t == "self.closed = False":
            out.append("UClosed false")
        elif in_open and t in _SID_CAPTURE:
            continue  # access-log bookkeeping of the session id, no effect on the headers
        else:
            raise TranslationBroken(site, f"unexpected statement `{t[:80]}`")
    return out


def _sink_programs(sticky: ast.Module) -> tuple[list[str], list[str]]:
    site = "_sticky.py:_StickySink"
    cls = _cls(sticky, "_StickySink", site)
    fo = _body(_func(cls.body, "open", site))
    if len(fo) < 2 or _u(fo[0]) != "token = self._open_callback(state, ttl)" or _u(fo[-1]) != "return token":
        raise TranslationBroken(site + ".open", "does not start with the callback / end with `return token`")
    open_prog = _sink_updates(fo[1:-1], site + ".open", True)
    fc = _body(_func(cls.body, "close", site))
    if not fc or _u(fc[0]) != "self._close_callback()":
        raise TranslationBroken(site + ".close", "does not start with the callback")
    close_prog = _sink_updates(fc[1:], site + ".close", False)
    # field defaults of the dataclass: mint_token None, closed False
    defaults = {}
    for n in cls.body:
        if isinstance(n, ast.AnnAssign) and isinstance(n.target, ast.Name) and n.value is not None:
            defaults[n.target.id] = _u(n.value)
    if defaults.get("mint_token") != "None" or defaults.get("closed") != "False":
        raise TranslationBroken(site, f"unexpected field defaults {defaults}")
    return open_prog, close_prog


def _emit_rules(sticky: ast.Module) -> list[str]:
    site = "_sticky.py:_StickyMiddleware.process_response"
    fn = _func(_cls(sticky, "_StickyMiddleware", site).body, "process_response", site)
    b = _body(fn)
    if len(b) < 2 or not _u(b[0]).startswith("sink: _StickySink | None = getattr(req.context, 'sticky_sink', None)"):
        raise TranslationBroken(site, "first statement does not read req.context.sticky_sink")
    top = b[1]
    if not (isinstance(top, ast.If) and _u(top.test) == "sink is not None" and not top.orelse):
        raise TranslationBroken(site, "second statement is not `if sink is not None:`")
    rules: list[str] = []
    for s in top.body:
        if not isinstance(s, ast.If) or s.orelse:
            raise TranslationBroken(site, f"unexpected statement under `if sink is not None`: {_u(s)[:80]}")
        t = _u(s.test)
        if t == "sink.mint_token is not None":
            if not s.body or _u(s.body[0]) != "resp.set_header(SESSION_HEADER, sink.mint_token)":
                raise TranslationBroken(site, "mint branch does not set SESSION_HEADER to sink.mint_token first")
            for extra in s.body[1:]:
                if not (isinstance(extra, ast.For) and "ECHO_HEADER_PREFIX" in _u(extra)):
                    raise TranslationBroken(site, f"unexpected statement in the mint branch: {_u(extra)[:80]}")
            rules.append("EmSessionIfMint")
        elif t == "sink.closed":
            if [_u(x) for x in s.body] != ["resp.set_header(SESSION_CLOSE_HEADER, 'true')"]:
                raise TranslationBroken(site, "closed branch does not set SESSION_CLOSE_HEADER to 'true'")
            rules.append("EmCloseIfClosed")
        else:
            raise TranslationBroken(site, f"unexpected emission test `{t}`")
    # no other session header is written anywhere else in the function
    rest = " ".join(_u(s) for s in b[2:])
    if "set_header" in rest or "SESSION_" in rest:
        raise TranslationBroken(site, "headers are written outside the `if sink is not None` block")
    return rules


def _check_process_request(sticky: ast.Module) -> None:
    site = "_sticky.py:_StickyMiddleware.process_request"
    fn = _func(_cls(sticky, "_StickyMiddleware", site).body, "process_request", site)
    src = _u(fn)
    want = "accept_opens = (req.get_header(SESSION_ACCEPT_HEADER) or '').strip().lower() == 'true'"
    if want not in src:
        raise TranslationBroken(site, "accept_opens expression changed")
    if src.count("_StickySink(") != 1 or "accept_opens=accept_opens" not in src:
        raise TranslationBroken(site, "sink construction changed")
    # the session_lost early return happens before the sink is created, and the resume binding after the lookup
    i_ret = src.find("resp.complete = True")
    i_sink = src.find("_StickySink(")
    i_get = src.find("entry = self._registry.get(session_id, principal_key)")
    i_bind = src.find("_current_session_context.set(")
    if not (0 <= i_get < i_ret < i_bind < i_sink):
        raise TranslationBroken(site, "order lookup < session_lost return < bind < sink creation not found")
    import re

    if re.search(r"if entry is None:\n\s+raise SessionLostError", src) is None:
        raise TranslationBroken(site, "registry miss does not raise SessionLostError")


def _capture_rules(client: ast.Module) -> list[str]:
    site = "_client.py:_SessionTrackingClient._capture"
    cls = _cls(client, "_SessionTrackingClient", site)
    b = _body(_func(cls.body, "_capture", site))
    rules: list[str] = []
    have_token = have_flag = False
    for s in b:
        t = _u(s)
        if isinstance(s, ast.Try) and t.startswith("try:\n    hdrs = resp.headers\nexcept AttributeError:\n    return"):
            continue
        if t == "token = hdrs.get(SESSION_HEADER) or hdrs.get(SESSION_HEADER.lower())":
            have_token = True
        elif t == "if token:\n    self._view._token = token":
            if not have_token:
                raise TranslationBroken(site, "token applied before it is read")
            rules.append("CapTokenIfPresent")
        elif t == "close_flag = hdrs.get(SESSION_CLOSE_HEADER) or hdrs.get(SESSION_CLOSE_HEADER.lower())":
            have_flag = True
        elif isinstance(s, ast.If) and _u(s.test) == "(close_flag or '').strip().lower() == 'true'":
            body = [_u(x) for x in s.body]
            if not have_flag or s.orelse or "self._view._token = None" not in body or any(
                x not in ("self._view._token = None", "self._view._echo_headers.clear()", "self._view._closed = True") for x in body
            ):
                raise TranslationBroken(site, f"unexpected close branch {body}")
            rules.append("CapClearIfClose")
        elif t.startswith("prefix_lower = ECHO_HEADER_PREFIX.lower()") or (isinstance(s, ast.For) and "_echo_headers" in t and "_token" not in t):
            continue
        else:
            raise TranslationBroken(site, f"unexpected statement `{t[:80]}`")
    # requests of a view: opt-in always, token iff held
    site2 = "_client.py:_SessionTrackingClient._merge_headers"
    m = _u(_func(cls.body, "_merge_headers", site2))
    if "merged[SESSION_ACCEPT_HEADER] = 'true'" not in m or "if self._view._token is not None:\n        merged[SESSION_HEADER] = self._view._token" not in m:
        raise TranslationBroken(site2, "opt-in / token injection changed")
    post = _u(_func(cls.body, "post", site))
    if "kwargs['headers'] = self._merge_headers(kwargs.get('headers'))" not in post or "self._capture(resp)" not in post:
        raise TranslationBroken(site + " (post)", "post does not merge headers and capture the response")
    return rules


def _check_constants(httpcommon: ast.Module) -> None:
    site = "http/_common.py"
    vals = {}
    for n in httpcommon.body:
        if isinstance(n, ast.Assign) and len(n.targets) == 1 and isinstance(n.targets[0], ast.Name) and isinstance(n.value, ast.Constant):
            vals[n.targets[0].id] = n.value.value
    names = [vals.get(k) for k in ("SESSION_HEADER", "SESSION_ACCEPT_HEADER", "SESSION_CLOSE_HEADER")]
    if any(not isinstance(x, str) or not x for x in names) or len({str(x).lower() for x in names}) != 3:
        raise TranslationBroken(site, f"session header names are not three distinct strings: {names}")


def cfg_definition(repo: Path) -> str:
    common = _parse(repo / "vgi_rpc" / "rpc" / "_common.py")
    sticky = _parse(repo / "vgi_rpc" / "http" / "server" / "_sticky.py")
    client = _parse(repo / "vgi_rpc" / "http" / "_client.py")
    httpcommon = _parse(repo / "vgi_rpc" / "http" / "_common.py")
    _check_constants(httpcommon)
    _check_close_session(common)
    _check_process_request(sticky)
    guards = _open_guards(common) + _registry_open_guard(sticky)
    open_prog, close_prog = _sink_programs(sticky)
    emit = _emit_rules(sticky)
    cap = _capture_rules(client)

    def lst(xs: list[str]) -> str:
        return "[" + "; ".join(xs) + "]"

    return (
        "Definition gen_cfg : cfg :=\n"
        f"  mkCfg {lst(guards)}\n        {lst(open_prog)}\n        {lst(close_prog)}\n        {lst(emit)}\n        {lst(cap)}.\n"
    )
