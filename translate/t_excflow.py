"""Fail-closed translator: the ordered ``except`` clauses of the socket server's dispatch functions.

``RpcServer.serve / serve_one / _serve_unary / _serve_stream`` (vgi_rpc/rpc/_server.py) -> coq/gen/G_WireHandlers.v:
for every function the list of its ``try`` statements in source order, each as the list of handlers, each handler as
the list of exception class names it catches plus how its body ends ("return" | "raise" | "break" | "fall").
M_Wire's server model is written against exactly this table (tie/T_Wire.v proves equality by reflexivity), so a
change of which exceptions are answered with an error stream / end the serve loop / escape breaks the tie.
"""
from __future__ import annotations

import ast
from pathlib import Path

from vlib.core import TranslationBroken

FUNCS = ["serve", "serve_one", "_serve_unary", "_serve_stream"]


def _name(e: ast.expr | None, site: str) -> list[str]:
    if e is None:
        return ["<bare>"]
    if isinstance(e, ast.Tuple):
        out: list[str] = []
        for x in e.elts:
            out += _name(x, site)
        return out
    if isinstance(e, ast.Name):
        return [e.id]
    if isinstance(e, ast.Attribute):
        parts = []
        cur: ast.expr = e
        while isinstance(cur, ast.Attribute):
            parts.append(cur.attr)
            cur = cur.value
        if not isinstance(cur, ast.Name):
            raise TranslationBroken(site, "unexpected exception expression " + ast.dump(e)[:80])
        parts.append(cur.id)
        return [".".join(reversed(parts))]
    raise TranslationBroken(site, "unexpected exception expression " + ast.dump(e)[:80])


def _ending(body: list[ast.stmt]) -> str:
    last = body[-1]
    if isinstance(last, ast.Return):
        return "return"
    if isinstance(last, ast.Raise):
        return "raise"
    if isinstance(last, ast.Break):
        return "break"
    return "fall"


def _tries(node: ast.AST, out: list[ast.Try]) -> None:
    for child in ast.iter_child_nodes(node):
        if isinstance(child, (ast.FunctionDef, ast.AsyncFunctionDef, ast.Lambda, ast.ClassDef)):
            continue
        if isinstance(child, ast.Try):
            out.append(child)
        _tries(child, out)


def handler_table(repo: Path) -> list[tuple[str, list[list[tuple[list[str], str]]]]]:
    src = repo / "vgi_rpc" / "rpc" / "_server.py"
    tree = ast.parse(src.read_text())
    cls = next((n for n in tree.body if isinstance(n, ast.ClassDef) and n.name == "RpcServer"), None)
    if cls is None:
        raise TranslationBroken(str(src), "class RpcServer not found")
    table = []
    for fn in FUNCS:
        f = next((n for n in cls.body if isinstance(n, ast.FunctionDef) and n.name == fn), None)
        if f is None:
            raise TranslationBroken(f"{src}:{fn}", "function not found")
        tries: list[ast.Try] = []
        _tries(f, tries)
        tries.sort(key=lambda t: (t.lineno, t.col_offset))
        rows = []
        for t in tries:
            if not t.handlers:
                continue  # try/finally only
            rows.append([(_name(h.type, f"{src}:{fn}:{h.lineno}"), _ending(h.body)) for h in t.handlers])
        table.append((fn, rows))
    return table


def handlers_module(repo: Path) -> str:
    def q(s: str) -> str:
        return '"' + s.replace('"', '""') + '"'

    lines = ["From Coq Require Import List String.", "Import ListNotations.", "Open Scope string_scope.",
             "Definition gen_handlers : list (string * list (list (list string * string))) := ["]
    fns = []
    for fn, rows in handler_table(repo):
        rs = "; ".join("[" + "; ".join("([" + "; ".join(q(n) for n in names) + f"], {q(end)})" for names, end in row) + "]" for row in rows)
        fns.append(f"  ({q(fn)}, [{rs}])")
    lines.append(";\n".join(fns))
    lines.append("].")
    return "\n".join(lines) + "\n"
