"""Fail-closed translator for the value path of property C02 -> coq/gen/G_Values.v.

Regenerated from the working tree on every run:
  * ``_convert_for_arrow`` (vgi_rpc/rpc/_wire.py): the ordered ``isinstance`` chain -> ``gen_convert_order``
  * ``_infer_arrow_type`` (vgi_rpc/utils.py): the order of its top-level branches -> ``gen_infer_order``,
    the ``type_map`` literal -> ``gen_type_map``, the Arrow type chosen by each container / enum branch
  * ``_build_result_schema`` (vgi_rpc/rpc/_types.py): whether the Optional wrapper is stripped before the
    dataclass test -> ``gen_result_opt_first`` (the model's ``opt_first`` parameter)
  * ``_is_optional_type`` (vgi_rpc/utils.py): whether it looks through ``Annotated[X | None, ...]`` and re-wraps
    -> ``gen_opt_through_ann`` (the model's ``is_opt`` is the shape with the look-through; the older shape is accepted
    by the translator and refused by the tie)
  * ``_build_params_schema``, ``_deserialize_value``, ``_deserialize_params``,
    ``_validate_params``, ``_validate_result``, ``_send_request`` (merge of defaults) and the result
    extraction of ``_read_unary_response`` / ``_build_result_batch`` must have exactly the statement
    shapes the model was written from (compared as normalised source; log statements ignored).
Anything else raises TranslationBroken.
"""
from __future__ import annotations

import ast
from pathlib import Path

from vlib.core import TranslationBroken


def _u(n: ast.AST) -> str:
    return ast.unparse(n)


def _func(path: Path, name: str) -> ast.FunctionDef:
    try:
        tree = ast.parse(path.read_text())
    except (OSError, SyntaxError) as e:
        raise TranslationBroken(str(path), f"cannot parse: {e}") from e
    fs = [n for n in tree.body if isinstance(n, ast.FunctionDef) and n.name == name]
    if len(fs) != 1:
        raise TranslationBroken(f"{path}:{name}", "function not found exactly once")
    return fs[0]


def _is_log(s: ast.stmt) -> bool:
    """``if <logger>.isEnabledFor(logging.DEBUG): <logger>.debug(...)`` -- wording not looked at."""
    if isinstance(s, ast.If) and not s.orelse and _u(s.test).endswith(".isEnabledFor(logging.DEBUG)"):
        return all(isinstance(b, ast.Expr) and isinstance(b.value, ast.Call) and _u(b.value.func).endswith("_logger.debug") for b in s.body)
    return False


def _body(fn: ast.FunctionDef) -> list[ast.stmt]:
    b = list(fn.body)
    if b and isinstance(b[0], ast.Expr) and isinstance(b[0].value, ast.Constant) and isinstance(b[0].value.value, str):
        b = b[1:]
    return [s for s in b if not _is_log(s)]


def _norm(stmts: list[ast.stmt]) -> list[str]:
    return [_u(s) for s in stmts]


def _expect(site: str, got: list[str], want: list[str]) -> None:
    if got != want:
        for i, (g, w) in enumerate(zip(got, want)):
            if g != w:
                raise TranslationBroken(site, f"statement {i} is {g!r}, expected {w!r}")
        raise TranslationBroken(site, f"{len(got)} statements, expected {len(want)}")


# ---------------------------------------------------------------- _convert_for_arrow
_CONVERT = {
    ("ArrowSerializableDataclass", "val.serialize_to_bytes()"): 1,
    ("Enum", "val.name"): 2,
    ("frozenset", "list(val)"): 3,
    ("dict", "list(val.items())"): 4,
}


def convert_order(wire: Path) -> list[int]:
    fn = _func(wire, "_convert_for_arrow")
    if [a.arg for a in fn.args.args] != ["val"]:
        raise TranslationBroken("_convert_for_arrow", "signature changed")
    out = []
    body = _body(fn)
    if not body or _u(body[-1]) != "return val":
        raise TranslationBroken("_convert_for_arrow", "does not end with `return val`")
    for s in body[:-1]:
        ok = (
            isinstance(s, ast.If) and not s.orelse and len(s.body) == 1 and isinstance(s.body[0], ast.Return)
            and isinstance(s.test, ast.Call) and _u(s.test.func) == "isinstance" and len(s.test.args) == 2 and _u(s.test.args[0]) == "val"
        )
        if not ok:
            raise TranslationBroken("_convert_for_arrow", f"unexpected statement {_u(s)!r}")
        key = (_u(s.test.args[1]), _u(s.body[0].value))  # type: ignore[union-attr]
        if key not in _CONVERT:
            raise TranslationBroken("_convert_for_arrow", f"unknown conversion {key!r}")
        out.append(_CONVERT[key])
    return out


# ---------------------------------------------------------------- _infer_arrow_type
_INFER_TESTS = [
    ("inner_type is not python_type", 1),  # Optional stripped first
    ("get_origin(python_type) is Annotated", 2),
    ("hasattr(python_type, '__supertype__')", 3),
    ("isinstance(python_type, type) and issubclass(python_type, Enum)", 4),
    ("hasattr(python_type, 'ARROW_SCHEMA') and isinstance(getattr(python_type, 'ARROW_SCHEMA', None), pa.Schema)", 5),
    ("origin is list", 6),
    ("origin is dict", 7),
    ("origin is frozenset", 8),
    ("python_type is pa.RecordBatch or python_type is pa.Schema", 9),
    ("isinstance(python_type, type) and python_type in type_map", 10),
    ("python_type is tuple or origin is tuple", 11),
]
_ARROW = {"pa.string()": 1, "pa.binary()": 2, "pa.int64()": 3, "pa.float64()": 4, "pa.bool_()": 5}
_PY = {"str": 1, "bytes": 2, "int": 3, "float": 4, "bool": 5}


def infer_tables(utils: Path) -> tuple[list[int], list[tuple[int, int]]]:
    fn = _func(utils, "_infer_arrow_type")
    order: list[int] = []
    type_map: list[tuple[int, int]] | None = None
    tests = dict(_INFER_TESTS)
    for s in _body(fn):
        if isinstance(s, ast.If):
            t = _u(s.test)
            if t not in tests:
                raise TranslationBroken("_infer_arrow_type", f"unknown branch test {t!r}")
            if s.orelse:
                raise TranslationBroken("_infer_arrow_type", f"branch {t!r} has an else")
            code = tests[t]
            body = _norm(s.body)
            want = {
                1: ["return _infer_arrow_type(inner_type)"],
                4: ["return pa.dictionary(pa.int16(), pa.string())"],
                6: ["if args:\n    element_type = _infer_arrow_type(args[0])\n    return pa.list_(element_type)", "return pa.list_(pa.string())"],
                7: ["if len(args) >= 2:\n    key_type = _infer_arrow_type(args[0])\n    value_type = _infer_arrow_type(args[1])\n    return pa.map_(key_type, value_type)", "return pa.map_(pa.string(), pa.string())"],
                8: ["if args:\n    element_type = _infer_arrow_type(args[0])\n    return pa.list_(element_type)", "return pa.list_(pa.string())"],
                10: ["return type_map[python_type]"],
            }.get(code)
            if want is not None:
                _expect(f"_infer_arrow_type[{t}]", body, want)
            if code == 2:
                _expect(
                    "_infer_arrow_type[Annotated]", body,
                    ["args = get_args(python_type)", "for arg in args[1:]:\n    if isinstance(arg, ArrowType):\n        return arg.arrow_type", "return _infer_arrow_type(args[0])"],
                )
            order.append(code)
        elif isinstance(s, ast.AnnAssign) and _u(s.target) == "type_map":
            if not isinstance(s.value, ast.Dict):
                raise TranslationBroken("_infer_arrow_type", "type_map is not a dict literal")
            type_map = []
            for k, v in zip(s.value.keys, s.value.values):
                ks, vs = _u(k) if k is not None else "**", _u(v)
                if ks not in _PY or vs not in _ARROW:
                    raise TranslationBroken("_infer_arrow_type", f"unknown type_map entry {ks}: {vs}")
                type_map.append((_PY[ks], _ARROW[vs]))
        elif _u(s) in ("inner_type, _ = _is_optional_type(python_type)", "origin = get_origin(python_type)", "args = get_args(python_type)"):
            continue
        elif isinstance(s, ast.Raise):
            continue
        else:
            raise TranslationBroken("_infer_arrow_type", f"unexpected statement {_u(s)[:80]!r}")
    if type_map is None:
        raise TranslationBroken("_infer_arrow_type", "type_map not found")
    return order, type_map


# ---------------------------------------------------------------- _build_result_schema
_RESULT_HEAD = "if result_type is type(None) or result_type is None:\n    return _EMPTY_SCHEMA"
_RESULT_OLD = [
    _RESULT_HEAD,
    "base = _unwrap_annotated(result_type)",
    "if isinstance(base, type) and issubclass(base, ArrowSerializableDataclass):\n    return pa.schema([pa.field('result', pa.binary())])",
    "inner, is_nullable = _is_optional_type(result_type)",
    "arrow_type = _infer_arrow_type(inner)",
    "return pa.schema([pa.field('result', arrow_type, nullable=is_nullable)])",
]
_RESULT_NEW = [
    _RESULT_HEAD,
    "inner, is_nullable = _is_optional_type(result_type)",
    "base = _unwrap_annotated(inner)",
    "if isinstance(base, type) and issubclass(base, ArrowSerializableDataclass):\n    return pa.schema([pa.field('result', pa.binary())])",
    "arrow_type = _infer_arrow_type(inner)",
    "return pa.schema([pa.field('result', arrow_type, nullable=is_nullable)])",
]


def result_opt_first(types: Path) -> bool:
    got = _norm(_body(_func(types, "_build_result_schema")))
    if got == _RESULT_OLD:
        return False
    if got == _RESULT_NEW:
        return True
    _expect("_build_result_schema", got, _RESULT_NEW)
    raise AssertionError


# ---------------------------------------------------------------- shapes that must be exactly as modelled
_IS_OPT_HEAD = [
    "origin = get_origin(python_type)",
    "args = get_args(python_type)",
    "if origin is UnionType or origin is Union:\n    non_none_types = [t for t in args if t is not type(None)]\n    if len(non_none_types) == 1 and len(args) == 2:\n        return (non_none_types[0], True)",
]
_IS_OPT_THROUGH_ANN = "if origin is Annotated:\n    inner, nullable = _is_optional_type(args[0])\n    if nullable:\n        return (Annotated[inner, *args[1:]], True)"
_IS_OPT_TAIL = ["return (python_type, False)"]


def opt_through_ann(utils: Path) -> bool:
    """_is_optional_type: does it look through Annotated[X | None, ...] and report (Annotated[X, ...], True)?"""
    got = _norm(_body(_func(utils, "_is_optional_type")))
    if got == _IS_OPT_HEAD + _IS_OPT_TAIL:
        return False
    if got == _IS_OPT_HEAD + [_IS_OPT_THROUGH_ANN] + _IS_OPT_TAIL:
        return True
    _expect("_is_optional_type", got, _IS_OPT_HEAD + [_IS_OPT_THROUGH_ANN] + _IS_OPT_TAIL)
    raise AssertionError


_SHAPES: list[tuple[str, str, list[str]]] = [
    ("types", "_build_params_schema", [
        "fields: list[pa.Field[pa.DataType]] = []",
        "for name, hint in hints.items():\n    if name in ('self', 'return'):\n        continue\n    inner, is_nullable = _is_optional_type(hint)\n    base = _unwrap_annotated(inner)\n"
        "    if isinstance(base, type) and issubclass(base, ArrowSerializableDataclass):\n        fields.append(pa.field(name, pa.binary(), nullable=is_nullable))\n"
        "    else:\n        arrow_type = _infer_arrow_type(inner)\n        fields.append(pa.field(name, arrow_type, nullable=is_nullable))",
        "return pa.schema(fields)",
    ]),
    ("wire", "_deserialize_value", [
        "inner, _ = _is_optional_type(type_hint)",
        "base = _unwrap_annotated(inner)",
        "if isinstance(base, type) and issubclass(base, ArrowSerializableDataclass):\n    if not isinstance(value, bytes):\n        raise TypeError(f'Expected bytes for {base.__name__} deserialization, got {type(value).__name__}')\n"
        "    reader = ValidatedReader(ipc.open_stream(value), ipc_validation)\n    batch, metadata = reader.read_next_batch_with_custom_metadata()\n"
        "    return base.deserialize_from_batch(batch, metadata, ipc_validation=ipc_validation)",
        "if isinstance(base, type) and issubclass(base, Enum):\n    if not isinstance(value, str):\n        raise TypeError(f'Expected str for {base.__name__} deserialization, got {type(value).__name__}')\n    return base[value]",
        "origin = get_origin(base)",
        "if origin is dict and isinstance(value, list):\n    return dict(cast('list[tuple[object, object]]', value))",
        "if origin is frozenset and isinstance(value, list):\n    return frozenset(value)",
        "return value",
    ]),
    ("wire", "_deserialize_params", [
        "for name, value in kwargs.items():\n    if value is None:\n        continue\n    ptype = param_types.get(name)\n    if ptype is None:\n        continue\n    kwargs[name] = _deserialize_value(value, ptype, ipc_validation)",
    ]),
    ("wire", "_validate_params", [
        "for name, value in kwargs.items():\n    if value is not None:\n        continue\n    ptype = param_types.get(name)\n    if ptype is None:\n        continue\n    _, is_nullable = _is_optional_type(ptype)\n"
        "    if not is_nullable:\n        raise TypeError(f\"{method_name}() parameter '{name}' is not optional but got None\")",
    ]),
    ("wire", "_validate_result", [
        "if value is not None:\n    return",
        "if result_type is None or result_type is type(None):\n    return",
        "_, is_nullable = _is_optional_type(result_type)",
        "if not is_nullable:\n    raise TypeError(f'{method_name}() expected a non-None return value but got None')",
    ]),
    ("wire", "_send_request", [
        "merged = {**info.param_defaults, **kwargs}",
        "_validate_params(info.name, merged, info.param_types)",
        "_write_request(writer, info.name, info.params_schema, merged, shm=shm, protocol_version=protocol_version)",
    ]),
    ("wire", "_build_result_batch", [
        "if len(result_schema) == 0:\n    return pa.RecordBatch.from_pydict({}, schema=_EMPTY_SCHEMA)",
        "wire_value = _convert_for_arrow(value)",
        "return pa.RecordBatch.from_arrays([pa.array([wire_value], type=result_schema.field(0).type)], schema=result_schema)",
    ]),
]


def check_shapes(repo: Path) -> None:
    files = {"utils": repo / "vgi_rpc" / "utils.py", "types": repo / "vgi_rpc" / "rpc" / "_types.py", "wire": repo / "vgi_rpc" / "rpc" / "_wire.py"}
    for key, name, want in _SHAPES:
        _expect(name, _norm(_body(_func(files[key], name))), want)
    # the per-field conversion of _write_request and the value extraction of the two readers
    wr = _norm(_body(_func(files["wire"], "_write_request")))
    if wr[:2] != ["arrays: list[pa.Array[Any]] = []", "for f in params_schema:\n    val = _convert_for_arrow(kwargs.get(f.name))\n    arrays.append(pa.array([val], type=f.type))"]:
        raise TranslationBroken("_write_request", "per-field conversion changed")
    # kwargs extraction: in _decode_request (called by _read_request) or, in older trees, in _read_request itself
    rr = _u(_func(files["wire"], "_read_request"))
    if "_decode_request(batch, custom_metadata" in rr:
        rr = _u(_func(files["wire"], "_decode_request"))
    if "kwargs = {f.name: batch.column(i)[0].as_py() for i, f in enumerate(batch.schema)}" not in rr or "return (method_name, kwargs)" not in rr:
        raise TranslationBroken("_read_request", "kwargs extraction changed")
    ru = _u(_func(files["wire"], "_read_unary_response"))
    for frag in ("value = batch.batch.column('result')[0].as_py()", "_validate_result(info.name, value, info.result_type)", "if value is None:\n            return None", "return _deserialize_value(value, info.result_type, reader.ipc_validation)"):
        if frag not in ru:
            raise TranslationBroken("_read_unary_response", f"missing {frag!r}")


def _clist(xs: list[int]) -> str:
    return "[" + "; ".join(f"{x}%N" for x in xs) + "]"


def generate(repo: Path) -> str:
    check_shapes(repo)
    conv = convert_order(repo / "vgi_rpc" / "rpc" / "_wire.py")
    order, tmap = infer_tables(repo / "vgi_rpc" / "utils.py")
    flag = result_opt_first(repo / "vgi_rpc" / "rpc" / "_types.py")
    through = opt_through_ann(repo / "vgi_rpc" / "utils.py")
    return (
        "From Coq Require Import List NArith.\nImport ListNotations.\n"
        f"Definition gen_convert_order : list N := {_clist(conv)}.\n"
        f"Definition gen_infer_order : list N := {_clist(order)}.\n"
        "Definition gen_type_map : list (N * N) := [" + "; ".join(f"({a}%N, {b}%N)" for a, b in tmap) + "].\n"
        f"Definition gen_result_opt_first : bool := {'true' if flag else 'false'}.\n"
        f"Definition gen_opt_through_ann : bool := {'true' if through else 'false'}.\n"
    )
