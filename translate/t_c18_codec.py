"""Fail-closed translator for vgi_rpc/_codec.py -> coq/gen/G_Codec.v (property C18).

The statement skeleton of every modelled function is matched, node for node, against the
skeletons below (annotations, docstrings and error-message texts are ignored; nothing else is).
The deciding expressions sit in named holes (``HOLE_x``) and are translated to Coq ``Z`` / ``bool``
terms; together with the module constants they form ``gen_params : M_Codec.params``.
``gen_knobs`` collects the values no proof depends on (read chunk, default levels, wbits, eof guard).
tie/T_Codec.v proves ``gen_params = std_params gen_knobs`` by reflexivity and ``1 <= k_chunk gen_knobs``,
so a change of a comparison, of the shape of a read size, of the sentinels or of the statement structure
breaks an obligation, while a change of the chunk size or of a default level does not.

``_decompress_body_gzip`` is accepted in three shapes: (0) as it is today, (1) with the
``if not do.eof: raise DecompressionError(...)`` guards after the flush of both branches, (2) with those
guards and ``do.eof or`` in the loop's break test (candidate repair fixes/C17-gzip-eof.diff);
``k_eof`` / ``k_eof_break`` of ``gen_knobs`` say which one was found.
"""
from __future__ import annotations

import ast
from pathlib import Path

from vlib.core import TranslationBroken

SKELETONS: dict[str, list[str]] = {
    "_zstd_content_size": ['''
def _zstd_content_size(data):
    import zstandard
    size = zstandard.get_frame_parameters(data).content_size
    if size in HOLE_sentinels:
        return None
    return int(size)
'''],
    "_compress_body_zstd": ['''
def _compress_body_zstd(data, level):
    import zstandard
    return zstandard.ZstdCompressor(level=level).compress(data)
'''],
    "_decompress_body_zstd": ['''
def _decompress_body_zstd(data, *, max_output_size=None):
    import zstandard
    declared = _zstd_content_size(data)
    if max_output_size is None:
        if declared is None:
            with zstandard.ZstdDecompressor().stream_reader(data) as reader:
                return reader.read()
        return zstandard.ZstdDecompressor().decompress(data)
    if HOLE_refuse:
        raise DecompressionLimitExceeded(MSG)
    if declared is not None:
        return zstandard.ZstdDecompressor().decompress(data)
    decompressor = zstandard.ZstdDecompressor()
    chunks = []
    total = 0
    with decompressor.stream_reader(data) as reader:
        while True:
            chunk = reader.read(HOLE_zreq)
            if not chunk:
                break
            total += len(chunk)
            if HOLE_zover:
                raise DecompressionLimitExceeded(MSG)
            chunks.append(chunk)
    return b"".join(chunks)
'''],
    "_compress_body_gzip": ['''
def _compress_body_gzip(data, level):
    co = zlib.compressobj(level, zlib.DEFLATED, HOLE_wbits_c)
    return co.compress(data) + co.flush(zlib.Z_FINISH)
'''],
    "_decompress_body_gzip": ['''
def _decompress_body_gzip(data, *, max_output_size=None):
    do = zlib.decompressobj(HOLE_wbits_d)
    if max_output_size is None:
        return do.decompress(data) + do.flush()
    chunks = []
    total = 0
    remaining = data
    while remaining or do.unconsumed_tail:
        if do.unconsumed_tail:
            inbuf = do.unconsumed_tail
        else:
            inbuf, remaining = remaining, b""
        chunk = do.decompress(inbuf, HOLE_greq)
        if chunk:
            total += len(chunk)
            if HOLE_gover:
                raise DecompressionLimitExceeded(MSG)
            chunks.append(chunk)
        if not chunk and not do.unconsumed_tail:
            break
    tail = do.flush()
    if tail:
        total += len(tail)
        if HOLE_gover_tail:
            raise DecompressionLimitExceeded(MSG)
        chunks.append(tail)
    return b"".join(chunks)
''', '''
def _decompress_body_gzip(data, *, max_output_size=None):
    do = zlib.decompressobj(HOLE_wbits_d)
    if max_output_size is None:
        out = do.decompress(data) + do.flush()
        if not do.eof:
            raise DecompressionError(MSG)
        return out
    chunks = []
    total = 0
    remaining = data
    while remaining or do.unconsumed_tail:
        if do.unconsumed_tail:
            inbuf = do.unconsumed_tail
        else:
            inbuf, remaining = remaining, b""
        chunk = do.decompress(inbuf, HOLE_greq)
        if chunk:
            total += len(chunk)
            if HOLE_gover:
                raise DecompressionLimitExceeded(MSG)
            chunks.append(chunk)
        if not chunk and not do.unconsumed_tail:
            break
    tail = do.flush()
    if tail:
        total += len(tail)
        if HOLE_gover_tail:
            raise DecompressionLimitExceeded(MSG)
        chunks.append(tail)
    if not do.eof:
        raise DecompressionError(MSG)
    return b"".join(chunks)
''', '''
def _decompress_body_gzip(data, *, max_output_size=None):
    do = zlib.decompressobj(HOLE_wbits_d)
    if max_output_size is None:
        out = do.decompress(data) + do.flush()
        if not do.eof:
            raise DecompressionError(MSG)
        return out
    chunks = []
    total = 0
    remaining = data
    while remaining or do.unconsumed_tail:
        if do.unconsumed_tail:
            inbuf = do.unconsumed_tail
        else:
            inbuf, remaining = remaining, b""
        chunk = do.decompress(inbuf, HOLE_greq)
        if chunk:
            total += len(chunk)
            if HOLE_gover:
                raise DecompressionLimitExceeded(MSG)
            chunks.append(chunk)
        if do.eof or (not chunk and not do.unconsumed_tail):
            break
    tail = do.flush()
    if tail:
        total += len(tail)
        if HOLE_gover_tail:
            raise DecompressionLimitExceeded(MSG)
        chunks.append(tail)
    if not do.eof:
        raise DecompressionError(MSG)
    return b"".join(chunks)
'''],
    "compress": ['''
def compress(encoding, data, *, level=None):
    if encoding is Encoding.IDENTITY:
        return data
    if encoding is Encoding.ZSTD:
        return _compress_body_zstd(data, HOLE_zlevel)
    if encoding is Encoding.GZIP:
        return _compress_body_gzip(data, HOLE_glevel)
    raise ValueError(MSG)
'''],
    "decompress": ['''
def decompress(encoding, data, *, max_output_size=None):
    if encoding is Encoding.IDENTITY:
        return data
    if encoding is Encoding.ZSTD:
        return _decompress_body_zstd(data, max_output_size=max_output_size)
    if encoding is Encoding.GZIP:
        return _decompress_body_gzip(data, max_output_size=max_output_size)
    raise ValueError(MSG)
'''],
}

_IGNORED_FIELDS = {"annotation", "returns", "type_comment", "ctx", "type_params", "decorator_list"}


class _Mismatch(Exception):
    pass


def _strip_doc(body: list[ast.stmt]) -> list[ast.stmt]:
    if body and isinstance(body[0], ast.Expr) and isinstance(body[0].value, ast.Constant) and isinstance(body[0].value.value, str):
        return body[1:]
    return body


def _norm_stmt(s: ast.stmt) -> ast.stmt:
    # `x: T = v` and `x = v` are the same statement for the model
    if isinstance(s, ast.AnnAssign) and s.value is not None and s.simple:
        return ast.Assign(targets=[s.target], value=s.value)
    return s


def _unify(exp: object, act: object, holes: dict[str, ast.AST], where: str) -> None:
    if isinstance(exp, ast.Name) and exp.id.startswith("HOLE_"):
        if not isinstance(act, ast.AST):
            raise _Mismatch(f"{where}: hole {exp.id} facing a non-expression")
        holes[exp.id[5:]] = act
        return
    if isinstance(exp, ast.Name) and exp.id == "MSG":
        return
    if isinstance(exp, list):
        if not isinstance(act, list):
            raise _Mismatch(f"{where}: list expected")
        if exp and isinstance(exp[0], ast.stmt) or act and isinstance(act[0], ast.stmt):
            act = [_norm_stmt(s) for s in act]
        if len(exp) != len(act):
            raise _Mismatch(f"{where}: {len(act)} items where the model has {len(exp)}")
        for k, (e, a) in enumerate(zip(exp, act)):
            _unify(e, a, holes, f"{where}[{k}]")
        return
    if isinstance(exp, ast.AST):
        if type(exp) is not type(act):
            line = getattr(act, "lineno", "?")
            raise _Mismatch(f"{where}: {type(act).__name__} (line {line}) where the model has {type(exp).__name__}")
        assert isinstance(act, ast.AST)
        for field in exp._fields:
            if field in _IGNORED_FIELDS:
                continue
            ev, av = getattr(exp, field, None), getattr(act, field, None)
            if field == "body" and isinstance(exp, ast.FunctionDef):
                ev, av = _strip_doc(ev), _strip_doc(av)
            _unify(ev, av, holes, f"{where}.{field}")
        return
    if exp != act:
        raise _Mismatch(f"{where}: {act!r} where the model has {exp!r}")


def _match_function(fn: ast.FunctionDef, site: str) -> tuple[int, dict[str, ast.AST]]:
    errs = []
    for k, src in enumerate(SKELETONS[fn.name]):
        exp = ast.parse(src).body[0]
        holes: dict[str, ast.AST] = {}
        try:
            _unify(exp, fn, holes, fn.name)
            return k, holes
        except _Mismatch as e:
            errs.append(str(e))
    raise TranslationBroken(site, "statement structure differs from the modelled one: " + " | ".join(errs))


# ---------------------------------------------------------------------------
# expressions
# ---------------------------------------------------------------------------


class _Env:
    def __init__(self, site: str, consts: dict[str, int], names: dict[str, str]):
        self.site, self.consts, self.names = site, consts, names


def zexpr(n: ast.AST, env: _Env) -> str:
    if isinstance(n, ast.Constant) and type(n.value) is int:
        return f"({n.value})"
    if isinstance(n, ast.Name):
        if n.id in env.names:
            return env.names[n.id]
        if n.id in env.consts:
            return f"gen_{n.id.lstrip('_')}"
        raise TranslationBroken(env.site, f"unknown name {n.id!r} in an integer expression")
    if isinstance(n, ast.UnaryOp) and isinstance(n.op, ast.USub):
        return f"(- {zexpr(n.operand, env)})"
    if isinstance(n, ast.BinOp) and isinstance(n.op, (ast.Add, ast.Sub, ast.Mult)):
        op = {ast.Add: "+", ast.Sub: "-", ast.Mult: "*"}[type(n.op)]
        return f"({zexpr(n.left, env)} {op} {zexpr(n.right, env)})"
    if isinstance(n, ast.Call) and isinstance(n.func, ast.Name) and n.func.id in ("min", "max") and len(n.args) == 2 and not n.keywords:
        return f"(Z.{n.func.id} {zexpr(n.args[0], env)} {zexpr(n.args[1], env)})"
    raise TranslationBroken(env.site, f"unsupported integer expression: {ast.dump(n)[:120]}")


def bexpr(n: ast.AST, env: _Env) -> str:
    if isinstance(n, ast.Compare) and len(n.ops) == 1 and len(n.comparators) == 1:
        a, b = zexpr(n.left, env), zexpr(n.comparators[0], env)
        op = type(n.ops[0])
        table = {ast.Gt: f"({a} >? {b})", ast.GtE: f"({a} >=? {b})", ast.Lt: f"({a} <? {b})", ast.LtE: f"({a} <=? {b})",
                 ast.Eq: f"({a} =? {b})", ast.NotEq: f"(negb ({a} =? {b}))"}
        if op in table:
            return table[op]
    raise TranslationBroken(env.site, f"unsupported comparison: {ast.dump(n)[:120]}")


def refuse_expr(n: ast.AST, env: _Env) -> str:
    """``declared is not None and <cmp over declared, max_output_size>``"""
    if (isinstance(n, ast.BoolOp) and isinstance(n.op, ast.And) and len(n.values) == 2
            and isinstance(n.values[0], ast.Compare) and isinstance(n.values[0].left, ast.Name) and n.values[0].left.id == "declared"
            and len(n.values[0].ops) == 1 and isinstance(n.values[0].ops[0], ast.IsNot)
            and isinstance(n.values[0].comparators[0], ast.Constant) and n.values[0].comparators[0].value is None):
        inner = _Env(env.site, env.consts, {**env.names, "declared": "declared_v"})
        return f"match declared with None => false | Some declared_v => {bexpr(n.values[1], inner)} end"
    raise TranslationBroken(env.site, f"refusal guard is not `declared is not None and <comparison>`: {ast.dump(n)[:160]}")


def default_level(n: ast.AST, env: _Env) -> str:
    """``<default> if level is None else level``"""
    if (isinstance(n, ast.IfExp) and isinstance(n.test, ast.Compare) and isinstance(n.test.left, ast.Name) and n.test.left.id == "level"
            and len(n.test.ops) == 1 and isinstance(n.test.ops[0], ast.Is)
            and isinstance(n.test.comparators[0], ast.Constant) and n.test.comparators[0].value is None
            and isinstance(n.orelse, ast.Name) and n.orelse.id == "level"):
        return zexpr(n.body, env)
    raise TranslationBroken(env.site, f"level default is not `<d> if level is None else level`: {ast.dump(n)[:160]}")


# ---------------------------------------------------------------------------


def _const_int(n: ast.AST) -> int | None:
    """Value of a constant integer expression built from literals with + - * ** << (else None)."""
    if isinstance(n, ast.Constant) and type(n.value) is int:
        return n.value
    if isinstance(n, ast.UnaryOp) and isinstance(n.op, ast.USub):
        v = _const_int(n.operand)
        return None if v is None else -v
    if isinstance(n, ast.BinOp) and isinstance(n.op, (ast.Add, ast.Sub, ast.Mult, ast.Pow, ast.LShift)):
        a, b = _const_int(n.left), _const_int(n.right)
        if a is None or b is None:
            return None
        if isinstance(n.op, (ast.Pow, ast.LShift)):
            if not 0 <= b <= 128:
                return None
            return a**b if isinstance(n.op, ast.Pow) else a << b
        return a + b if isinstance(n.op, ast.Add) else (a - b if isinstance(n.op, ast.Sub) else a * b)
    return None


def _module_int_constants(tree: ast.Module, site: str) -> dict[str, int]:
    out: dict[str, int] = {}
    stores: dict[str, int] = {}
    for node in ast.walk(tree):
        if isinstance(node, ast.Name) and isinstance(node.ctx, (ast.Store, ast.Del)):
            stores[node.id] = stores.get(node.id, 0) + 1
        if isinstance(node, ast.Global):
            raise TranslationBroken(site, "a `global` statement: module constants may be rebound")
    for node in tree.body:
        tgt = val = None
        if isinstance(node, ast.Assign) and len(node.targets) == 1 and isinstance(node.targets[0], ast.Name):
            tgt, val = node.targets[0].id, node.value
        elif isinstance(node, ast.AnnAssign) and isinstance(node.target, ast.Name) and node.value is not None:
            tgt, val = node.target.id, node.value
        if tgt is None:
            continue
        v = _const_int(val)
        if v is not None:
            if stores.get(tgt, 0) != 1:
                raise TranslationBroken(site, f"constant {tgt} is assigned {stores.get(tgt)} times")
            out[tgt] = v
    return out


def _check_encoding_enum(tree: ast.Module, site: str) -> None:
    for node in tree.body:
        if isinstance(node, ast.ClassDef) and node.name == "Encoding":
            members = []
            for s in _strip_doc(node.body):
                if isinstance(s, ast.Assign) and len(s.targets) == 1 and isinstance(s.targets[0], ast.Name):
                    members.append(s.targets[0].id)
                else:
                    raise TranslationBroken(site, f"Encoding has a member that is not a plain assignment (line {s.lineno})")
            if sorted(members) != ["GZIP", "IDENTITY", "ZSTD"]:
                raise TranslationBroken(site, f"Encoding members are {members}; the model has ZSTD, GZIP, IDENTITY")
            return
    raise TranslationBroken(site, "class Encoding not found")


def codec_definitions(path: Path) -> str:
    site = str(path)
    try:
        tree = ast.parse(path.read_text())
    except (OSError, SyntaxError) as e:
        raise TranslationBroken(site, f"cannot parse: {e}") from e
    consts = _module_int_constants(tree, site)
    _check_encoding_enum(tree, site)
    fns: dict[str, ast.FunctionDef] = {}
    for node in tree.body:
        if isinstance(node, ast.FunctionDef):
            if node.name in fns:
                raise TranslationBroken(site, f"{node.name} defined twice")
            fns[node.name] = node
        elif isinstance(node, ast.AsyncFunctionDef) and node.name in SKELETONS:
            raise TranslationBroken(site, f"{node.name} is async")
    holes: dict[str, ast.AST] = {}
    variant: dict[str, int] = {}
    for name in SKELETONS:
        if name not in fns:
            raise TranslationBroken(site, f"function {name} not found at module level")
        if fns[name].decorator_list:
            raise TranslationBroken(site, f"{name} is decorated")
        k, h = _match_function(fns[name], f"{site}:{name}")
        variant[name] = k
        holes.update(h)
    # names must not be rebound after the module body defined them
    for name in SKELETONS:
        n_store = sum(1 for x in ast.walk(tree) if isinstance(x, ast.Name) and x.id == name and isinstance(x.ctx, ast.Store))
        if n_store:
            raise TranslationBroken(site, f"{name} is rebound")

    env = _Env(site, consts, {"max_output_size": "cap", "total": "total"})
    sent = holes["sentinels"]
    if not isinstance(sent, (ast.Tuple, ast.List, ast.Set)):
        raise TranslationBroken(site, f"sentinel container is not a tuple/list/set literal: {ast.dump(sent)[:80]}")
    no_vars = _Env(site, consts, {})
    sentinels = "; ".join(zexpr(e, no_vars) for e in sent.elts)
    wb_c, wb_d = zexpr(holes["wbits_c"], no_vars), zexpr(holes["wbits_d"], no_vars)
    if wb_c != wb_d:
        raise TranslationBroken(site, f"compressobj wbits {wb_c} and decompressobj wbits {wb_d} differ")
    used = sorted({x.id for h in holes.values() for x in ast.walk(h) if isinstance(x, ast.Name) and x.id in consts})
    lines = [
        "From Coq Require Import List ZArith Bool.",
        "From VGI Require Import M_Codec.",
        "Import ListNotations.",
        "Open Scope Z_scope.",
        f"(* source: {path.name}; gzip decoder shape #{variant['_decompress_body_gzip']} *)",
    ]
    for c in used:
        lines.append(f"Definition gen_{c.lstrip('_')} : Z := ({consts[c]}).")
    zreq = holes["zreq"]
    if not (isinstance(zreq, ast.Call) and isinstance(zreq.func, ast.Name) and zreq.func.id == "min" and len(zreq.args) == 2 and not zreq.keywords):
        raise TranslationBroken(site, f"zstd read size is not min(<chunk>, <room>): {ast.dump(zreq)[:120]}")
    lines.append(f"Definition gen_eof_check : bool := {'true' if variant['_decompress_body_gzip'] >= 1 else 'false'}.")
    lines.append(f"Definition gen_eof_break : bool := {'true' if variant['_decompress_body_gzip'] == 2 else 'false'}.")
    lines.append("Definition gen_knobs : knobs := {|")
    lines.append("  k_eof := gen_eof_check;")
    lines.append("  k_eof_break := gen_eof_break;")
    lines.append(f"  k_chunk := {zexpr(zreq.args[0], no_vars)};")
    lines.append(f"  k_zstd_level := {default_level(holes['zlevel'], no_vars)};")
    lines.append(f"  k_gzip_level := {default_level(holes['glevel'], no_vars)};")
    lines.append(f"  k_wbits := {wb_d}")
    lines.append("|}.")
    lines.append("Definition gen_params : params := {|")
    lines.append(f"  p_zstd_level := {default_level(holes['zlevel'], no_vars)};")
    lines.append(f"  p_gzip_level := {default_level(holes['glevel'], no_vars)};")
    lines.append(f"  p_gzip_wbits := {wb_d};")
    lines.append(f"  p_sentinels := [{sentinels}];")
    lines.append(f"  p_refuse := fun declared cap => {refuse_expr(holes['refuse'], env)};")
    lines.append(f"  p_zreq := fun cap total => {zexpr(holes['zreq'], env)};")
    lines.append(f"  p_zover := fun cap total => {bexpr(holes['zover'], env)};")
    lines.append(f"  p_greq := fun cap total => {zexpr(holes['greq'], env)};")
    lines.append(f"  p_gover := fun cap total => {bexpr(holes['gover'], env)};")
    lines.append(f"  p_gover_tail := fun cap total => {bexpr(holes['gover_tail'], env)};")
    lines.append("  p_gz_eof_check := gen_eof_check;")
    lines.append("  p_gz_eof_break := gen_eof_break")
    lines.append("|}.")
    return "\n".join(lines) + "\n"
