"""Fail-closed translator for C29: the shm hand-over sites -> coq/gen/G_ShmXfer.v.

Regenerated on every run from the tree under test:
  * ``maybe_write_to_shm`` (vgi_rpc/shm.py): the two inline guards become ``gen_skip_guard``; the rest of the
    body is compared verbatim (``ast.unparse``) with the shape model/M_ShmXfer.v was written from.
  * ``_has_dictionary_columns``, ``resolve_shm_batch``, ``AnnotatedBatch.release``: verbatim shape checks
    (top-level dictionary test; the release function frees exactly the pointer's offset; release calls it).
  * the ownership sites, each accepted in exactly two shapes (as found / repaired) and turned into a flag:
      gen_f_coerce  _serve_stream: is the freshly resolved input released when _coerce_input_batch raises?
      gen_f_sdrain  StreamSession.close()/cancel(): are the batches met while draining released?
      gen_f_udrain  _read_unary_response RpcError arm + _drain_stream: are drained pointer batches released?
    plus the sites the model relies on unconditionally (ordered line checks): request region released in
    ``_read_request``'s ``finally``; previous stream input released when the next one is installed; final input
    released before the output stream closes; unary result released in ``finally``; server sends through
    ``maybe_write_to_shm`` in ``_write_result_batch`` / ``_flush_collector``; client sends inputs through it.
Anything else raises ``TranslationBroken``.
"""
from __future__ import annotations

import ast
from pathlib import Path

from vlib.core import TranslationBroken


def _parse(path: Path) -> ast.Module:
    try:
        return ast.parse(path.read_text())
    except (OSError, SyntaxError) as e:
        raise TranslationBroken(str(path), f"cannot parse: {e}") from e


def _func(mod: ast.AST, name: str, site: str, cls: str | None = None) -> ast.FunctionDef:
    scope: ast.AST = mod
    if cls is not None:
        found = [n for n in ast.walk(mod) if isinstance(n, ast.ClassDef) and n.name == cls]
        if len(found) != 1:
            raise TranslationBroken(site, f"class {cls} not found exactly once")
        scope = found[0]
    fs = [n for n in ast.walk(scope) if isinstance(n, ast.FunctionDef) and n.name == name]
    if len(fs) != 1:
        raise TranslationBroken(site, f"function {name} not found exactly once ({len(fs)})")
    return fs[0]


def _body(fn: ast.FunctionDef) -> list[ast.stmt]:
    b = list(fn.body)
    if b and isinstance(b[0], ast.Expr) and isinstance(b[0].value, ast.Constant) and isinstance(b[0].value.value, str):
        b = b[1:]
    return b


def _text(stmts: list[ast.stmt]) -> str:
    return "\n".join(ast.unparse(s) for s in stmts)


def _lines(fn: ast.AST) -> list[str]:
    return [ln.strip() for ln in ast.unparse(fn).splitlines() if ln.strip()]


def _ordered(fn: ast.AST, required: list[str], site: str) -> None:
    """The required (stripped) lines occur in this order in the unparsed function."""
    lines = _lines(fn)
    pos = 0
    for r in required:
        try:
            pos = lines.index(r, pos) + 1
        except ValueError:
            raise TranslationBroken(site, f"expected line not found (in order): {r!r}") from None


def _count(fn: ast.AST, needle: str) -> int:
    return sum(1 for ln in _lines(fn) if needle in ln)


# ---------------------------------------------------------------------------
_MAYBE_WRITE_REST = """result = shm.allocate_and_write(batch)
if result is None:
    return (batch, custom_metadata)
offset, actual_length = result
pointer_batch, pointer_cm = make_shm_pointer_batch(batch.schema, offset, actual_length)
final_cm = merge_metadata(custom_metadata, pointer_cm)
return (pointer_batch, final_cm)"""

_RESOLVE = """if shm is None or not is_shm_pointer_batch(batch, custom_metadata):
    return (batch, custom_metadata, None)
assert custom_metadata is not None
offset_bytes = custom_metadata.get(SHM_OFFSET_KEY)
length_bytes = custom_metadata.get(SHM_LENGTH_KEY)
assert offset_bytes is not None and length_bytes is not None
offset = int(offset_bytes)
length = int(length_bytes)
buf = shm.read_buffer(offset, length)
resolved_batch = _deserialize_from_shm(buf, batch.schema)
resolved_cm = strip_keys(custom_metadata, SHM_OFFSET_KEY, SHM_LENGTH_KEY)
resolved_cm = merge_metadata(resolved_cm, {SHM_SOURCE_KEY: shm.name.encode()})
def release_fn() -> None:
    shm.free(offset)
return (resolved_batch, resolved_cm, release_fn)"""

_DRAIN_OLD = """while True:
    try:
        reader.read_next_batch()
    except StopIteration:
        return"""
_DRAIN_NEW = """while True:
    try:
        batch, custom_metadata = reader.read_next_batch_with_custom_metadata()
    except StopIteration:
        return
    _, _, release_fn = resolve_shm_batch(batch, custom_metadata, shm)
    if release_fn is not None:
        release_fn()"""

_LOOP_CALL = "_read_batch_with_log_check(self._output_reader, self._on_log, self._external_config, shm=self._shm)"
_LOOP_OLD = _LOOP_CALL
_LOOP_NEW = f"ab = {_LOOP_CALL}\nif ab._release_fn is not None:\n    drained.append(ab)"
_LOOP_TAIL = "for ab in drained:\n    ab.release()"

_COERCE = "input_batch = _coerce_input_batch(input_batch, input_schema)"
_COERCE_HANDLER = "if release_fn is not None:\n    release_fn()\nraise"


def _guard(n: ast.expr, site: str) -> str:
    env = {"batch.num_rows": "rows", "batch.nbytes": "nbytes", "SHM_MIN_BATCH_BYTES": "thresh"}
    if isinstance(n, ast.Compare) and len(n.ops) == 1:
        def atom(e: ast.expr) -> str:
            k = ast.unparse(e)
            if k in env:
                return env[k]
            if isinstance(e, ast.Constant) and type(e.value) is int and e.value >= 0:
                return str(e.value)
            raise TranslationBroken(site, f"unexpected operand {k!r}")

        a, b = atom(n.left), atom(n.comparators[0])
        op = type(n.ops[0])
        table = {ast.Eq: f"({a} =? {b})", ast.Lt: f"({a} <? {b})", ast.LtE: f"({a} <=? {b})", ast.Gt: f"({b} <? {a})", ast.GtE: f"({b} <=? {a})"}
        if op in table:
            return table[op]
    raise TranslationBroken(site, f"unexpected guard {ast.unparse(n)!r}")


def _maybe_write(shm_py: ast.Module) -> str:
    site = "shm.py:maybe_write_to_shm"
    b = _body(_func(shm_py, "maybe_write_to_shm", site))
    if len(b) < 3 or not isinstance(b[0], ast.If) or not isinstance(b[1], ast.If):
        raise TranslationBroken(site, "expected two leading guard statements")
    ret = "return (batch, custom_metadata)"
    for g in (b[0], b[1]):
        if g.orelse or _text(g.body) != ret:
            raise TranslationBroken(site, f"guard does not return the batch unchanged: {ast.unparse(g)!r}")
    t0 = b[0].test
    if not (isinstance(t0, ast.BoolOp) and isinstance(t0.op, ast.Or) and len(t0.values) == 2 and ast.unparse(t0.values[0]) == "shm is None"):
        raise TranslationBroken(site, f"first guard is not `shm is None or ...`: {ast.unparse(t0)!r}")
    g1 = _guard(t0.values[1], site)
    g2 = _guard(b[1].test, site)
    if _text(b[2:]) != _MAYBE_WRITE_REST:
        raise TranslationBroken(site, "body after the guards changed shape")
    return f"Definition gen_skip_guard (rows nbytes thresh : N) : bool := ({g1} || {g2})."


def _verbatim(mod: ast.Module, name: str, expected: str, site: str, cls: str | None = None) -> None:
    if _text(_body(_func(mod, name, site, cls))) != expected:
        raise TranslationBroken(site, "body changed shape")


def _flag_coerce(server_py: ast.Module) -> bool:
    site = "_server.py:_serve_stream"
    fn = _func(server_py, "_serve_stream", site)
    _ordered(
        fn,
        [
            "input_batch, resolved_cm, release_fn = resolve_shm_batch(input_batch, resolved_cm, shm)",
            _COERCE,
            "ab_in = AnnotatedBatch(batch=input_batch, custom_metadata=resolved_cm, _release_fn=release_fn)",
            "if prev_input is not None:",
            "prev_input.release()",
            "prev_input = ab_in",
            "state.process(ab_in, out, process_ctx)",
            "_flush_collector(output_writer, out, self._external_config, shm=shm)",
            "finally:",
            "if prev_input is not None:",
            "prev_input.release()",
            "prev_input = None",
        ],
        site,
    )
    if _count(fn, "resolve_shm_batch(") != 1 or _count(fn, "_coerce_input_batch(") != 1 or _count(fn, "release_fn") not in (2, 4):
        raise TranslationBroken(site, "unexpected number of resolve / coerce / release_fn sites")
    # the output stream's `with` must enclose the try whose finally releases the final input (release before EOS)
    withs = [n for n in ast.walk(fn) if isinstance(n, ast.With) and "new_ipc_stream(transport.writer, output_schema)" in ast.unparse(n.items[0])]
    if len(withs) != 1 or "prev_input.release()" not in ast.unparse(withs[0]):
        raise TranslationBroken(site, "final input is not released inside the output stream's with-block")
    parents: list[ast.AST] = []
    for n in ast.walk(fn):
        for field in ("body", "orelse", "finalbody"):
            for ch in getattr(n, field, []) or []:
                if isinstance(ch, ast.Assign) and ast.unparse(ch) == _COERCE:
                    parents.append(n)
    if len(parents) != 1:
        raise TranslationBroken(site, "coerce statement not found exactly once as a statement")
    p = parents[0]
    if isinstance(p, ast.Try):
        ok = (
            len(p.body) == 1
            and not p.orelse
            and not p.finalbody
            and len(p.handlers) == 1
            and p.handlers[0].type is not None
            and ast.unparse(p.handlers[0].type) == "Exception"
            and p.handlers[0].name is None
            and _text(p.handlers[0].body) == _COERCE_HANDLER
        )
        if not ok:
            raise TranslationBroken(site, "coerce statement is guarded by an unknown try shape")
        return True
    if isinstance(p, ast.While):
        return False
    raise TranslationBroken(site, f"coerce statement sits in an unexpected {type(p).__name__}")


def _flag_sdrain(client_py: ast.Module) -> bool:
    out = []
    for name in ("close", "cancel"):
        site = f"_client.py:StreamSession.{name}"
        fn = _func(client_py, name, site, cls="StreamSession")
        loops = [n for n in ast.walk(fn) if isinstance(n, ast.For) and ast.unparse(n.iter) == "range(_MAX_DRAIN)"]
        if len(loops) != 1 or _count(fn, "_read_batch_with_log_check(") != 1:
            raise TranslationBroken(site, "drain loop not found exactly once")
        body = _text(loops[0].body)
        # the top-level statement holding the loop: `with contextlib.suppress(StopIteration, RpcError, pa.ArrowInvalid,
        # OSError):` or, since the drained-marker fix, `try: <loop> except StopIteration: self._drained = True
        # except (RpcError, pa.ArrowInvalid, OSError): pass` -- both swallow exactly these classes and fall through
        # to the statement after the block, so the release loop placed there runs on each of these exit paths.
        holders = [k for k, st in enumerate(fn.body) if isinstance(st, (ast.With, ast.Try)) and any(n is loops[0] for n in ast.walk(st))]
        if len(holders) != 1:
            raise TranslationBroken(site, "drain loop is not inside one top-level with/try block")
        hold = fn.body[holders[0]]
        if isinstance(hold, ast.With):
            ok_hold = (
                len(hold.items) == 1
                and ast.unparse(hold.items[0]) == "contextlib.suppress(StopIteration, RpcError, pa.ArrowInvalid, OSError)"
                and len(hold.body) == 1
                and hold.body[0] is loops[0]
            )
        else:
            arms = [(ast.unparse(h.type) if h.type is not None else "", h.name, _text(h.body)) for h in hold.handlers]
            ok_hold = (
                len(hold.body) == 1
                and hold.body[0] is loops[0]
                and not hold.orelse
                and not hold.finalbody
                and arms == [("StopIteration", None, "self._drained = True"), ("(RpcError, pa.ArrowInvalid, OSError)", None, "pass")]
            )
        if not ok_hold or loops[0].orelse:
            raise TranslationBroken(site, "the block around the drain loop has an unknown shape")
        after = ast.unparse(fn.body[holders[0] + 1]) if holders[0] + 1 < len(fn.body) else ""
        if body == _LOOP_OLD and "release" not in ast.unparse(fn):
            out.append(False)
        elif body == _LOOP_NEW and after == _LOOP_TAIL and _count(fn, "drained") - _count(fn, "_drained") == 3:
            out.append(True)
        else:
            raise TranslationBroken(site, "drain loop has an unknown shape")
    if out[0] != out[1]:
        raise TranslationBroken("_client.py:StreamSession", "close() and cancel() drain differently")
    return out[0]


def _flag_udrain(wire_py: ast.Module) -> bool:
    site = "_wire.py:_read_unary_response"
    fn = _func(wire_py, "_read_unary_response", site)
    b = _body(fn)
    if len(b) != 2 or not all(isinstance(x, ast.Try) for x in b):
        raise TranslationBroken(site, "expected exactly two try statements")
    t1, t2 = b
    assert isinstance(t1, ast.Try) and isinstance(t2, ast.Try)
    if _text(t1.body) != "batch = _read_batch_with_log_check(reader, on_log, external_config, shm=shm)" or t1.orelse or t1.finalbody:
        raise TranslationBroken(site, "first try changed shape")
    if _text(t2.finalbody) != "batch.release()" or t2.handlers:
        raise TranslationBroken(site, "the result batch is not released in a bare finally")
    arms = [(ast.unparse(h.type) if h.type is not None else "", _text(h.body)) for h in t1.handlers]
    # the arm that drains the rest of the response: `except RpcError` or, since the on_log fix, `except Exception`
    # after a transport-error arm that re-raises without draining
    if len(arms) == 1 and arms[0][0] == "RpcError":
        arm = arms[0][1]
    elif len(arms) == 2 and arms[0] == ("(pa.ArrowInvalid, OSError, EOFError)", "raise") and arms[1][0] == "Exception":
        arm = arms[1][1]
    else:
        raise TranslationBroken(site, f"unknown exception arms {[a for a, _ in arms]}")
    drain = _text(_body(_func(wire_py, "_drain_stream", "_wire.py:_drain_stream")))
    if arm == "_drain_stream(reader)\nraise" and drain == _DRAIN_OLD:
        return False
    if arm == "_drain_stream(reader, shm=shm)\nraise" and drain == _DRAIN_NEW:
        return True
    raise TranslationBroken(site, "draining arm / _drain_stream have an unknown shape")


def _fixed_sites(wire_py: ast.Module, client_py: ast.Module, types_py: ast.Module) -> None:
    # the request body is decoded in _read_request itself or in its helper _decode_request (same statements)
    names = {n.name for n in ast.walk(wire_py) if isinstance(n, ast.FunctionDef)}
    holder = "_decode_request" if "_decode_request" in names else "_read_request"
    site = f"_wire.py:{holder}"
    fn = _func(wire_py, holder, site)
    if holder == "_decode_request":
        outer = _func(wire_py, "_read_request", "_wire.py:_read_request")
        if _count(outer, "_decode_request(batch, custom_metadata, external_config, shm, attach_shm)") < 1:
            raise TranslationBroken("_wire.py:_read_request", "does not hand the request batch and the segment to _decode_request")
    _ordered(
        fn,
        [
            "try:",
            "if request_shm is not None:",
            "batch, _, release_shm = resolve_shm_batch(batch, custom_metadata, request_shm)",
            "kwargs = {f.name: batch.column(i)[0].as_py() for i, f in enumerate(batch.schema)}",
            "finally:",
            "if release_shm is not None:",
            "release_shm()",
        ],
        site,
    )
    site = "_wire.py:_write_result_batch"
    _ordered(_func(wire_py, "_write_result_batch", site), ["if shm is not None:", "batch, cm = maybe_write_to_shm(batch, None, shm)", "if cm is not None:", "writer.write_batch(batch, custom_metadata=cm)", "return 0"], site)
    site = "_wire.py:_flush_collector"
    _ordered(_func(wire_py, "_flush_collector", site), ["if shm is not None:", "for ab in out.batches:", "batch, cm = maybe_write_to_shm(ab.batch, ab.custom_metadata, shm)"], site)
    site = "_wire.py:_read_batch_with_log_check"
    _ordered(
        _func(wire_py, "_read_batch_with_log_check", site),
        [
            "if not _dispatch_log_or_error(batch, custom_metadata, on_log):",
            "resolved_batch, resolved_cm, release_fn = resolve_shm_batch(resolved_batch, resolved_cm, shm)",
            "return AnnotatedBatch(batch=resolved_batch, custom_metadata=resolved_cm, _release_fn=release_fn)",
        ],
        site,
    )
    site = "_client.py:StreamSession._write_batch"
    _ordered(_func(client_py, "_write_batch", site, cls="StreamSession"), ["if self._shm is not None:", "batch_to_write, cm_to_write = maybe_write_to_shm(batch_to_write, cm_to_write, self._shm)"], site)
    _verbatim(types_py, "release", "if self._release_fn is not None:\n    self._release_fn()", "_types.py:AnnotatedBatch.release", cls="AnnotatedBatch")


def generate(repo: Path) -> str:
    shm_py = _parse(repo / "vgi_rpc" / "shm.py")
    wire_py = _parse(repo / "vgi_rpc" / "rpc" / "_wire.py")
    server_py = _parse(repo / "vgi_rpc" / "rpc" / "_server.py")
    client_py = _parse(repo / "vgi_rpc" / "rpc" / "_client.py")
    types_py = _parse(repo / "vgi_rpc" / "rpc" / "_types.py")
    skip = _maybe_write(shm_py)
    _verbatim(shm_py, "_has_dictionary_columns", "return any((pa.types.is_dictionary(f.type) for f in schema))", "shm.py:_has_dictionary_columns")
    _verbatim(shm_py, "resolve_shm_batch", _RESOLVE, "shm.py:resolve_shm_batch")
    _fixed_sites(wire_py, client_py, types_py)
    f1, f2, f3 = _flag_coerce(server_py), _flag_sdrain(client_py), _flag_udrain(wire_py)
    b = lambda x: "true" if x else "false"  # noqa: E731
    return (
        "From Coq Require Import NArith Bool.\nOpen Scope N_scope.\n"
        + skip
        + "\n"
        + f"Definition gen_f_coerce : bool := {b(f1)}.\n"
        + f"Definition gen_f_sdrain : bool := {b(f2)}.\n"
        + f"Definition gen_f_udrain : bool := {b(f3)}.\n"
    )


def flags(repo: Path) -> tuple[bool, bool, bool]:
    """The three source-shape flags (raises TranslationBroken like ``generate``)."""
    return (
        _flag_coerce(_parse(repo / "vgi_rpc" / "rpc" / "_server.py")),
        _flag_sdrain(_parse(repo / "vgi_rpc" / "rpc" / "_client.py")),
        _flag_udrain(_parse(repo / "vgi_rpc" / "rpc" / "_wire.py")),
    )
