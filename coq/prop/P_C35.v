(* C35: sensitive claim values never reach access logs.  Statements only; proofs are in proof/L_Redact.v.
   Vocabulary (model/M_Redact.v): claims are JSON-like trees [jv]; [sensitive k] is
   _DEFAULT_CLAIM_REDACT_RE.search(k) (Python search semantics, IGNORECASE); [redacted] = JStr "[redacted]";
   [emit_claims r c] is what the claims branch of _emit_access_log puts into the record when the installed
   redactor is r and the principal's claims are c; [entry_in k v t]: (k, v) is an entry of an object at any
   depth of t; [walk t p = Some (ks, v)]: the child-index path p leads from t through the object keys ks to v. *)
From Coq Require Import List NArith ZArith Bool.
From VGI Require Import Regex M_Redact L_Redact.
Import ListNotations.
Open Scope N_scope.

(* ---- which names are sensitive ---- *)

(* every listed word (password token secret key authorization email phone address birthdate gender
   given_name family_name middle_name nickname preferred_username picture profile website), spelled in any
   mixture of ASCII cases, makes every key that contains it sensitive *)
Theorem C35_listed_words_sensitive_as_substrings : forall w pre x post,
  In w sub_words -> ascii_case_variant w x -> sensitive (pre ++ x ++ post) = true.
Proof. exact listed_substring_sensitive. Qed.
Print Assumptions C35_listed_words_sensitive_as_substrings.

(* the bare key "name" in any mixture of cases *)
Theorem C35_name_key_sensitive : forall x, ascii_case_variant w_name x -> sensitive x = true.
Proof. exact name_key_sensitive. Qed.
Print Assumptions C35_name_key_sensitive.

(* exact description of the sensitive keys: a listed word somewhere in the key (as IGNORECASE reads it), or
   the whole key is "name" (optionally followed by one line feed, as `$` allows) *)
Theorem C35_sensitive_iff : forall k,
  sensitive k = true <->
  (exists w pre x post, In w sub_words /\ k = pre ++ x ++ post /\ imatch w x) \/
  (exists x, imatch w_name x /\ (k = x \/ k = x ++ [10])).
Proof. exact sensitive_iff. Qed.
Print Assumptions C35_sensitive_iff.

(* ---- no sensitive value at any depth ---- *)

(* whatever claims object the default redactor lets into a record: every entry, of every object at any depth
   (objects in objects, objects in lists, ...), whose key is sensitive holds the placeholder *)
Theorem C35_no_sensitive_value_at_any_depth : forall c c' k v,
  emit_claims default_redactor c = RecordWithClaims c' ->
  entry_in k v (JObj c') -> sensitive k = true -> v = redacted.
Proof. exact thm_no_sensitive_value_at_any_depth. Qed.
Print Assumptions C35_no_sensitive_value_at_any_depth.

(* nothing else gets in: every node of the logged tree sits at the same path, under the same keys, as a node
   of the input, and is either the redaction of that input node, reached through non-sensitive keys only,
   or the placeholder standing directly under the first sensitive key of the path.  In particular no part
   of a value below a sensitive key occurs anywhere in the output. *)
Theorem C35_output_provenance : forall c p ks v',
  walk (JObj (redact_claims c)) p = Some (ks, v') ->
  exists v, walk (JObj c) p = Some (ks, v) /\
    ((nonsens sensitive ks = true /\ v' = redact_value sensitive v) \/
     (exists ks0 k, ks = ks0 ++ [k] /\ nonsens sensitive ks0 = true /\ sensitive k = true /\ v' = redacted)).
Proof. exact thm_output_provenance. Qed.
Print Assumptions C35_output_provenance.

(* ---- keys remain visible ---- *)

(* the top-level keys are exactly the input's, in order (sensitive ones included) *)
Theorem C35_keys_preserved_top : forall c, map fst (redact_claims c) = map fst c.
Proof. exact thm_keys_preserved_top. Qed.
Print Assumptions C35_keys_preserved_top.

(* ... and at every depth: an object of the input that is not below a sensitive key is in the output at the
   same path with exactly the same keys in the same order *)
Theorem C35_keys_preserved_at_any_depth : forall c p ks es,
  walk (JObj c) p = Some (ks, JObj es) -> nonsens sensitive ks = true ->
  exists es', walk (JObj (redact_claims c)) p = Some (ks, JObj es') /\ map fst es' = map fst es /\
              forall i k v, nth_error es i = Some (k, v) -> sensitive k = true -> nth_error es' i = Some (k, redacted).
Proof. exact thm_keys_preserved_at_any_depth. Qed.
Print Assumptions C35_keys_preserved_at_any_depth.

(* ---- non-sensitive values are unchanged ---- *)

(* a value reached through non-sensitive keys only, with no sensitive key inside it, is at the same place,
   unchanged (every scalar is such a value) *)
Theorem C35_non_sensitive_unchanged : forall c p ks v,
  walk (JObj c) p = Some (ks, v) -> nonsens sensitive ks = true -> clean sensitive v = true ->
  walk (JObj (redact_claims c)) p = Some (ks, v).
Proof. exact thm_non_sensitive_unchanged. Qed.
Print Assumptions C35_non_sensitive_unchanged.

(* claims without any sensitive key are logged verbatim *)
Theorem C35_clean_claims_verbatim : forall c, clean sensitive (JObj c) = true -> redact_claims c = c.
Proof. exact thm_clean_claims_verbatim. Qed.
Print Assumptions C35_clean_claims_verbatim.

(* ---- a failing redactor drops the claims ---- *)

(* for ANY installed redactor: if it raises, no claims object reaches the log -- an Exception gives a
   record without claims (apply_claim_redaction returned {}), any other BaseException leaves
   _emit_access_log and no record is written at all *)
Theorem C35_failing_redactor_drops : forall (r : redactor) c,
  (r c = RaisedException -> apply_claim_redaction r c = Some [] /\ emit_claims r c = RecordWithoutClaims) /\
  (r c = RaisedBase -> emit_claims r c = match c with [] => RecordWithoutClaims | _ => NoRecord end) /\
  (forall c', emit_claims r c = RecordWithClaims c' -> r c = Returned c' /\ c <> [] /\ c' <> []).
Proof. exact thm_failing_redactor_drops. Qed.
Print Assumptions C35_failing_redactor_drops.

(* the default redactor never fails on a JSON-like tree and logs the redacted claims *)
Theorem C35_default_emits_redacted : forall c,
  emit_claims default_redactor c = match c with [] => RecordWithoutClaims | _ => RecordWithClaims (redact_claims c) end.
Proof. exact emit_default. Qed.
Print Assumptions C35_default_emits_redacted.

(* ---- non-vacuity ---- *)
Definition s_ctx := [99;116;120].             (* "ctx" *)
Definition s_roles := [114;111;108;101;115].  (* "roles" *)
Definition s_sub := [115;117;98].             (* "sub" *)
Definition s_EMAIL := [69;77;65;73;76].       (* "EMAIL" *)
Definition s_api_Key := [97;112;105;95;75;101;121].   (* "api_Key" *)
Definition s_val := JStr [97;64;98].          (* "a@b" *)
(* {"ctx": {"EMAIL": "a@b", "sub": "a@b"}, "roles": [{"api_Key": "a@b"}, 7], "sub": "a@b"} *)
Definition ex_claims : claims :=
  [(s_ctx, JObj [(s_EMAIL, s_val); (s_sub, s_val)]);
   (s_roles, JList [JObj [(s_api_Key, s_val)]; JNum 7]);
   (s_sub, s_val)].
Example C35_ex_emit :
  emit_claims default_redactor ex_claims =
  RecordWithClaims [(s_ctx, JObj [(s_EMAIL, redacted); (s_sub, s_val)]);
                    (s_roles, JList [JObj [(s_api_Key, redacted)]; JNum 7]);
                    (s_sub, s_val)].
Proof. vm_compute; reflexivity. Qed.
Example C35_ex_entry_in : entry_in s_api_Key redacted (JObj (redact_claims ex_claims)).
Proof.
  vm_compute. eapply EI_obj; [right; left; reflexivity |].
  eapply EI_list; [left; reflexivity |]. apply EI_here. left. reflexivity.
Qed.
Example C35_ex_sensitive : sensitive s_EMAIL = true /\ sensitive s_api_Key = true /\ sensitive s_sub = false
                           /\ sensitive s_ctx = false /\ sensitive s_roles = false.
Proof. vm_compute. repeat split. Qed.
(* "username" and "names" are not sensitive (the bare-name alternative is anchored); "name" + LF is *)
Example C35_ex_name_anchor :
  sensitive [117;115;101;114;110;97;109;101] = false /\ sensitive [110;97;109;101;115] = false /\
  sensitive [78;65;109;101] = true /\ sensitive [110;97;109;101;10] = true.
Proof. vm_compute. repeat split. Qed.
Example C35_ex_walk : walk (JObj ex_claims) [1%nat; 0%nat; 0%nat] = Some ([s_roles; s_api_Key], s_val).
Proof. vm_compute; reflexivity. Qed.
Example C35_ex_walk_out : walk (JObj (redact_claims ex_claims)) [1%nat; 0%nat; 0%nat] = Some ([s_roles; s_api_Key], redacted).
Proof. vm_compute; reflexivity. Qed.
Example C35_ex_case_variant : ascii_case_variant w_email s_EMAIL.
Proof.
  unfold ascii_case_variant, w_email, s_EMAIL.
  repeat (apply Forall2_cons; [right; split; [split; apply N.leb_le; reflexivity | reflexivity] |]).
  apply Forall2_nil.
Qed.
