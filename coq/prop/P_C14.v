(* C14: the call-state cache never changes a request's outcome.  Statements only; proofs are in proof/L_CallCache.v.
   Every theorem is for ALL histories (init / continuation / clock advance / cache clear, with arbitrary presented
   tokens), all capacity lists (any number of workers, capacity 0 included), all token TTLs, all start times, and any
   service (declares / init_fn / turn are universally quantified).
   The unrestricted transparency statement is REFUTED for the unchanged code (refuted/R_C14.v); it is proved here on the
   complement of the class `excluded`: continuations whose cursor token is accepted but whose presented call token a
   cache-less worker refuses (absent, malformed, not sealed for this caller, older than the TTL, of another stream,
   or of a call-state type the addressed method does not declare). *)
From Coq Require Import List NArith Bool.
From VGI Require Import M_CallCache L_CallCache.
Import ListNotations.
Open Scope N_scope.

Section C14.
  Variable declares : N -> N -> bool.
  Variable init_fn : N -> N -> option (N * N * N).
  Variable turn : N -> N -> N -> N -> N -> N * option N.
  Notation run := (run declares init_fn turn).
  Notation step := (step declares init_fn turn).
  Notation outcomes := (outcomes declares init_fn turn).

  (* cache_sound: every entry, in every worker's cache, after every history, is the call that a key holder minted under
     exactly that call id, for a caller whose cache identity is the key's *)
  Theorem C14_cache_sound : forall c t0 h w k exp r,
    In (k, (exp, r)) (cache_of (fst (run c t0 h)) w) ->
    exists ct a, In ct (calls (fst (run c t0 h))) /\ ct_cid ct = fst k /\ r = resolved_of ct
                 /\ snd k = cache_id a /\ ct_aad ct = aad_id a.
  Proof. exact (cache_sound declares init_fn turn). Qed.

  (* a hit never yields call state minted for a different caller identity: whenever caller a's cursor token opens and
     the lookup under (its call id, a's cache identity) hits, the entry is the call minted for a's AAD identity *)
  Theorem C14_hit_same_identity : forall c t0 h w a cu cw r,
    let wd := fst (run c t0 h) in
    open_cursor (ttl c) (clock wd) (curs wd) a (PTok cu) = inr cu ->
    cache_get (cu_cid cu, cache_id a) (clock wd) (cache_of wd w) = (cw, Some r) ->
    rc_for r = aad_id a
    /\ exists ct, In ct (calls wd) /\ ct_cid ct = cu_cid cu /\ ct_aad ct = aad_id a /\ r = resolved_of ct.
  Proof. exact (hit_same_identity declares init_fn turn). Qed.

  (* ... and for NUL-free domains the AAD identity determines the caller (the cache identities of two different callers
     MAY coincide, e.g. anonymous and ("", "anonymous"): the authenticated call id is what keeps them apart) *)
  Theorem C14_hit_same_caller : forall c t0 h w a cu cw r a',
    let wd := fst (run c t0 h) in
    open_cursor (ttl c) (clock wd) (curs wd) a (PTok cu) = inr cu ->
    cache_get (cu_cid cu, cache_id a) (clock wd) (cache_of wd w) = (cw, Some r) ->
    rc_for r = aad_id a' -> dom_nul_free a -> dom_nul_free a' -> a' = a.
  Proof.
    intros c t0 h w a cu cw r a' wd OC G Hfor Ha Ha'.
    destruct (hit_same_identity declares init_fn turn c t0 h w a cu cw r OC G) as [E _].
    apply aad_id_inj; [exact Ha' | exact Ha | congruence].
  Qed.

  Theorem C14_size_le_cap : forall c t0 h w,
    (length (cache_of (fst (run c t0 h)) w) <= N.to_nat (cap_of c w))%nat.
  Proof. exact (size_le_cap declares init_fn turn). Qed.

  (* whatever the request: the worker as it is and the same worker with its cache emptied just before the request
     answer the same, or one of them serves while the other answers a call-token rejection *)
  Theorem C14_divergence_only_served_vs_call_rejection : forall c t0 h r w,
    let wd := fst (run c t0 h) in
    let warm := snd (step c wd r) in
    let cold_o := snd (step c (set_cache wd w []) r) in
    warm = cold_o \/ exists e out nx, In e call_reasons /\
                 ((warm = OServed out nx /\ cold_o = ORejected e) \/ (warm = ORejected e /\ cold_o = OServed out nx)).
  Proof. exact (divergence_vs_emptied declares init_fn turn). Qed.

  (* local transparency, on the complement of `excluded` *)
  Theorem C14_step_transparent_partial : forall c t0 h r w,
    let wd := fst (run c t0 h) in
    excluded declares c wd r = false ->
    snd (step c wd r) = snd (step c (set_cache wd w []) r)
    /\ snd (step c wd r) = snd (step (cold c) (set_cache wd w []) r).
  Proof. exact (step_transparent_partial declares init_fn turn). Qed.

  (* global transparency, on histories without an excluded request: outcomes with caches = outcomes without *)
  Theorem C14_cache_transparent_partial : forall c t0 h,
    admissible declares init_fn turn c t0 h = true -> outcomes c t0 h = outcomes (cold c) t0 h.
  Proof. exact (cache_transparent_partial declares init_fn turn). Qed.

  (* ... and more: ANY two systems with the same TTL (different capacities, different numbers of workers, hence
     differently populated caches) answer such a history identically *)
  Theorem C14_any_two_cache_populations_agree_partial : forall c1 c2 t0 h,
    ttl c1 = ttl c2 -> admissible declares init_fn turn c1 t0 h = true -> outcomes c1 t0 h = outcomes c2 t0 h.
  Proof. exact (any_two_agree declares init_fn turn). Qed.

  (* for sources whose miss path dates the re-created entry from the call token (dated_miss = true; the unchanged source
     has false, see R_C14.C14_transparent_refuted_honest_client_ttl): the honest-client form -- every continuation
     echoes the genuine call token of its stream, of whatever age -- is transparent across the TTL as well *)
  Theorem C14_dated_miss_transparent_for_genuine_call_token : forall c1 c2 t0 h,
    ttl c1 = ttl c2 -> dated_miss c1 = true -> dated_miss c2 = true ->
    all_genuine declares init_fn turn c1 t0 h = true -> outcomes c1 t0 h = outcomes c2 t0 h.
  Proof. exact (dated_cache_transparent declares init_fn turn). Qed.

  (* the reference system is cache-less indeed *)
  Theorem C14_cold_reference_has_no_entries : forall c t0 h w, cache_of (fst (run (cold c) t0 h)) w = [].
  Proof. exact (cold_caches_empty declares init_fn turn). Qed.
End C14.

Print Assumptions C14_cache_sound.
Print Assumptions C14_hit_same_identity.
Print Assumptions C14_hit_same_caller.
Print Assumptions C14_size_le_cap.
Print Assumptions C14_divergence_only_served_vs_call_rejection.
Print Assumptions C14_step_transparent_partial.
Print Assumptions C14_cache_transparent_partial.
Print Assumptions C14_any_two_cache_populations_agree_partial.
Print Assumptions C14_dated_miss_transparent_for_genuine_call_token.
Print Assumptions C14_cold_reference_has_no_entries.

(* ---- non-vacuity ------------------------------------------------------------------------------------------------ *)
Definition A1 : auth := Auth [106; 119; 116] [97].        (* ("jwt", "a") *)
Definition ex_cfg : cfg := Cfg 10 [2; 0] false.
Definition ex_ct : call_tok := CT 0 (aad_id A1) 100 1 7.
Definition ex_cu0 : cur_tok := CU 0 (aad_id A1) 100 3.
Definition ex_cu1 : cur_tok := CU 0 (aad_id A1) 100 4.
(* an honest stream over two workers: init on 0, hit on 0, miss on 1 (capacity 0), clock advance inside the TTL *)
Definition ex_hist : list req :=
  [RInit 0 A1 0 7003; RCont 0 A1 0 (PTok ex_cu0) (PTok ex_ct) 5; RTick 12; RCont 1 A1 0 (PTok ex_cu1) (PTok ex_ct) 6].

Example C14_partial_hypothesis_met : admissible declares_h init_h turn_h ex_cfg 400 ex_hist = true.
Proof. vm_compute. reflexivity. Qed.
Example C14_partial_served :
  outcomes declares_h init_h turn_h ex_cfg 400 ex_hist =
  [OInit ex_ct ex_cu0; OServed 4005007 (Some ex_cu1); ONone; OServed 5006007 (Some (CU 0 (aad_id A1) 103 5))].
Proof. vm_compute. reflexivity. Qed.
(* the entry of the example is in worker 0's cache and is hit *)
Example C14_hit_ex :
  let wd := fst (run declares_h init_h turn_h ex_cfg 400 [RInit 0 A1 0 7003]) in
  open_cursor 10 (clock wd) (curs wd) A1 (PTok ex_cu0) = inr ex_cu0
  /\ snd (cache_get (0, cache_id A1) (clock wd) (cache_of wd 0)) = Some (resolved_of ex_ct)
  /\ length (cache_of wd 0) = 1%nat /\ length (cache_of wd 1) = 0%nat.
Proof. vm_compute. repeat split. Qed.
(* cache identities collide where AAD identities do not *)
Example C14_cache_identity_collision :
  cache_id Anon = cache_id (Auth [] [97; 110; 111; 110; 121; 109; 111; 117; 115]) /\
  aad_id Anon <> aad_id (Auth [] [97; 110; 111; 110; 121; 109; 111; 117; 115]).
Proof. split; [reflexivity | discriminate]. Qed.

(* the honest stream that outlives the TTL (the witness of R_C14) under a source with dated_miss = true *)
Definition ex_cu1' : cur_tok := CU 0 (aad_id A1) 108 4.
Definition ex_hist_ttl : list req :=
  [RInit 0 A1 0 7003; RTick 32; RCont 1 A1 0 (PTok ex_cu0) (PTok ex_ct) 5; RTick 16; RCont 1 A1 0 (PTok ex_cu1') (PTok ex_ct) 5].
Example C14_dated_hypothesis_met : all_genuine declares_h init_h turn_h (Cfg 10 [3; 2] true) 400 ex_hist_ttl = true.
Proof. vm_compute. reflexivity. Qed.
Example C14_dated_rejects_on_both :
  nth 4 (outcomes declares_h init_h turn_h (Cfg 10 [3; 2] true) 400 ex_hist_ttl) ONone = ORejected E_call_expired
  /\ nth 2 (outcomes declares_h init_h turn_h (Cfg 10 [3; 2] true) 400 ex_hist_ttl) ONone = OServed 4005007 (Some ex_cu1').
Proof. vm_compute. split; reflexivity. Qed.
