(* C21: 401 responses follow the unauthorized specification.  Statements only; proofs are in proof/L_Unauthorized.v.
   Quantification: every app configuration [a] (any composition tree: chains of any length, any nesting, require_all with
   and without inner, any declared proxy headers, proxy_auth_headers, proxy_proof_required), every leaf behaviour [e]
   (per leaf: accept | AuthFailure r | other ValueError +/- duck reason | PermissionError +/- duck reason |
   AuthUnavailableError | any other exception), every Accept header, every outcome of json.loads on a 401 body. *)
From Coq Require Import String.
From Coq Require Import List NArith Bool.
From VGI Require Import M_Unauthorized L_Unauthorized.
Import ListNotations.
Open Scope N_scope.

(* "Every authentication rejection is a 401": the response is a 401 exactly when the composed authenticate raised a
   ValueError or a PermissionError (the two classes _AuthMiddleware treats as a rejection). *)
Theorem C21_rejection_is_401 : forall a e acc,
  status (handle a e acc) = 401 <-> exists x, eval e (a_auth a) = ORaise x /\ is_rejection x = true.
Proof. exact rejection_is_401. Qed.
Print Assumptions C21_rejection_is_401.

(* "... whose reason code comes from the closed set, appears in the VGI-Auth-Reason header" *)
Theorem C21_reason_closed_set : forall a e acc, status (handle a e acc) = 401 ->
  exists r, h_reason (handle a e acc) = Some (reason_value r) /\ In (reason_value r) closed_values.
Proof.
  intros a e acc H. apply status_401 in H as (x & _ & _ & Hh). rewrite Hh.
  exists (classify x). split; [reflexivity | apply reason_value_closed].
Qed.
Print Assumptions C21_reason_closed_set.

(* "... and (unless the client asked for HTML) in a JSON envelope with the same reason" -- and the HTML page shows it too *)
Theorem C21_header_body_agree : forall a e acc, status (handle a e acc) = 401 ->
  exists r detail,
    h_reason (handle a e acc) = Some (reason_value r) /\
    (wants_html acc = false ->
       rbody (handle a e acc) = BJson (envelope r detail (app_hint a)) /\
       exists l, envelope r detail (app_hint a) = JObj l /\
                 json_get (s "error") l = Some (JStr (s "unauthorized")) /\
                 json_get (s "reason") l = Some (JStr (reason_value r))) /\
    (wants_html acc = true -> rbody (handle a e acc) = BHtml (reason_value r) (nonempty detail) (nonempty (app_hint a))).
Proof.
  intros a e acc H. apply status_401 in H as (x & _ & _ & Hh). rewrite Hh.
  exists (classify x), (exc_msg x). unfold serialize_401. cbn [h_reason rbody]. split; [reflexivity|]. split; intro Hw; rewrite Hw.
  - split; [reflexivity|]. destruct (envelope_fields (classify x) (exc_msg x) (app_hint a)) as (l & H1 & H2 & H3 & _). eauto.
  - reflexivity.
Qed.
Print Assumptions C21_header_body_agree.

(* "... carries Cache-Control: no-store" *)
Theorem C21_no_store : forall a e acc, status (handle a e acc) = 401 -> h_cache (handle a e acc) = Some (s "no-store").
Proof. intros a e acc H. apply status_401 in H as (x & _ & _ & Hh). rewrite Hh. reflexivity. Qed.
Print Assumptions C21_no_store.

(* "... a proxy note that is identical on every 401 of the service": whatever failed, whatever was asked for *)
Theorem C21_proxy_note_constant_per_app : forall a e1 acc1 e2 acc2,
  status (handle a e1 acc1) = 401 -> status (handle a e2 acc2) = 401 ->
  note_of (handle a e1 acc1) = note_of (handle a e2 acc2).
Proof.
  intros a e1 acc1 e2 acc2 H1 H2.
  apply status_401 in H1 as (x1 & _ & _ & Hh1). apply status_401 in H2 as (x2 & _ & _ & Hh2).
  rewrite Hh1, Hh2, !note_of_serialize. reflexivity.
Qed.
Print Assumptions C21_proxy_note_constant_per_app.

(* "... and present only when its configuration depends on proxy-injected headers" (and then always: spec section 5).
   [depends_on_proxy a]: some header name is stated in proxy_auth_headers, declared by a leaf / gate anywhere in the
   composition, or implied by proxy_proof_required. *)
Theorem C21_proxy_note_iff_proxy_dependent : forall a e acc, status (handle a e acc) = 401 ->
  (depends_on_proxy a -> note_of (handle a e acc) = (Some (s "true"), Some (app_hint a)) /\ app_hint a <> []) /\
  (~ depends_on_proxy a -> note_of (handle a e acc) = (None, None)).
Proof.
  intros a e acc H. apply status_401 in H as (x & _ & _ & Hh). rewrite Hh, note_of_serialize.
  split; intro Hd.
  - apply app_hint_nonempty_iff in Hd. destruct (app_hint a) as [|c t]; [congruence|]. split; [reflexivity | discriminate].
  - destruct (app_hint a) as [|c t] eqn:E; [reflexivity|]. exfalso. apply Hd. apply app_hint_nonempty_iff. rewrite E. discriminate.
Qed.
Print Assumptions C21_proxy_note_iff_proxy_dependent.

(* chain / require_all carry exactly the declarations of their members (spec 5.1) *)
Theorem C21_declarations_propagate : forall c h, In h (headers_of c) <-> declared_in c h.
Proof. exact headers_of_declared. Qed.
Print Assumptions C21_declarations_propagate.

(* "Chains report missing_credential only when every alternative saw none".
   [saw_none e l]: the link raised AuthFailure(missing_credential) -- for a nested chain: it is non-empty and every one of
   its links did; for require_all: the gate did, or the gate passed and the inner credential did.
   Side condition (see props/C21.py, readings): no leaf raises a PermissionError that itself declares missing_credential. *)
Theorem C21_missing_only_if_all_missing : forall a e acc ls, a_auth a = CChain ls ->
  (forall id m, e id <> ORaise (XPerm (Some Missing) m)) ->
  status (handle a e acc) = 401 -> h_reason (handle a e acc) = Some (reason_value Missing) ->
  ls <> [] /\ Forall (saw_none e) ls.
Proof. exact chain_401_missing_all. Qed.
Print Assumptions C21_missing_only_if_all_missing.

(* without the side condition: the only other way is a link that short-circuits the chain with such a PermissionError *)
Theorem C21_missing_general : forall a e acc ls, a_auth a = CChain ls ->
  status (handle a e acc) = 401 -> h_reason (handle a e acc) = Some (reason_value Missing) ->
  (ls <> [] /\ Forall (saw_none e) ls) \/
  (exists pre l post m, ls = pre ++ l :: post /\ eval e l = ORaise (XPerm (Some Missing) m) /\
      Forall (fun p => exists x cm, eval e p = ORaise x /\ value_error_code x = Some cm) pre).
Proof. exact chain_401_missing. Qed.
Print Assumptions C21_missing_general.

(* "an authenticator outage yields 503 rather than 401": any consulted leaf / gate that is unavailable *)
Theorem C21_unavailable_503 : forall a e acc id, In id (consulted e (a_auth a)) -> is_unavail (e id) ->
  exists ra, handle a e acc = mkResp 503 None None None (Some ra) BNone.
Proof.
  intros a e acc id Hin Hu. destruct (consulted_unavail e (a_auth a) id Hin Hu) as (ra & m & He).
  exists ra. unfold handle. rewrite He. reflexivity.
Qed.
Print Assumptions C21_unavailable_503.

Theorem C21_401_never_hides_outage : forall a e acc, status (handle a e acc) = 401 ->
  forall id, In id (consulted e (a_auth a)) -> ~ is_unavail (e id).
Proof.
  intros a e acc H id Hin Hu. destruct (C21_unavailable_503 a e acc id Hin Hu) as (ra & Hh). rewrite Hh in H. discriminate H.
Qed.
Print Assumptions C21_401_never_hides_outage.

(* "the client turns any 401 body into an authentication error with a closed-set reason": whatever json.loads does with
   the body (a value of any shape, a ValueError, a RecursionError) and whatever the text is.  KOther (an exception
   json.loads is assumed never to raise, e.g. MemoryError) is excluded. *)
Theorem C21_client_parse_total_closed : forall lo text, lo <> LExc KOther ->
  exists r d h, parse_unauthorized lo text = CAuthErr r d h /\ In (reason_value r) closed_values.
Proof.
  intros lo text H. apply parse_total_closed. intros k ->. destruct k; [reflexivity | reflexivity | congruence].
Qed.
Print Assumptions C21_client_parse_total_closed.

(* the reason the client reports is the envelope's when that is a code of the closed set, and unauthorized otherwise *)
Theorem C21_client_unknown_reason_is_unauthorized : forall l text,
  exists d h, parse_unauthorized (LVal (JObj l)) text =
    CAuthErr (match reason_of_value (get_str (s "reason") l) with Some r => r | None => Unauthorized end) d h /\
    (forall r, reason_of_value (get_str (s "reason") l) = Some r <-> get_str (s "reason") l = reason_value r).
Proof. intros l text. do 2 eexists. split; [reflexivity | intro r; apply reason_of_value_Some]. Qed.
Print Assumptions C21_client_unknown_reason_is_unauthorized.

(* end to end: on a non-HTML request the client recovers exactly the reason of the VGI-Auth-Reason header and the note *)
Theorem C21_client_inverts_server_envelope : forall a e acc text, status (handle a e acc) = 401 -> wants_html acc = false ->
  exists r detail j,
    h_reason (handle a e acc) = Some (reason_value r) /\ rbody (handle a e acc) = BJson j /\
    parse_unauthorized (LVal j) text = CAuthErr r detail (app_hint a).
Proof.
  intros a e acc text H Hw. destruct (C21_header_body_agree a e acc H) as (r & d & H1 & H2 & _).
  destruct (H2 Hw) as [Hb _]. exists r, d, (envelope r d (app_hint a)). repeat split; auto. apply parse_envelope.
Qed.
Print Assumptions C21_client_inverts_server_envelope.

(* ---- non-vacuity ---- *)
Definition ex_env : env := env_of [(1, ORaise (XAuthFailure Missing (s "Missing Authorization header")));
                                   (2, ORaise (XAuthFailure Missing (s "no cookie")))].
Definition ex_app : app := mkApp (CChain [CLeaf 1 []; CLeaf 2 [s "x-forwarded-client-cert"]]) [] false.
Example C21_ex_401 : status (handle ex_app ex_env None) = 401 /\ h_reason (handle ex_app ex_env None) = Some (reason_value Missing).
Proof. vm_compute. split; reflexivity. Qed.
Example C21_ex_depends : depends_on_proxy ex_app.
Proof. exists (s "x-forwarded-client-cert"). right. left. simpl. right. left. left. reflexivity. Qed.
Example C21_ex_no_perm_missing : forall id m, ex_env id <> ORaise (XPerm (Some Missing) m).
Proof.
  intros id m H. unfold ex_env in H. cbn [env_of] in H. destruct (1 =? id); [discriminate H|]. destruct (2 =? id); discriminate H.
Qed.
(* second link saw a credential: the chain reports that link's code, not missing_credential *)
Example C21_ex_first_substantive :
  h_reason (handle ex_app (env_of [(1, ORaise (XAuthFailure Missing [])); (2, ORaise (XAuthFailure Expired (s "exp")))]) None)
  = Some (reason_value Expired).
Proof. vm_compute. reflexivity. Qed.
(* an outage behind a missing credential is a 503 *)
Example C21_ex_503 :
  status (handle ex_app (env_of [(1, ORaise (XAuthFailure Missing [])); (2, ORaise (XUnavail (s "5") (s "down")))]) None) = 503.
Proof. vm_compute. reflexivity. Qed.
Example C21_ex_client_unknown : parse_unauthorized (LVal (JObj [(s "reason", JStr (s "brand_new_code"))])) [] = CAuthErr Unauthorized [] [].
Proof. vm_compute. reflexivity. Qed.
Example C21_ex_client_deep : exists d, parse_unauthorized (LExc KRecursionError) (s "[[[[") = CAuthErr Unauthorized d [].
Proof. eexists. vm_compute. reflexivity. Qed.
