(* C19: response content-encoding negotiation.  Statements only; every proof is in proof/L_Negotiate.v.

   Vocabulary (model/M_Negotiate.v):
     std, cus             value of Accept-Encoding / X-VGI-Accept-Encoding (None = absent), any string
     entries h            the coding names the header lists: split on ',', parameters after ';' dropped, trimmed,
                          ASCII case folded -- duplicates, unknown names and empty items kept, textual order
     client_order std cus = entries cus ++ entries std        (the VGI header takes precedence)
     producible cfg n     n = "identity", or n names a codec of the server's encode set (cfg filtered by the runtime)
     pick cfg std cus     what _pick_response_encoding returns: (chosen coding, use the X-VGI response header)
     respond cfg std cus r  (announcing header, body) for a response r built by a handler *)
From Coq Require Import List NArith Bool.
From VGI Require Import M_Negotiate L_Negotiate.
Import ListNotations.
Open Scope N_scope.

(* the response coding is the FIRST entry of the client's preference order that the server can produce
   (every earlier entry is not producible), VGI header first; all header strings, all encode sets *)
Theorem C19_first_producible_in_client_order_vgi_first : forall cfg std cus e,
  fst (pick cfg std cus) = Some e <->
  exists pre post, client_order std cus = pre ++ enc_value e :: post /\
                   forallb (fun n => negb (producible cfg n)) pre = true /\
                   mem e (levels_of cfg) = true.
Proof. exact first_producible. Qed.
Print Assumptions C19_first_producible_in_client_order_vgi_first.

(* no coding exactly when nothing the client lists is producible, or the first producible entry is identity *)
Theorem C19_identity_first_or_no_overlap_none : forall cfg std cus,
  fst (pick cfg std cus) = None <->
  (forall n, In n (client_order std cus) -> producible cfg n = false) \/
  (exists pre post, client_order std cus = pre ++ identity_name :: post /\
                    forallb (fun n => negb (producible cfg n)) pre = true).
Proof. exact none_iff. Qed.
Print Assumptions C19_identity_first_or_no_overlap_none.

(* the same as one equation *)
Theorem C19_choice_is_find : forall cfg std cus,
  fst (pick cfg std cus) =
  match find (producible cfg) (client_order std cus) with Some n => coding_of_name n | None => None end.
Proof. exact choice_is_find. Qed.
Print Assumptions C19_choice_is_find.

(* precedence: once the VGI header holds a producible entry, Accept-Encoding has no influence *)
Theorem C19_vgi_header_precedence : forall cfg std std' cus n,
  find (producible cfg) (entries cus) = Some n ->
  fst (pick cfg std cus) = coding_of_name n /\ fst (pick cfg std cus) = fst (pick cfg std' cus).
Proof. intros cfg std std' cus n H. split; [exact (vgi_precedence _ _ _ _ H) | exact (vgi_precedence_indep _ _ _ _ _ H)]. Qed.
Print Assumptions C19_vgi_header_precedence.

(* announced on the header matching how it was negotiated (DESIGN Appendix E): whatever the response kind, an
   announced coding is the chosen one and the client offered it through the corresponding request header *)
Theorem C19_header_matches_negotiation : forall cfg std cus r,
  match fst (respond cfg std cus r) with
  | NoHeader => True
  | ContentEncoding e => fst (pick cfg std cus) = Some e /\ In (enc_value e) (entries std)
  | XVgiContentEncoding e =>
      fst (pick cfg std cus) = Some e /\ In (enc_value e) (entries cus) /\ ~ In (enc_value e) (entries std)
  end.
Proof. exact header_matches. Qed.
Print Assumptions C19_header_matches_negotiation.

(* unary and producer responses (Arrow content type, non-empty stream body): the chosen coding IS applied, on exactly
   one header -- Content-Encoding iff the coding was offered in Accept-Encoding, else X-VGI-Content-Encoding --
   by the producer itself when the turn owns the body (pre-compressed path), by the middleware otherwise *)
Theorem C19_response_coding_applied : forall cfg std cus r,
  r_arrow r = true -> r_iobase r = true -> r_plain r <> [] ->
  respond cfg std cus r =
  match fst (pick cfg std cus) with
  | None => (NoHeader, Plain (r_plain r))
  | Some e => (if existsb (str_eqb (enc_value e)) (entries std) then ContentEncoding e else XVgiContentEncoding e,
               if r_owns r then ByProducer e (r_plain r) else ByMiddleware e (r_plain r))
  end.
Proof. exact respond_applied. Qed.
Print Assumptions C19_response_coding_applied.

(* the decoded body is the plain body in every case, given that the client's decoder inverts the two compressors
   (zstd/gzip round trip: C18) and that a producer turn answers with the Arrow content type *)
Theorem C19_decoded_body_same :
  forall (comp_mw comp_arrow decomp : enc -> list N -> list N),
  (forall e b, e <> Identity -> decomp e (comp_mw e b) = b) ->
  (forall e b, e <> Identity -> decomp e (comp_arrow e b) = b) ->
  forall cfg std cus r,
  (r_owns r = true -> r_arrow r = true) ->
  client_sees comp_mw comp_arrow decomp (respond cfg std cus r) = r_plain r.
Proof. exact decoded_body_same. Qed.
Print Assumptions C19_decoded_body_same.

(* parse_encoding_list = the known names among the entries, first occurrences, in order *)
Theorem C19_parse_is_entries : forall h,
  parse_encoding_list (hdr h) = add_new [] (known_names (entries h)).
Proof. exact parse_is_entries. Qed.
Print Assumptions C19_parse_is_entries.

(* ---- non-vacuity ---- *)
Definition ex_std : option (list N) :=   (* "deflate, gzip, br, zstd" *)
  Some [100;101;102;108;97;116;101;44;32;103;122;105;112;44;32;98;114;44;32;122;115;116;100].
Definition ex_cus : option (list N) :=   (* "ZSTD;q=0.5 , gzip" *)
  Some [90;83;84;68;59;113;61;48;46;53;32;44;32;103;122;105;112].
Example C19_ex_entries : client_order ex_std ex_cus =
  [enc_value Zstd; enc_value Gzip; [100;101;102;108;97;116;101]; enc_value Gzip; [98;114]; enc_value Zstd].
Proof. vm_compute; reflexivity. Qed.
(* the cpp-httplib case: gzip-first Accept-Encoding does not win over the VGI header *)
Example C19_ex_vgi_first : pick [Zstd; Gzip] ex_std ex_cus = (Some Zstd, false).
Proof. vm_compute; reflexivity. Qed.
(* a gzip-only server skips the unproducible first entry *)
Example C19_ex_skip : pick [Gzip] ex_std ex_cus = (Some Gzip, false).
Proof. vm_compute; reflexivity. Qed.
(* only in the VGI header -> X-VGI-Content-Encoding *)
Example C19_ex_custom_only : respond [Zstd; Gzip] None ex_cus {| r_arrow := true; r_owns := true; r_iobase := true; r_plain := [1] |}
  = (XVgiContentEncoding Zstd, ByProducer Zstd [1]).
Proof. vm_compute; reflexivity. Qed.
(* "identity, gzip": identity first -> no coding; nothing overlapping -> no coding *)
Example C19_ex_identity_first :
  pick [Zstd; Gzip] (Some [105;100;101;110;116;105;116;121;44;32;103;122;105;112]) None = (None, false).
Proof. vm_compute; reflexivity. Qed.
Example C19_ex_no_overlap : fst (pick [Gzip] (Some [98;114;44;122;115;116;100]) None) = None.
Proof. vm_compute; reflexivity. Qed.
Example C19_ex_hyp_first : exists pre post, client_order ex_std ex_cus = pre ++ enc_value Gzip :: post /\
  forallb (fun n => negb (producible [Gzip] n)) pre = true /\ mem Gzip (levels_of [Gzip]) = true.
Proof. exists [enc_value Zstd], [[100;101;102;108;97;116;101]; enc_value Gzip; [98;114]; enc_value Zstd]. vm_compute. auto. Qed.
