(* C43: XFCC identity extraction is injection-proof.  Statements only; every proof is in
   proof/L_XfccSplit.v and proof/L_Xfcc.v.  Strings are lists of code points; 34 is the double quote,
   44 the comma, 59 the semicolon, 92 the backslash. *)
From Coq Require Import List NArith Bool.
From VGI Require Import M_Xfcc L_XfccSplit L_Xfcc.
Import ListNotations.
Open Scope N_scope.

(* ---- grammar: parse (print es) is the meaning of es ---------------------------------------------
   es ranges over ALL element lists of the grammar: an element is a non-empty list of items, an item a
   key token (any spelling and case, known or unknown), and either a quoted value with arbitrary content
   (commas, semicolons, equal signs, quotes, backslashes, percent sequences, white space, anything) or
   a bare value without comma, semicolon and quote.  unq is whatever decoder is applied to Cert/URI/By:
   the split never depends on it. *)
Theorem C43_print_parse : forall unq es,
  Forall (fun its => wf_elem its = true) es ->
  parse_xfcc_with unq (print_xfcc es) = map (sem_elem unq) es.
Proof. exact print_parse. Qed.
Print Assumptions C43_print_parse.

(* record level: printing parsed elements canonically (all values quoted, Cert/URI/By through an
   encoder that the decoder inverts) and parsing again gives the same elements back, none split, none merged *)
Theorem C43_print_parse_records : forall unq enc es,
  Forall (fun e => elem_nonempty e = true /\ enc_ok unq enc e) es ->
  parse_xfcc_with unq (print_xfcc (map (items_of_elem enc) es)) = es.
Proof. exact print_parse_records. Qed.
Print Assumptions C43_print_parse_records.

(* the modelled urllib unquote inverts full percent-encoding of ASCII text, so URL-encoded commas,
   quotes and semicolons come back as characters of the value *)
Theorem C43_unquote_roundtrip_ascii : forall v, is_ascii v = true -> unquote (pct_all v) = v.
Proof. exact unquote_pct_all. Qed.
Print Assumptions C43_unquote_roundtrip_ascii.

Theorem C43_print_parse_concrete : forall es,
  Forall (fun e => elem_nonempty e = true /\ elem_url_ascii e = true) es ->
  parse_xfcc (print_xfcc (map (items_of_elem pct_all) es)) = es.
Proof. exact print_parse_concrete. Qed.
Print Assumptions C43_print_parse_concrete.

(* ---- ALL strings: the splitter ------------------------------------------------------------------ *)
(* nothing is lost or invented: the parts joined by the delimiter are the text *)
Theorem C43_split_lossless : forall d s, join d (split_rq d s) = s.
Proof. exact split_rq_lossless. Qed.
Print Assumptions C43_split_lossless.

(* never splits inside quotes: every part before a cut ends outside quotes; and no part contains a
   further delimiter outside quotes (parts are maximal) *)
Theorem C43_split_only_outside_quotes : forall d s,
  Forall (fun p => closed p = true) (removelast (split_rq d s)) /\
  Forall (fun p => split_rq d p = [p]) (split_rq d s).
Proof. intros d s. split; [apply split_rq_parts_closed | apply split_rq_parts_nosplit]. Qed.
Print Assumptions C43_split_only_outside_quotes.

(* ... and that decomposition is the only one *)
Theorem C43_split_unique : forall d ps, d <> 34 -> ps <> [] ->
  Forall (fun p => closed p = true) (removelast ps) -> Forall (fun p => split_rq d p = [p]) ps ->
  split_rq d (join d ps) = ps.
Proof. exact split_rq_unique. Qed.
Print Assumptions C43_split_unique.

(* a quoted value, whatever it contains, is closed and stays one part between two delimiters *)
Theorem C43_quoted_value_never_splits : forall d v,
  closed (quote_str v) = true /\
  forall a b, d <> 34 -> closed a = true ->
    split_rq d (a ++ d :: quote_str v ++ d :: b) = split_rq d a ++ [quote_str v] ++ split_rq d b.
Proof.
  intros d v. split; [apply (quoted_atom d v) | intros a b Hd Ha; apply quoted_between_delims; assumption].
Qed.
Print Assumptions C43_quoted_value_never_splits.

(* never merges: a delimiter after a closed text always separates, whatever follows *)
Theorem C43_no_merge_after_closed : forall d a b, d <> 34 -> closed a = true ->
  split_rq d (a ++ d :: b) = split_rq d a ++ split_rq d b.
Proof. exact split_rq_cut. Qed.
Print Assumptions C43_no_merge_after_closed.

Theorem C43_parse_compositional : forall unq a b, closed a = true ->
  parse_xfcc_with unq (a ++ 44 :: b) = parse_xfcc_with unq a ++ parse_xfcc_with unq b.
Proof. exact parse_compositional. Qed.
Print Assumptions C43_parse_compositional.

(* ---- ALL strings: the identity comes from the selected element only ------------------------------ *)
(* the identity is the default identity of the first / last non-blank raw element, each raw element
   being parsed on its own *)
Theorem C43_selected_only : forall unq g first h, is_missing g (Some h) = false ->
  authenticate_with unq g first (Some h) =
  match select_elem first
          (flat_map (fun raw => match strip raw with [] => [] | s => [parse_elem unq s] end) (split_rq 44 h)) with
  | None => inl InvalidCredential
  | Some e => inr (default_identity e)
  end.
Proof. exact selected_only. Qed.
Print Assumptions C43_selected_only.

(* select_element = first: nothing after the first element's comma matters, b is ANY string *)
Theorem C43_first_ignores_suffix : forall unq g a b, closed a = true -> parse_xfcc_with unq a <> [] ->
  authenticate_with unq g true (Some (a ++ 44 :: b)) = authenticate_with unq g true (Some a).
Proof. exact first_ignores_suffix. Qed.
Print Assumptions C43_first_ignores_suffix.

(* select_element = last: nothing before the last comma matters, provided the text before it is closed
   (an unterminated quote reaches to the end of the header: see the Example below) *)
Theorem C43_last_ignores_prefix : forall unq g a b, closed a = true -> parse_xfcc_with unq b <> [] ->
  authenticate_with unq g false (Some (a ++ 44 :: b)) = authenticate_with unq g false (Some b).
Proof. exact last_ignores_prefix. Qed.
Print Assumptions C43_last_ignores_prefix.

(* ---- reasons -------------------------------------------------------------------------------------- *)
(* with the guard `header_value is None`: absent -> proxy_required; present without element (the
   zero-length value included) -> invalid_credential *)
Theorem C43_reasons : forall unq first,
  authenticate_with unq GuardIsNone first None = inl ProxyRequired /\
  authenticate_with unq GuardIsNone first (Some []) = inl InvalidCredential /\
  forall h, parse_xfcc_with unq h = [] -> authenticate_with unq GuardIsNone first (Some h) = inl InvalidCredential.
Proof.
  intros unq first. destruct (reasons_any_guard unq GuardIsNone first) as [H1 H2]. split; [exact H1|]. split.
  - apply H2; [discriminate | reflexivity].
  - intros h Hp. apply H2; [discriminate | exact Hp].
Qed.
Print Assumptions C43_reasons.

(* with the guard `not header_value` (complement of the zero-length value) *)
Theorem C43_reasons_partial : forall unq first,
  authenticate_with unq GuardFalsy first None = inl ProxyRequired /\
  forall h, h <> [] -> parse_xfcc_with unq h = [] -> authenticate_with unq GuardFalsy first (Some h) = inl InvalidCredential.
Proof.
  intros unq first. destruct (reasons_any_guard unq GuardFalsy first) as [H1 H2]. split; [exact H1|].
  intros h Hh Hp. apply H2; [intros _; exact Hh | exact Hp].
Qed.
Print Assumptions C43_reasons_partial.

(* a header is accepted iff it has an element, and it has none iff every comma-part is blank *)
Theorem C43_success_iff_element : forall unq g first h,
  ((exists i, authenticate_with unq g first (Some h) = inr i) <-> parse_xfcc_with unq h <> []) /\
  (parse_xfcc_with unq h = [] <-> Forall (fun raw => strip raw = []) (split_rq 44 h)).
Proof. intros unq g first h. split; [apply success_iff_element | apply parse_nil_iff_blank]. Qed.
Print Assumptions C43_success_iff_element.

(* ---- non-vacuity ---------------------------------------------------------------------------------- *)
(* the reason codes are the strings of the statement: proxy_required, invalid_credential *)
Example C43_reason_strings :
  reason_str ProxyRequired = [112; 114; 111; 120; 121; 95; 114; 101; 113; 117; 105; 114; 101; 100] /\
  reason_str InvalidCredential = [105; 110; 118; 97; 108; 105; 100; 95; 99; 114; 101; 100; 101; 110; 116; 105; 97; 108].
Proof. split; reflexivity. Qed.

(* Subject='CN=a,b;c=\'d\\' ; the value  CN=a,b;c='d\  holds a comma, a semicolon, a quote and a backslash *)
Definition ex_value : str := [67; 78; 61; 97; 44; 98; 59; 99; 61; 34; 100; 92].
Definition ex_item : item := mkItem K_Subject true ex_value.
Example C43_ex_wf : wf_elem [ex_item; mkItem K_Hash false [97; 98]] = true.
Proof. reflexivity. Qed.
Example C43_ex_print : print_xfcc [[ex_item; mkItem K_Hash false [97; 98]]; [mkItem K_Subject true [67; 78; 61; 112]]] =
  [83;117;98;106;101;99;116;61;34;67;78;61;97;44;98;59;99;61;92;34;100;92;92;34;59;72;97;115;104;61;97;98;44;
   83;117;98;106;101;99;116;61;34;67;78;61;112;34].
Proof. reflexivity. Qed.
Example C43_ex_parse :
  parse_xfcc (print_xfcc [[ex_item; mkItem K_Hash false [97; 98]]; [mkItem K_Subject true [67; 78; 61; 112]]]) =
  [mkElem (Some [97; 98]) None (Some ex_value) None [] None; mkElem None None (Some [67; 78; 61; 112]) None [] None].
Proof. vm_compute; reflexivity. Qed.
(* first -> principal 'a' (the DN splitter stops at the first unescaped comma), last -> principal 'p' *)
Example C43_ex_first :
  authenticate GuardFalsy true (Some (print_xfcc [[ex_item]; [mkItem K_Subject true [67; 78; 61; 112]]])) =
  inr (mkId [97] None (Some ex_value) None [] None).
Proof. vm_compute; reflexivity. Qed.
Example C43_ex_last :
  authenticate GuardFalsy false (Some (print_xfcc [[ex_item]; [mkItem K_Subject true [67; 78; 61; 112]]])) =
  inr (mkId [112] None (Some [67; 78; 61; 112]) None [] None).
Proof. vm_compute; reflexivity. Qed.
(* closed / not closed *)
Example C43_ex_closed : closed (quote_str ex_value) = true /\ closed [34; 97; 44] = false.
Proof. split; reflexivity. Qed.
(* the premise `closed a` of C43_last_ignores_prefix is needed: after  Subject='CN=evil  the comma and the
   proxy's element  Subject='CN=proxy'  are swallowed by the unterminated quote *)
Example C43_ex_open_prefix_swallows :
  let a := [83;117;98;106;101;99;116;61;34;67;78;61;101;118;105;108] in
  let b := [83;117;98;106;101;99;116;61;34;67;78;61;112;114;111;120;121;34] in
  closed a = false /\
  (match authenticate GuardFalsy false (Some (a ++ 44 :: b)) with inr i => i_principal i | inl _ => [] end) = [101;118;105;108] /\
  (match authenticate GuardFalsy false (Some b) with inr i => i_principal i | inl _ => [] end) = [112;114;111;120;121].
Proof. vm_compute. repeat split; reflexivity. Qed.
(* blank headers *)
Example C43_ex_blank : parse_xfcc [32; 44; 9; 44] = [] /\ authenticate GuardFalsy true (Some [32; 44; 9; 44]) = inl InvalidCredential.
Proof. vm_compute. split; reflexivity. Qed.
(* URL-encoded comma and quote inside URI do not split: URI=a%2Cb%22 , then a second element *)
Example C43_ex_url : parse_xfcc [85;82;73;61;97;37;50;67;98;37;50;50;44;72;97;115;104;61;120] =
  [mkElem None None None (Some [97; 44; 98; 34]) [] None; mkElem (Some [120]) None None None [] None].
Proof. vm_compute; reflexivity. Qed.
