(* C25: sticky sessions are isolated by worker and identity.  Statements only; proofs are in proof/L_StickyTok.v
   (layouts, AAD), proof/L_StickyTokServe.v (resolution path over an ideal AEAD) and proof/L_StickyTokHist.v (codec,
   histories).

   How the cryptography enters: the AEAD and Python's utf-8 decoder are universally quantified functions.  [minted] is
   the log of the session tokens the workers [ws] sealed; [token_unforged key aad hdr] says of the ciphertext in the
   presented header: if it opens under this worker's key and this caller's AAD, then a worker holding that key sealed
   exactly it, as a session token, under exactly that AAD (ciphertext integrity as an inversion principle; the envelope
   version byte is not authenticated and stream-state tokens share key and AAD, so "as a session token" is part of the
   premise).  [no_alias] / [codec_ok] are the two facts about server ids the source's comparison needs; they are
   characterised in C25_own_token_accepted_iff_codec_roundtrips.

   [genuine k i hdr sid reg now] is the property's condition: hdr decodes to the envelope of a token minted by worker k
   for identity i whose session sid is still registered (for i) and unexpired in k's registry. *)
From Coq Require Import List NArith ZArith Bool.
From VGI Require Import Bytes Layout M_StickyTok L_StickyTok L_StickyTokServe L_StickyTokHist.
From VGI Require L_Base64Url.
Import ListNotations.
Open Scope N_scope.

(* ---- identity binding: the AAD determines (domain, principal) / anonymous; side condition: NUL-free domain ---- *)
Theorem C25_aad_injective : forall i1 i2, ident_ok i1 -> ident_ok i2 -> compute_aad i1 = compute_aad i2 -> i1 = i2.
Proof. exact aad_injective. Qed.
Print Assumptions C25_aad_injective.

(* ---- the plaintext parser accepts exactly the packings of the layout, and reads back what was packed ---- *)
Theorem C25_plaintext_exact : forall pl sb sid e,
  bytes_ok pl = true ->
  (parse_plain pl = Some (sb, sid, e) <-> exists c, wf_plain c sb sid e /\ pl = session_plain c sb sid e).
Proof.
  intros pl sb sid e Hok. split.
  - apply parse_plain_inv. exact Hok.
  - intros [c [[_ [_ [_ [Hs [_ He]]]]] Hpl]]. subst pl. apply parse_session_plain; assumption.
Qed.
Print Assumptions C25_plaintext_exact.

(* ---- access is granted  <->  same worker /\ same identity /\ session live ---- *)
Theorem C25_access_iff_same_worker_identity_live :
  forall aead_seal aead_open utf8_replace codec (ws : list worker) (minted : mint -> Prop) k w reg now i hdr sid,
  premises aead_seal aead_open utf8_replace codec ws minted k w i hdr ->
  aead_correct aead_seal aead_open -> codec_ok utf8_replace codec w ->
  ((exists reg', resolve aead_open utf8_replace codec w reg now i (Some hdr) = (RResume sid, reg'))
   <-> genuine aead_seal ws minted k i hdr sid reg now).
Proof. exact access_iff. Qed.
Print Assumptions C25_access_iff_same_worker_identity_live.

(* ---- every other (non-empty) presentation: session_lost, the method is not dispatched, no session is bound or
        closed, DELETE answers the constant 200, and every session that was live stays live ---- *)
Theorem C25_other_presentations_session_lost_no_dispatch :
  forall aead_seal aead_open utf8_replace codec (ws : list worker) (minted : mint -> Prop) k w reg now i c t closes,
  premises aead_seal aead_open utf8_replace codec ws minted k w i (c :: t) ->
  (forall sid, ~ genuine aead_seal ws minted k i (c :: t) sid reg now) ->
  exists l reg',
    call aead_open utf8_replace codec w reg now i (Some (c :: t)) closes
      = ({| co_lost := Some l; co_dispatched := false; co_session := None; co_close_hdr := false |}, reg') /\
    delete aead_open utf8_replace codec w reg now i (Some (c :: t)) = (resp_200, reg') /\
    (forall sid' pk', live reg sid' pk' now -> live reg' sid' pk' now).
Proof. exact other_presentations_lost. Qed.
Print Assumptions C25_other_presentations_session_lost_no_dispatch.

(* ---- DELETE answers 204 <-> live session owned by the caller on this worker; and then it closed exactly it ---- *)
Theorem C25_delete_204_iff_live_owned :
  forall aead_seal aead_open utf8_replace codec (ws : list worker) (minted : mint -> Prop) k w reg now i hdr,
  premises aead_seal aead_open utf8_replace codec ws minted k w i hdr ->
  aead_correct aead_seal aead_open -> codec_ok utf8_replace codec w ->
  (fst (delete aead_open utf8_replace codec w reg now i (Some hdr)) = resp_204
     <-> exists sid, genuine aead_seal ws minted k i hdr sid reg now) /\
  (forall reg', delete aead_open utf8_replace codec w reg now i (Some hdr) = (resp_204, reg') ->
     exists sid, (exists r1, resolve aead_open utf8_replace codec w reg now i (Some hdr) = (RResume sid, r1)) /\
                 reg_lookup reg' sid = None /\
                 (forall sid' v, reg_lookup reg' sid' = Some v -> reg_lookup reg sid' = Some v)).
Proof.
  intros. split; [apply (delete_204_iff aead_seal aead_open utf8_replace codec ws minted k); assumption|].
  intros reg' Hd. apply (delete_204_closes aead_open utf8_replace codec w reg now i (Some hdr) reg' Hd).
Qed.
Print Assumptions C25_delete_204_iff_live_owned.

(* ---- all other DELETE outcomes are ONE response (no header, junk, tampered, other worker, other identity, closed,
        expired): indistinguishable by construction; and they close nothing that is live ---- *)
Theorem C25_delete_otherwise_indistinguishable : forall aead_open utf8_replace codec w reg now i hdr,
  (fst (delete aead_open utf8_replace codec w reg now i hdr) = resp_204 \/
   fst (delete aead_open utf8_replace codec w reg now i hdr) = resp_200) /\
  (forall reg', delete aead_open utf8_replace codec w reg now i hdr = (resp_200, reg') ->
     forall sid' pk', live reg sid' pk' now -> live reg' sid' pk' now).
Proof.
  intros. split; [apply delete_two_responses|]. intros reg' H. apply (delete_200_keeps_live _ _ _ _ _ _ _ _ _ H).
Qed.
Print Assumptions C25_delete_otherwise_indistinguishable.

(* ---- closed, evicted, expired: not live (hence session_lost by the theorems above), and they do not come back ---- *)
Theorem C25_closed_evicted_expired_stay_lost :
  (* close_session() inside a method *)
  (forall aead_open utf8_replace codec w reg now i hdr sid o reg',
     call aead_open utf8_replace codec w reg now i hdr true = (o, reg') -> co_session o = Some sid -> reg_lookup reg' sid = None) /\
  (* the reaper keeps exactly the unexpired entries *)
  (forall r now sid exp pk, reg_nodup r -> reg_lookup (reg_drain r now) sid = Some (exp, pk) ->
     reg_lookup r sid = Some (exp, pk) /\ (now <= exp)%Z) /\
  (* absent or expired = not live *)
  (forall r sid pk now, reg_lookup r sid = None -> ~ live r sid pk now) /\
  (forall r sid pk now exp pk0, reg_lookup r sid = Some (exp, pk0) -> (exp < now)%Z -> ~ live r sid pk now) /\
  (* and absent stays absent for the rest of any history in which worker k does not draw the same id again *)
  (forall aead_seal aead_open utf8_replace codec ws h s k sid,
     wnodup s -> reg_lookup (regs_of s k) sid = None ->
     (forall i ttl n, ~ In (OpOpen k i ttl sid n) h) ->
     reg_lookup (regs_of (fst (run aead_seal aead_open utf8_replace codec ws s h)) k) sid = None).
Proof.
  split; [exact call_close_gone|]. split; [exact reg_lookup_drain|].
  split. { intros r sid pk now H [exp [L _]]. rewrite H in L. discriminate L. }
  split. { intros r sid pk now exp pk0 H Hlt [exp' [L Hle]]. rewrite H in L. injection L as L1 L2. subst. apply (Z.lt_irrefl now). eapply Z.le_lt_trans; eassumption. }
  exact absent_stays_absent.
Qed.
Print Assumptions C25_closed_evicted_expired_stay_lost.

(* ---- histories from the empty world: a registry entry of worker k exists only because worker k opened it, under the
        principal key of the opening identity; and the token text minted by that open is the armoured envelope of
        exactly that session ---- *)
Theorem C25_registry_only_from_opens :
  (forall aead_seal aead_open utf8_replace codec ws t0 h k sid exp pk,
     reg_lookup (regs_of (fst (run aead_seal aead_open utf8_replace codec ws (init_world ws t0) h)) k) sid = Some (exp, pk) ->
     exists i c n txt, In (EvMinted k i c sid exp n txt) (snd (run aead_seal aead_open utf8_replace codec ws (init_world ws t0) h))
                       /\ pk = principal_key i) /\
  (forall aead_seal aead_open utf8_replace codec ws s o s' k i c sid exp n txt,
     step aead_seal aead_open utf8_replace codec ws s o = (s', EvMinted k i c sid exp n (Some txt)) ->
     exists w sb, nth_error ws k = Some w /\ utf8_encode (w_id w) = Some sb /\ blen sb <= MAX_SERVER_ID_LEN /\
       txt = b64u_encode (seal_bytes aead_seal (session_plain c sb sid (tok_secs exp)) (w_key w) (compute_aad i) n) /\
       reg_lookup (regs_of s' k) sid = Some (exp, principal_key i)).
Proof. split; [exact registry_only_from_opens|exact minted_text_is_envelope]. Qed.
Print Assumptions C25_registry_only_from_opens.

(* ---- the armour loses nothing: for EVERY envelope (byte string of any length) the unpadded urlsafe text reads back --
        through header.strip(), .encode("ascii"), the restored padding and the lenient decoder -- as exactly that
        envelope; so the text an open_session mints satisfies the [decode_text hdr = Some raw] part of [genuine] with
        raw = the envelope it armoured.  (proof/L_Base64Url.v; the premises are what os.urandom and the AEAD return:
        bytes) ---- *)
Theorem C25_armour_roundtrip :
  (forall raw, bytes_ok raw = true -> decode_text (b64u_encode raw) = Some raw) /\
  (forall aead_seal aead_open utf8_replace codec ws s o s' k i c sid exp n txt,
     step aead_seal aead_open utf8_replace codec ws s o = (s', EvMinted k i c sid exp n (Some txt)) ->
     bytes_ok n = true -> (forall key aad p, bytes_ok (aead_seal key aad n p) = true) ->
     exists w sb, nth_error ws k = Some w /\ utf8_encode (w_id w) = Some sb /\
       decode_text txt
       = Some (seal_bytes aead_seal (session_plain c sb sid (tok_secs exp)) (w_key w) (compute_aad i) n)).
Proof. exact L_Base64Url.armour_roundtrip. Qed.
Print Assumptions C25_armour_roundtrip.
(* the premise is met: envelopes with high bytes, all three tail lengths ('-' and '_' occur in the text) *)
Example C25_ex_armour : bytes_ok (3 :: repeat 255 24 ++ [251]) = true /\
                        decode_text (b64u_encode (3 :: repeat 255 24 ++ [251])) = Some (3 :: repeat 255 24 ++ [251]) /\
                        decode_text (b64u_encode [251; 255]) = Some [251; 255] /\
                        b64u_encode [251; 255] = [45; 95; 56] /\
                        decode_text (b64u_encode [3; 251; 255]) = Some [3; 251; 255].
Proof. vm_compute. repeat split; reflexivity. Qed.

(* ---- the two server-id premises, characterised.  With .decode("ascii", errors="replace") a worker recognises its own
        tokens iff its server id is ASCII; with .decode("utf-8", errors="replace") always (given Python's codec round
        trip), and then distinct server ids among workers sharing a key is all the deployment has to provide ---- *)
Theorem C25_own_token_accepted_iff_codec_roundtrips :
  (forall utf8_replace w sb, utf8_encode (w_id w) = Some sb ->
     (codec_ok utf8_replace AsciiReplace w <-> all_ascii (w_id w) = true)) /\
  (forall utf8_replace, codec_roundtrip utf8_replace -> forall w, codec_ok utf8_replace Utf8Replace w) /\
  (forall utf8_replace ws, codec_roundtrip utf8_replace -> distinct_ids ws -> no_alias utf8_replace Utf8Replace ws) /\
  (forall utf8_replace ws, (forall k w, nth_error ws k = Some w -> all_ascii (w_id w) = true) -> distinct_ids ws ->
     no_alias utf8_replace AsciiReplace ws).
Proof.
  split; [exact codec_ok_ascii_iff|]. split; [exact codec_ok_utf8|]. split; [exact no_alias_utf8|exact no_alias_ascii].
Qed.
Print Assumptions C25_own_token_accepted_iff_codec_roundtrips.

(* ---- non-vacuity: a concrete world (table AEAD with one sealed session token of ("jwt","alice") on "worker-a") ---- *)
Definition ex_key : bytes := repeat 7 32.
Definition ex_alice := Some ([106;119;116], [97;108;105;99;101]).
Definition ex_bob := Some ([106;119;116], [98;111;98]).
Definition ex_wid : list N := [119;111;114;107;101;114;45;97].            (* "worker-a" *)
Definition ex_wid_b : list N := [119;111;114;107;101;114;45;98].          (* "worker-b" *)
Definition ex_sid : bytes := repeat 9 12.
Definition ex_nonce : bytes := repeat 5 24.
Definition ex_body : bytes := repeat 6 45.
Definition ex_payload : bytes := session_plain 1000 ex_wid ex_sid 1100.
Definition ex_tbl : list aead_row := [(ex_key, compute_aad (ident_of ex_alice), ex_nonce, ex_body, ex_payload)].
Definition ex_txt : list N := b64u_encode (1 :: ex_nonce ++ ex_body).
Definition ex_reg : registry := [(ex_sid, (1100%Z, principal_key (ident_of ex_alice)))].
Definition ex_run (wid : list N) (reg : registry) (now : Z) (i : option (bytes * bytes)) (st : cstep) :=
  run_case ex_tbl [] AsciiReplace ((((ex_key, wid), 300000%Z), reg), now, i, st).

Example C25_ex_resumed : ex_run ex_wid ex_reg 1050 ex_alice (SCall (Some ex_txt) false) = ([1;0;1;0] ++ ex_sid, ex_reg).
Proof. vm_compute; reflexivity. Qed.
Example C25_ex_at_expiry : fst (ex_run ex_wid ex_reg 1100 ex_alice (SCall (Some ex_txt) false)) = [1;0;1;0] ++ ex_sid.
Proof. vm_compute; reflexivity. Qed.
Example C25_ex_expired : ex_run ex_wid ex_reg 1101 ex_alice (SCall (Some ex_txt) false) = ([1;4;0;0], []).
Proof. vm_compute; reflexivity. Qed.
Example C25_ex_other_identity : ex_run ex_wid ex_reg 1050 ex_bob (SCall (Some ex_txt) false) = ([1;2;0;0], ex_reg).
Proof. vm_compute; reflexivity. Qed.
Example C25_ex_anonymous : ex_run ex_wid ex_reg 1050 None (SCall (Some ex_txt) false) = ([1;2;0;0], ex_reg).
Proof. vm_compute; reflexivity. Qed.
Example C25_ex_other_worker : ex_run ex_wid_b ex_reg 1050 ex_alice (SCall (Some ex_txt) false) = ([1;3;0;0], ex_reg).
Proof. vm_compute; reflexivity. Qed.
Example C25_ex_closed : ex_run ex_wid [] 1050 ex_alice (SCall (Some ex_txt) false) = ([1;4;0;0], []).
Proof. vm_compute; reflexivity. Qed.
Example C25_ex_tampered : fst (ex_run ex_wid ex_reg 1050 ex_alice (SCall (Some (firstn 60 ex_txt ++ [90] ++ skipn 61 ex_txt)) false)) = [1;2;0;0].
Proof. vm_compute; reflexivity. Qed.
Example C25_ex_delete_owned : ex_run ex_wid ex_reg 1050 ex_alice (SDelete (Some ex_txt)) = ([2;204;1;0], []).
Proof. vm_compute; reflexivity. Qed.
Example C25_ex_delete_other : ex_run ex_wid ex_reg 1050 ex_bob (SDelete (Some ex_txt)) = ([2;200;0;0], ex_reg).
Proof. vm_compute; reflexivity. Qed.
Example C25_ex_close_session : ex_run ex_wid ex_reg 1050 ex_alice (SCall (Some ex_txt) true) = ([1;0;1;1] ++ ex_sid, []).
Proof. vm_compute; reflexivity. Qed.
Example C25_ex_no_header : ex_run ex_wid ex_reg 1050 ex_alice (SCall None false) = ([1;0;1;0], ex_reg).
Proof. vm_compute; reflexivity. Qed.
(* per-call TTLs: None takes the worker default, 0 and negative values are kept (the session is expired at creation) *)
Example C25_ex_open_ttls :
  snd (ex_run ex_wid [] 1000 ex_alice (SOpen None ex_sid ex_nonce)) = [(ex_sid, (301000%Z, principal_key (ident_of ex_alice)))] /\
  snd (ex_run ex_wid [] 1000 ex_alice (SOpen (Some 0%Z) ex_sid ex_nonce)) = [(ex_sid, (1000%Z, principal_key (ident_of ex_alice)))] /\
  snd (ex_run ex_wid [] 1000 ex_alice (SOpen (Some (-5)%Z) ex_sid ex_nonce)) = [(ex_sid, (995%Z, principal_key (ident_of ex_alice)))].
Proof. vm_compute. repeat split; reflexivity. Qed.
(* the premises are satisfiable: the example mint is well-formed, the example identities are in the quantifier *)
Example C25_ex_wf :
  mint_wf {| m_worker := 0; m_ident := ident_of ex_alice; m_created := 1000; m_sid := ex_sid; m_exp := 1100; m_nonce := ex_nonce |}
  /\ ident_ok (ident_of ex_bob) /\ wf_plain 1000 ex_wid ex_sid 1100.
Proof. vm_compute. repeat split; reflexivity || discriminate. Qed.
(* the armour round trip on concrete envelopes of the three residues mod 3 (the general statement
   [forall raw, decode_text (b64u_encode raw) = Some raw] is NOT proved; it is checked on every real token by the
   correspondence run of props/C25.py) *)
Example C25_ex_armour_roundtrip :
  decode_text ex_txt = Some (1 :: ex_nonce ++ ex_body) /\
  decode_text (b64u_encode (1 :: ex_nonce ++ ex_body ++ [255])) = Some (1 :: ex_nonce ++ ex_body ++ [255]) /\
  decode_text (b64u_encode (1 :: ex_nonce ++ ex_body ++ [255; 254])) = Some (1 :: ex_nonce ++ ex_body ++ [255; 254]).
Proof. vm_compute. repeat split; reflexivity. Qed.
