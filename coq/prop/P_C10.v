From Coq Require Import List NArith ZArith Bool.
From VGI Require Import Corr M_Wire L_Wire L_WireHttp M_WireLife L_WireLife.
Import ListNotations.
Open Scope N_scope.
