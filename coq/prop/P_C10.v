(* C10 Stream lifecycle -- theorem statements only (proofs: proof/L_WireLife.v on top of proof/L_Wire.v, L_WireHttp.v).

   run_pipe / run_http : M_Wire, the models C01 ties to the code (socket family / HTTP for every cap and frame size).
   life model          : M_WireLife -- a script is a LIST OF OPERATIONS on one session (OIter k / OResume / OExch /
                         OClose / OCancel / OCancelF d / ONext); pstep / hstep return, per operation, the client events and the state hooks
                         (CProcess i / CCancel i) the server ran.  hstep true = the repaired HttpStreamSession.
   emitted sts         : the batches a producer step script emits, in order, and how it ends (finish / error).
   Side conditions: a recording on_log callback and no EXCEPTION-level client logs (no_exc_logs; C08's subject), init
   succeeded (ires = InitOk; failures: C01/C04), the script is legal (a declared header exists).  HTTP data path:
   C01's premises -- an exchange response fits max_response_bytes (fits, the documented hard cap) and the first producer
   response carries no error (first_turn_ok; PROVED here for every producer that ends by finish()). *)
From Coq Require Import List NArith ZArith Bool String.
From VGI Require Import Corr M_Wire L_Wire L_WireHttp M_WireLife L_WireLife.
Import ListNotations.
Open Scope N_scope.

(* the socket client receives exactly the emitted batches, in order, and the trace ends exactly with the producer's
   ending (EDone when it finished), nothing after it, no other ending before it -- for every step script *)
Theorem C10_producer_exact : forall sp h,
  ires sp = InitOk -> legal (PStream sp) (SIter h 0 AStop CbRecord) = true -> no_exc_logs (PStream sp) = true ->
  let t := run_pipe (PStream sp) (SIter h 0 AStop CbRecord) in
  batches_of t = fst (emitted (steps sp))
  /\ exists pre, t = pre ++ [end_event (snd (emitted (steps sp)))] /\ filter is_end pre = [].
Proof. exact producer_exact_pipe. Qed.

(* HTTP, for every cap and frame size: the same, whenever the producer ends by finish() (or C01's first_turn_ok holds) *)
Theorem C10_producer_exact_http : forall cfg sp h,
  ires sp = InitOk -> legal (PStream sp) (SIter h 0 AStop CbRecord) = true -> no_exc_logs (PStream sp) = true ->
  snd (emitted (steps sp)) = EndFinish \/ first_turn_ok cfg (PStream sp) (SIter h 0 AStop CbRecord) = true ->
  let t := run_http cfg (PStream sp) (SIter h 0 AStop CbRecord) in
  batches_of t = fst (emitted (steps sp)) /\ filter is_end t = [end_event (snd (emitted (steps sp)))].
Proof. exact producer_exact_http. Qed.

(* emit and finish in the same step: that batch is delivered, then the stream is over -- both transports, every cap *)
Theorem C10_emit_and_finish_delivers : forall cfg sp h pre bs x b post,
  ires sp = InitOk -> legal (PStream sp) (SIter h 0 AStop CbRecord) = true -> no_exc_logs (PStream sp) = true ->
  steps sp = pre ++ x :: post -> Forall2 emits_only pre bs -> sraise x = None -> fin x = true -> emit x = Some b ->
  let tp := run_pipe (PStream sp) (SIter h 0 AStop CbRecord) in
  let th := run_http cfg (PStream sp) (SIter h 0 AStop CbRecord) in
  batches_of tp = bs ++ [b] /\ filter is_end tp = [EDone] /\ batches_of th = bs ++ [b] /\ filter is_end th = [EDone].
Proof. exact emit_and_finish_delivers. Qed.

(* n inputs: one output per input, the i-th being what the i-th process() call emitted, up to the first failing call *)
Theorem C10_exchange_one_per_input : forall cfg sp h n a,
  ires sp = InitOk -> legal (PStream sp) (SExch h n a CbRecord) = true -> no_exc_logs (PStream sp) = true ->
  (pipe_reads (PStream sp) (SExch h n a CbRecord) = true -> one_per_input (steps sp) n (run_pipe (PStream sp) (SExch h n a CbRecord)))
  /\ (fits cfg (PStream sp) (SExch h n a CbRecord) = true -> one_per_input (steps sp) n (run_http cfg (PStream sp) (SExch h n a CbRecord))).
Proof. exact exchange_one_per_input. Qed.

(* finish() inside an exchange is refused by the collector, and that refusal is what the client gets for that input *)
Theorem C10_finish_refused_in_exchange :
  (forall x, fin x = true -> exec_step false (Some x) = SErr finish_refused)
  /\ forall sts n t j x, one_per_input sts n t -> nth_error sts j = Some x -> fin x = true -> (j < n)%nat ->
       (forall i, (i < j)%nat -> exists fs fl, exec_step false (nth_error sts i) = SFrames fs fl) ->
       batches_of t = map (out_of sts) (seq 0 j) /\ filter is_end t = [err_event finish_refused].
Proof. split; [exact finish_refused_step|exact one_per_input_finish]. Qed.

(* _coerce_input_batch over any type / column domain and any cast function:
   1 equal schema -> unchanged; 2 whatever reaches the state has the declared schema and consists of the same-named input
   columns, as they were or cast; 3 a different field set -> rejected; 4 same field set (any order) with castable
   columns -> accepted; 5 a rejected input never reaches process() on either transport *)
Theorem C10_input_schema : forall (ty col : Type) (ty_eqb : ty -> ty -> bool) (cast : ty -> ty -> col -> option col),
  (forall a b, ty_eqb a b = true <-> a = b) ->
  forall (target : list (field ty)) (b : list (column ty col)),
  (schema_of ty col b = target -> coerce ty col ty_eqb cast target b = CAccept b)
  /\ (forall b', coerce ty col ty_eqb cast target b = CAccept b' ->
        schema_of ty col b' = target /\
        forall f v, In (f, v) b' -> exists c, In c b /\ fst (fst c) = fst f /\ (c = (f, v) \/ cast (snd f) (snd (fst c)) (snd c) = Some v))
  /\ ((exists n, In n (names ty (schema_of ty col b)) /\ ~ In n (names ty target)) \/
      (exists n, In n (names ty target) /\ ~ In n (names ty (schema_of ty col b))) ->
      coerce ty col ty_eqb cast target b = CRejectType)
  /\ (NoDup (names ty (schema_of ty col b)) -> (forall n, In n (names ty (schema_of ty col b)) <-> In n (names ty target)) ->
      (forall c f, In c b -> In f target -> fst (fst c) = fst f -> exists v, cast (snd f) (snd (fst c)) (snd c) = Some v) ->
      exists b', coerce ty col ty_eqb cast target b = CAccept b')
  /\ (forall producer c e st sg st', pstep producer c (OExch (Some e)) st = (sg, st') -> snd sg = [])
  /\ (forall cfg sts c e st sg st', hstep true cfg sts c (OExch (Some e)) st = (sg, st') -> snd sg = []).
Proof.
  intros ty col ty_eqb cast Heq target b.
  split; [apply coerce_equal; exact Heq|]. split; [intros b'; apply coerce_accept; exact Heq|].
  split; [apply coerce_diff_set; exact Heq|]. split; [apply coerce_same_set; exact Heq|].
  split; [exact pstep_rejected|exact hstep_rejected].
Qed.

(* the client's data events are: the declared header (exactly once, only on a header method), then the batches *)
Theorem C10_header_once_first : forall cfg sp sc,
  ires sp = InitOk -> is_stream sc = true -> legal (PStream sp) sc = true -> records sc = true -> no_exc_logs (PStream sp) = true ->
  (pipe_reads (PStream sp) sc = true ->
     let t := run_pipe (PStream sp) sc in filter is_data t = hdr_events (hdr_of sc) sp ++ map EBatch (batches_of t))
  /\ (complete sc = true -> fits cfg (PStream sp) sc = true -> first_turn_ok cfg (PStream sp) sc = true ->
     let t := run_http cfg (PStream sp) sc in filter is_data t = hdr_events (hdr_of sc) sp ++ map EBatch (batches_of t)).
Proof. exact header_once_first. Qed.

(* socket family.  For ANY callback, any state st0 of an open session, any operations before (pre) and after (post)
   the cancel:  the state is never processed again / on_cancel ran at most once in the whole run / cancel() reports no
   error / every later operation is refused (no dispatch, no data, RpcError for a use) *)
Theorem C10_after_cancel : forall producer c oc st0 pre post segs1 st1 sgc st2 segs2 st3,
  p_closed st0 = false -> is_cancel_op oc = true ->
  run_ops (pstep producer c) pre st0 = (segs1, st1) -> pstep producer c oc st1 = (sgc, st2) ->
  run_ops (pstep producer c) post st2 = (segs2, st3) ->
  processes (snd sgc ++ all_calls segs2) = []
  /\ (cancels (all_calls segs1 ++ snd sgc ++ all_calls segs2) <= 1)%nat
  /\ errors_of (fst sgc) = []
  /\ Forall2 refusal post segs2.
Proof. exact after_cancel_pipe. Qed.

(* HTTP, repaired client (fixed = true), every cap / program / callback.  The cancel oc is OCancel or OCancelF d: a cancel
   whose POST fails in the client, the request delivered to the server (d = true: on_cancel ran, the reply was lost) or
   not; pre and post may contain further (failing) cancels and next_with_token() calls (ONext) *)
Theorem C10_after_cancel_http : forall cfg sts c oc st0 pre post segs1 st1 sgc st2 segs2 st3,
  hK st0 = false -> is_cancel_op oc = true ->
  run_ops (hstep true cfg sts c) pre st0 = (segs1, st1) -> hstep true cfg sts c oc st1 = (sgc, st2) ->
  run_ops (hstep true cfg sts c) post st2 = (segs2, st3) ->
  processes (snd sgc ++ all_calls segs2) = []
  /\ (cancels (all_calls segs1 ++ snd sgc ++ all_calls segs2) <= 1)%nat
  /\ fst sgc = []
  /\ Forall2 refusal post segs2.
Proof. exact after_cancel_http. Qed.

(* the sessions the two clients hand out satisfy the premises above *)
Theorem C10_sessions_start_open :
  (forall sp h c ies st0, pipe_init sp h c = (ies, Some st0) -> p_closed st0 = false)
  /\ (forall cfg sp h producer c ies ics st0, http_init cfg sp h producer c = (ies, ics, Some st0) -> hK st0 = false).
Proof. split; [exact pipe_init_open|exact http_init_open]. Qed.

Print Assumptions C10_producer_exact.
Print Assumptions C10_producer_exact_http.
Print Assumptions C10_emit_and_finish_delivers.
Print Assumptions C10_exchange_one_per_input.
Print Assumptions C10_finish_refused_in_exchange.
Print Assumptions C10_input_schema.
Print Assumptions C10_header_once_first.
Print Assumptions C10_after_cancel.
Print Assumptions C10_after_cancel_http.
Print Assumptions C10_sessions_start_open.

(* ---- non-vacuity *)
Definition xb (r t : N) : batch := {| rows := r; tag := t; meta := [] |}.
Definition xlog (l : level) (t : string) : logmsg := {| lvl := l; text := s t; extra := [] |}.
Definition xs (b : option batch) (f : bool) : step := {| slogs := [xlog INFO "s"]; emit := b; fin := f; sraise := None |}.
Definition xsp : stream_prog := {| ilogs := [xlog DEBUG "i"]; ires := InitOk; hdr := Some 7%Z;
  steps := [xs (Some (xb 2 0)) false; xs (Some (xb 0 0)) false; xs (Some (xb 3 2)) true; xs (Some (xb 9 3)) false] |}.
Definition xcfg (c : option N) : httpcfg := {| cap := c; fsize := fun _ => 100; base := 100 |}.

(* a header producer: two batches, then emit+finish; the 4th step is never reached *)
Example C10_ex_producer :
  legal (PStream xsp) (SIter true 0%nat AStop CbRecord) = true /\ no_exc_logs (PStream xsp) = true
  /\ emitted (steps xsp) = ([xb 2 0; xb 0 0; xb 3 2], EndFinish)
  /\ batches_of (run_pipe (PStream xsp) (SIter true 0%nat AStop CbRecord)) = [xb 2 0; xb 0 0; xb 3 2]
  /\ forallb (fun c => list_eqb batch_eqb (batches_of (run_http (xcfg c) (PStream xsp) (SIter true 0%nat AStop CbRecord))) [xb 2 0; xb 0 0; xb 3 2])
       [None; Some 1; Some 450; Some 10000000] = true.
Proof. vm_compute. repeat split; reflexivity. Qed.

(* an exchange whose third call finishes: two outputs, then the refusal *)
Example C10_ex_exchange :
  let t := run_pipe (PStream xsp) (SExch false 4%nat AClose CbRecord) in
  batches_of t = [xb 2 0; xb 0 0] /\ filter is_end t = [err_event finish_refused].
Proof. vm_compute. split; reflexivity. Qed.

(* life model: take one batch, cancel, then iterate / resume / exchange / cancel again -- socket and HTTP (cap None: the
   generator is suspended inside the pre-loaded batches; cap None with 2 taken: inside a continuation response) *)
Example C10_ex_after_cancel_pipe :
  life_pipe xsp true true CbRecord [OIter (Some 1%nat); OCancel; OIter None; OResume; OCancel]
  = ([ELog (xlog DEBUG "i"); EHeader 7%Z],
     [([ELog (xlog INFO "s"); EBatch (xb 2 0)], [CProcess 0]); ([], [CCancel 1]); ([refused], []); ([EDone], []); ([], [])]).
Proof. vm_compute. reflexivity. Qed.

Example C10_ex_after_cancel_http :
  life_http true (xcfg None) xsp true true CbRecord [OIter (Some 2%nat); OCancel; OResume; OIter None; OCancel]
  = ([ELog (xlog DEBUG "i"); ELog (xlog INFO "s"); EHeader 7%Z], [CProcess 0],
     [([EBatch (xb 2 0); ELog (xlog INFO "s"); EBatch (xb 0 0)], [CProcess 1]); ([], [CCancel 1]); ([refused], []); ([refused], []); ([], [])]).
Proof. vm_compute. reflexivity. Qed.

(* a cancel whose reply is lost (the server ran on_cancel), then cancel again, next_with_token, iterate: one CCancel, no
   CProcess, every use refused -- and the same when the request never got out *)
Example C10_ex_cancel_fault_http :
  snd (life_http true (xcfg None) xsp false true CbRecord [ONext; OCancelF true; OCancel; ONext; OIter None; OCancelF true])
  = [([EBatch (xb 2 0)], []); ([], [CCancel 1]); ([], []); ([EDone], []); ([refused], []); ([], [])]
  /\ snd (life_http true (xcfg None) xsp false true CbRecord [ONext; ONext; OCancelF false; ONext; OCancel])
  = [([EBatch (xb 2 0)], []); ([ELog (xlog INFO "s"); EBatch (xb 0 0)], [CProcess 1]); ([], []); ([EDone], []); ([], [])].
Proof. vm_compute. split; reflexivity. Qed.

(* coercion over a toy domain: types are numbers, a cast succeeds iff the source type is smaller or equal *)
Definition toy_cast (t s0 : N) (c : N) : option N := if s0 <=? t then Some (c + 1000 * t) else None.
Example C10_ex_coerce :
  let target := [(s "a", 5); (s "b", 6)] in
  coerce N N N.eqb toy_cast target [((s "b", 6), 1); ((s "a", 3), 2)] = CAccept [((s "a", 5), 5002); ((s "b", 6), 6001)]
  /\ coerce N N N.eqb toy_cast target [((s "b", 6), 1); ((s "a", 9), 2)] = CRejectType
  /\ coerce N N N.eqb toy_cast target [((s "a", 5), 1); ((s "b", 6), 2); ((s "c", 1), 3)] = CRejectType
  /\ coerce N N N.eqb toy_cast target [((s "a", 5), 1); ((s "a", 5), 1); ((s "b", 6), 2)] = CRejectKey.
Proof. vm_compute. repeat split; reflexivity. Qed.
