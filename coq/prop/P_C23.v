(* C23: proof nonces cannot be replayed within the window -- NonceCache under every interleaving.
   Statements only; every proof is in proof/L_Nonce.v.

   Vocabulary (model/M_Nonce.v):  a configuration is capacity, ttl and the regenerated code shape
   ([std_shape co]: co = the clock is read outside the lock, as in the source today; co = false is
   the variant that reads it inside).  [progs] is any number of threads, each any list of nonces;
   [sch] is any list of naturals (0 = the clock advances by one, i+1 = thread i makes its next atomic
   step; anything else stutters).  [events] is the log of completed check_and_add calls in the order
   of their locked sections: thread, nonce, the clock value the call read ([ev_now]), the clock at the
   moment of its locked section ([ev_clk]) and the result ([ev_ok]).

   Reading adopted for "the remainder of its skew window": the window of a nonce accepted by a call
   that read the clock at t0 is [t0, t0 + ttl); a later check falls into it when the clock AT ITS
   LOCKED SECTION is still below t0 + ttl.  (With the stale reading of the clock that a call may
   carry into the lock, the variant "the later call's OWN reading is below t0 + ttl" is false for the
   code as it is -- refuted/R_C23.v -- and true when the clock is read inside the lock:
   C23_no_replay_own_reading_when_clock_inside.)
   "fewer than capacity distinct nonces arrived in that window": [count_others x mid] counts the
   distinct nonces other than x submitted between the two calls. *)
From Coq Require Import List NArith ZArith Bool Arith.
From VGI Require Import Sched_C23 M_Nonce L_Nonce L_NonceGate.
Import ListNotations.
Open Scope N_scope.

(* the cache never holds more than its capacity -- after every prefix of every schedule *)
Theorem C23_size_le_capacity : forall cap tl co, 0 < cap -> forall progs sch,
  N.of_nat (length (entries (cach (fst (nrun (mkCfg cap tl (std_shape co)) progs sch))))) <= cap.
Proof. exact size_le_capacity. Qed.
Print Assumptions C23_size_le_capacity.

(* an accepted nonce is rejected for the remainder of its window as long as fewer than capacity
   distinct other nonces arrived since *)
Theorem C23_no_replay_in_window : forall cap tl co, 0 < cap -> forall progs sch pre ei mid ek post,
  events (mkCfg cap tl (std_shape co)) progs sch = pre ++ ei :: mid ++ ek :: post ->
  ev_ok ei = true -> ev_nonce ek = ev_nonce ei ->
  ev_clk ek < ev_now ei + tl ->
  count_others (ev_nonce ei) mid < cap ->
  ev_ok ek = false.
Proof. exact no_replay_in_window. Qed.
Print Assumptions C23_no_replay_in_window.

(* sharper: only ACCEPTED other nonces count against the capacity *)
Theorem C23_no_replay_in_window_accepted_count : forall cap tl co, 0 < cap -> forall progs sch pre ei mid ek post,
  events (mkCfg cap tl (std_shape co)) progs sch = pre ++ ei :: mid ++ ek :: post ->
  ev_ok ei = true -> ev_nonce ek = ev_nonce ei ->
  ev_clk ek < ev_now ei + tl ->
  count_accepted_others (ev_nonce ei) mid < cap ->
  ev_ok ek = false.
Proof. exact no_replay_accepted_count. Qed.
Print Assumptions C23_no_replay_in_window_accepted_count.

(* test-and-insert is atomic: of the first two checks of a nonce -- however their threads interleave --
   the first to reach its locked section wins and the second loses *)
Theorem C23_atomic_test_and_insert : forall cap tl co, 0 < cap -> forall progs sch pre e1 mid e2 post,
  events (mkCfg cap tl (std_shape co)) progs sch = pre ++ e1 :: mid ++ e2 :: post ->
  ev_nonce e2 = ev_nonce e1 ->
  ~ In (ev_nonce e1) (map ev_nonce pre) ->
  ev_clk e2 < ev_now e1 + tl ->
  count_others (ev_nonce e1) mid < cap ->
  ev_ok e1 = true /\ ev_ok e2 = false.
Proof. exact atomic_test_and_insert. Qed.
Print Assumptions C23_atomic_test_and_insert.

(* k threads check ONE fresh nonce concurrently, on any schedule with fewer than ttl clock ticks:
   whatever has completed, exactly the first completed call was accepted *)
Theorem C23_one_winner : forall cap tl co, 0 < cap -> forall k x sch,
  N.of_nat (count_occ Nat.eq_dec sch 0%nat) < tl ->
  match events (mkCfg cap tl (std_shape co)) (repeat [x] k) sch with
  | [] => True
  | e :: rest => ev_ok e = true /\ Forall (fun e' => ev_ok e' = false) rest
  end.
Proof. exact one_winner. Qed.
Print Assumptions C23_one_winner.

(* with the clock read inside the lock a call's own reading is the clock at its locked section, so
   the window can be stated on the later call's own reading *)
Theorem C23_no_replay_own_reading_when_clock_inside : forall cap tl, 0 < cap -> forall progs sch pre ei mid ek post,
  events (mkCfg cap tl (std_shape false)) progs sch = pre ++ ei :: mid ++ ek :: post ->
  ev_ok ei = true -> ev_nonce ek = ev_nonce ei ->
  ev_now ek < ev_now ei + tl ->
  count_others (ev_nonce ei) mid < cap ->
  ev_ok ek = false.
Proof.
  intros cap tl Hc progs sch pre ei mid ek post Hl Hok Hn Hnow Hcnt.
  eapply (no_replay_in_window cap tl false Hc); try eassumption.
  rewrite <- (inside_now_is_clk cap tl progs sch ek); [exact Hnow|].
  rewrite Hl. apply in_or_app. right. right. apply in_or_app. right. left. reflexivity.
Qed.
Print Assumptions C23_no_replay_own_reading_when_clock_inside.


(* Gate level (coordinator's reading of "its skew window": the span during which a proof carrying the nonce
   still passes the timestamp step, ts - skew <= now <= ts + skew in whole seconds).  An accepted proof is
   refused whenever it is presented again at a time at which it would otherwise still verify -- under every
   interleaving -- provided the ttl the gate gives its cache exceeds 2*skew.  tie/T_NonceGate.v discharges that
   premise for the ttl expression regenerated from proxy_proof_gate. *)
Theorem C23_gate_no_replay_while_valid : forall cap skew mul add co, 0 < cap ->
  2 * skew < gate_ttl mul add skew ->
  forall progs sch pre ei mid ek post (ts w0 : Z),
  events (mkCfg cap (gate_ttl mul add skew) (std_shape co)) progs sch = pre ++ ei :: mid ++ ek :: post ->
  ev_ok ei = true -> ev_nonce ek = ev_nonce ei ->
  ts_ok (Z.of_N skew) ts w0 = true ->              (* first presentation passed the timestamp step at w0 ...   *)
  (w0 <= Z.of_N (ev_now ei))%Z ->                  (* ... before its cache call read the clock                   *)
  ts_ok (Z.of_N skew) ts (Z.of_N (ev_clk ek)) = true ->   (* the proof would still verify at the later cache step *)
  count_others (ev_nonce ei) mid < cap ->
  ev_ok ek = false.
Proof. exact gate_no_replay_while_valid. Qed.
Print Assumptions C23_gate_no_replay_while_valid.

(* the timestamp step is the two-sided whole-second window *)
Theorem C23_ts_step_window : forall skew ts cur, ts_ok skew ts cur = true <-> (ts - skew <= cur <= ts + skew)%Z.
Proof. exact ts_ok_iff. Qed.
Print Assumptions C23_ts_step_window.

(* ---- non-vacuity: concrete runs that meet the hypotheses ------------------------------------------ *)
(* capacity 2, ttl 3; threads [7;8], [7], [9]; thread 1 and 2 race on nonce 7, the clock advances, then
   thread 2 (second), 3 and thread 1's second call run *)
Definition ex_cfg := mkCfg 2 3 (std_shape true).
Definition ex_progs : list (list N) := [[7; 8]; [7]; [9]].
Definition ex_sch : list nat := [1; 2; 2; 0; 1; 3; 0; 3; 1; 1]%nat.

Example C23_ex_events : map ev_tuple (events ex_cfg ex_progs ex_sch) =
  [(1, 7, 0, 0, true); (0, 7, 0, 1, false); (2, 9, 1, 2, true); (0, 8, 2, 2, true)].
Proof. vm_compute. reflexivity. Qed.

(* hypotheses of C23_no_replay_in_window / C23_atomic_test_and_insert hold for the pair (event 0, event 1) *)
Example C23_ex_hyps :
  let evs := events ex_cfg ex_progs ex_sch in
  exists ei ek post, evs = [] ++ ei :: [] ++ ek :: post /\ ev_ok ei = true /\ ev_nonce ek = ev_nonce ei /\
    ev_clk ek < ev_now ei + ttl ex_cfg /\ count_others (ev_nonce ei) [] < capacity ex_cfg /\ ev_ok ek = false.
Proof. vm_compute. do 3 eexists. repeat split; reflexivity. Qed.

(* the capacity bound is tight: the cache of the example is full at the end, and one nonce was evicted *)
Example C23_ex_full : let g := fst (nrun ex_cfg ex_progs ex_sch) in
  (map fst (entries (cach g)), evicted (cach g)) = ([9; 8], 1).
Proof. vm_compute. reflexivity. Qed.

(* the eviction caveat is needed: with capacity 1 a second nonce evicts the first, which is then accepted
   again inside its window *)
Example C23_ex_eviction_caveat :
  map ev_tuple (events (mkCfg 1 5 (std_shape true)) [[7; 8; 7]] [1; 1; 1; 1; 1; 1]%nat) =
  [(0, 7, 0, 0, true); (0, 8, 0, 0, true); (0, 7, 0, 0, true)].
Proof. vm_compute. reflexivity. Qed.

(* three threads, one fresh nonce, every thread has read the clock before any takes the lock *)
Example C23_ex_one_winner :
  map ev_ok (events (mkCfg 1 1 (std_shape true)) (repeat [5] 3) [1; 2; 3; 3; 1; 2]%nat) = [true; false; false].
Proof. vm_compute. reflexivity. Qed.

(* gate level: skew 2, ttl 2*2+1; proof with ts = 2 first presented at 0 = ts - skew, again at 4 = ts + skew: refused *)
Example C23_ex_gate :
  let evs := events (mkCfg 1 (gate_ttl 2 1 2) (std_shape true)) [[7; 7]] [1; 1; 0; 0; 0; 0; 1; 1]%nat in
  map ev_tuple evs = [(0, 7, 0, 0, true); (0, 7, 4, 4, false)] /\
  ts_ok 2 2 0 = true /\ ts_ok 2 2 4 = true /\ ts_ok 2 2 5 = false.
Proof. vm_compute. repeat split; reflexivity. Qed.
