(* C28: shared-memory allocations never overlap or overflow.  Statements only; proofs are in proof/L_Alloc.v.

   Vocabulary (model/M_Alloc.v, proof/L_Alloc.v):
     run total ops        the header table after the history `ops` on a freshly initialised segment of `total` bytes
     sorted_by_offset t   StronglySorted (fun a b => fst a < fst b) t
     non_overlapping t    forall a b, In a t -> In b t -> a <> b -> disjoint a b
     within_data_region   every entry (o, l) has HEADER_SIZE <= o, 0 < l, o + l <= total
     within_entry_limit   length t <= MAX_ALLOCS (= 4094)
     fits total t x size  [x, x+size) lies in [HEADER_SIZE, total) and meets no entry of t
     Wf total t           the four clauses together *)
From Coq Require Import List NArith ZArith Bool Sorted.
From VGI Require Import M_Alloc L_Alloc.
Import ListNotations.
Open Scope N_scope.

(* (1) every reachable table -- after ANY sequence of allocate (any integer size), free (any offset) and
   reset -- is sorted, non-overlapping, inside the data region and at most 4094 entries long *)
Theorem C28_inv : forall total ops, HEADER_SIZE <= total ->
  let t := run total ops in
  sorted_by_offset t /\ non_overlapping t /\ within_data_region total t /\
  N.of_nat (length t) <= 4094.
Proof.
  intros total ops H t. destruct (Inv_Wf _ _ (Inv_run total ops H)) as (A & B & C & D).
  split; [exact A |]. split; [exact B |]. split; [exact C |].
  unfold within_entry_limit, tlen in D.
  destruct table_fits_header as (_ & _ & E). rewrite E in D. exact D.
Qed.
Print Assumptions C28_inv.

(* the same from any well-formed table (e.g. one left in the header by the peer) *)
Theorem C28_inv_from : forall total t ops, HEADER_SIZE <= total -> Wf total t -> Wf total (run_from total t ops).
Proof. intros total t ops H W. apply Inv_Wf. apply Inv_run_from; [exact H | apply Wf_Inv; assumption]. Qed.
Print Assumptions C28_inv_from.

(* (2) allocation of a positive size fails exactly when the table is full or no gap is large enough *)
Theorem C28_first_fit_complete : forall total ops size, HEADER_SIZE <= total -> 0 < size ->
  let t := run total ops in
  allocate total t size = None <->
  MAX_ALLOCS <= N.of_nat (length t) \/ ~ exists x, fits total t x size.
Proof. intros total ops size H Hs t. apply allocate_none_iff; [apply Inv_run; exact H | exact Hs]. Qed.
Print Assumptions C28_first_fit_complete.

(* ... stated on the operation itself, for every integer size: None iff positive size and (full or no gap);
   a non-positive size is an error and leaves the table alone *)
Theorem C28_alloc_outcomes : forall total ops size, HEADER_SIZE <= total ->
  let t := run total ops in
  (snd (step total t (OAlloc size)) = RNone <->
     (0 < size)%Z /\ (MAX_ALLOCS <= N.of_nat (length t) \/ ~ exists x, fits total t x (Z.to_N size))) /\
  (snd (step total t (OAlloc size)) = RError <-> (size <= 0)%Z) /\
  (forall r, snd (step total t (OAlloc size)) = r -> r = RNone \/ r = RError -> fst (step total t (OAlloc size)) = t).
Proof. intros total ops size H t. apply alloc_outcomes. apply Inv_run; exact H. Qed.
Print Assumptions C28_alloc_outcomes.

(* (3) a successful allocation returns the LOWEST offset that fits, adds exactly the entry (offset, size),
   and keeps every other entry *)
Theorem C28_first_fit_least : forall total ops size t' x, HEADER_SIZE <= total -> 0 < size ->
  let t := run total ops in
  allocate total t size = Some (t', x) ->
  fits total t x size /\
  (forall y, fits total t y size -> x <= y) /\
  (forall e, In e t' <-> e = (x, size) \/ In e t).
Proof.
  intros total ops size t' x H Hs t Ha.
  destruct (allocate_some _ _ _ _ _ (Inv_run total ops H) Hs Ha) as (_ & A & B & C & _).
  split; [exact A |]. split; [exact B | exact C].
Qed.
Print Assumptions C28_first_fit_least.

(* (4) free removes exactly the entry that starts at the offset, and fails iff there is none *)
Theorem C28_free_exact : forall total ops x, HEADER_SIZE <= total ->
  let t := run total ops in
  (forall t', free t x = Some t' ->
     (exists l, In (x, l) t) /\ (forall e, In e t' <-> In e t /\ fst e <> x) /\
     N.of_nat (length t) = N.of_nat (length t') + 1) /\
  (free t x = None <-> ~ exists l, In (x, l) t).
Proof.
  intros total ops x H t. split.
  - intros t' Hf. destruct (free_some _ _ _ _ (Inv_run total ops H) Hf) as (_ & A & B & C).
    split; [exact A |]. split; [exact B | exact C].
  - apply free_none_iff.
Qed.
Print Assumptions C28_free_exact.

(* (5) the direct write (ShmSegment.allocate_and_write, non-dictionary path), for ANY estimate and ANY
   sequence of write() calls: no byte of another live batch, of the header, or outside the segment is
   altered; a returned (offset, written) lies inside its own entry (offset, estimated); the table stays
   well-formed; the inline fallback leaves the table as it was and happens exactly when the allocator
   refuses or the stream is longer than the estimate *)
Theorem C28_write_within_allocation : forall total t m est chunks t' m' r,
  HEADER_SIZE <= total -> Wf total t -> 0 < est ->
  allocate_and_write total t m est chunks = (t', m', r) ->
  Wf total t' /\
  (forall e, In e t -> forall a, in_region e a -> m' a = m a) /\
  (forall a, a < HEADER_SIZE -> m' a = m a) /\
  (forall a, total <= a -> m' a = m a) /\
  match r with
  | Some (off, written) =>
      written <= est /\ written = sum_len chunks /\ fits total t off est /\
      (forall e, In e t' <-> e = (off, est) \/ In e t) /\
      (forall a, ~ (off <= a < off + written) -> m' a = m a)
  | None => t' = t /\ (allocate total t est = None \/ est < sum_len chunks)
  end.
Proof.
  intros total t m est chunks t' m' r H W He Hw.
  destruct (write_contained _ _ _ _ _ _ _ _ (Wf_Inv _ _ H W) He Hw) as (A & B & C & D & E).
  split; [apply Inv_Wf; exact A |]. split; [exact B |]. split; [exact C |]. split; [exact D |].
  destruct r as [[off written]|]; exact E.
Qed.
Print Assumptions C28_write_within_allocation.

(* ... and on the table a write is nothing but the history [allocate estimated] (or no operation at all), so
   histories that interleave writes with allocate / free / reset reach exactly the tables of C28_inv *)
Theorem C28_write_table_is_history : forall total t m est chunks,
  HEADER_SIZE <= total -> Wf total t -> 0 < est ->
  let t' := fst (fst (allocate_and_write total t m est chunks)) in
  t' = t \/ t' = run_from total t [OAlloc (Z.of_N est)].
Proof. intros total t m est chunks H W He. apply write_table_is_history; [apply Wf_Inv; assumption | exact He]. Qed.
Print Assumptions C28_write_table_is_history.

(* (6) the dictionary path copies exactly the serialised bytes into an allocation of exactly that size *)
Theorem C28_copy_within_allocation : forall total t m c t' m' r,
  HEADER_SIZE <= total -> Wf total t -> 0 < c_len c ->
  allocate_and_copy total t m c = (t', m', r) ->
  Wf total t' /\
  (forall e, In e t -> forall a, in_region e a -> m' a = m a) /\
  (forall a, a < HEADER_SIZE -> m' a = m a) /\
  (forall a, total <= a -> m' a = m a) /\
  match r with
  | Some (off, written) =>
      written = c_len c /\ fits total t off written /\
      (forall e, In e t' <-> e = (off, written) \/ In e t) /\
      (forall a, ~ (off <= a < off + written) -> m' a = m a)
  | None => t' = t /\ m' = m
  end.
Proof.
  intros total t m c t' m' r H W Hl Hc.
  destruct (copy_contained _ _ _ _ _ _ _ (Wf_Inv _ _ H W) Hl Hc) as (A & B & C & D & E).
  split; [apply Inv_Wf; exact A |]. split; [exact B |]. split; [exact C |]. split; [exact D |].
  destruct r as [[off written]|]; exact E.
Qed.
Print Assumptions C28_copy_within_allocation.

(* (7) the table never leaves the header: 24 + 16 * 4094 <= 65536, the count fits uint32 and every field uint64 *)
Theorem C28_table_fits_header :
  HEADER_FIXED + ENTRY_SIZE * MAX_ALLOCS <= HEADER_SIZE /\ MAX_ALLOCS < 2 ^ 32 /\ MAX_ALLOCS = 4094 /\
  forall total ops, HEADER_SIZE <= total -> total <= 2 ^ 64 ->
    Forall (fun e => fst e < 2 ^ 64 /\ snd e < 2 ^ 64) (run total ops).
Proof.
  destruct table_fits_header as (A & B & C).
  split; [exact A |]. split; [exact B |]. split; [exact C |].
  intros total ops H Hb. eapply Inv_fields_uint64; [apply Inv_run; exact H | exact Hb].
Qed.
Print Assumptions C28_table_fits_header.

(* ---- non-vacuity ---- *)
(* a 100-byte data region: allocate 40, 30, 20; free the middle one; 25 goes into the hole, 10 after it is
   refused into the 5-byte rest of the hole but fits at the end; a second free of the same offset fails *)
Example C28_run_ex :
  map (fun p => (result_code (fst p), snd p))
      (trace 65636 [] [OAlloc 40; OAlloc 30; OAlloc 20; OFree 65576; OAlloc 25; OAlloc 10; OFree 65576; OFree 65576; OAlloc 0])%Z
  = [((0, 65536), [(65536, 40)]);
     ((0, 65576), [(65536, 40); (65576, 30)]);
     ((0, 65606), [(65536, 40); (65576, 30); (65606, 20)]);
     ((3, 0), [(65536, 40); (65606, 20)]);
     ((0, 65576), [(65536, 40); (65576, 25); (65606, 20)]);
     ((0, 65626), [(65536, 40); (65576, 25); (65606, 20); (65626, 10)]);
     ((3, 0), [(65536, 40); (65606, 20); (65626, 10)]);
     ((2, 0), [(65536, 40); (65606, 20); (65626, 10)]);
     ((2, 0), [(65536, 40); (65606, 20); (65626, 10)])].
Proof. vm_compute. reflexivity. Qed.
(* fragmentation: 35 free bytes in total (30 + 5), but no gap of 31: None although the table is far from full *)
Example C28_none_ex : allocate 65636 [(65536, 40); (65606, 20); (65626, 5)] 31 = None.
Proof. vm_compute. reflexivity. Qed.
Example C28_some_ex : allocate 65636 [(65536, 40); (65606, 20); (65626, 5)] 30 = Some ([(65536, 40); (65576, 30); (65606, 20); (65626, 5)], 65576).
Proof. vm_compute. reflexivity. Qed.
(* a stream of 3 + 9 + 8 = 20 bytes against an estimate of 16: nothing past the 16 bytes is written, fallback,
   table as before; against an estimate of 20 it is accepted *)
Example C28_write_ex_fallback :
  run_write (65636, [(65552, 10)], 16, [3; 9; 8]) = ([(65552, 10)], None).
Proof. vm_compute. reflexivity. Qed.
Example C28_write_ex_ok :
  run_write (65636, [(65552, 10)], 20, [3; 9; 8]) = ([(65552, 10); (65562, 20)], Some (65562, 20)).
Proof. vm_compute. reflexivity. Qed.
