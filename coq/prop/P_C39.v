(* C39: introspection is faithful and the protocol hash is a stable identity.
   Statements only; every proof is in proof/L_Introspect.v (version-gate exemption: proof/L_Version.v).

   dv = DESCRIBE_VERSION.encode(), rv = REQUEST_VERSION (any values: tie/T_Introspect.v instantiates them
   with the ones regenerated from the source).  H = SHA-256 hex digest, an arbitrary function; where the
   statement needs "different payloads have different digests" it says [collision_free H].
   Side conditions (M_Introspect): [ident_ok] names contain neither 0x1e nor 0x1f (Python identifiers);
   [framed] a serialized schema is an encapsulated Arrow IPC message ff ff ff ff | int32 length | metadata. *)
From Coq Require Import String.
From Coq Require Import List NArith Bool.
From VGI Require Import Bytes M_Version L_Version M_Introspect L_Introspect.
Import ListNotations.
Open Scope N_scope.

(* ---- the hashed payload determines the protocol name and every row, field by field ---- *)
Theorem C39_payload_injective : forall dv rv pn1 rows1 pn2 rows2,
  free_of US pn1 -> free_of US pn2 -> Forall row_ok rows1 -> Forall row_ok rows2 ->
  payload dv rv pn1 rows1 = payload dv rv pn2 rows2 ->
  pn1 = pn2 /\ rows1 = rows2.
Proof. exact payload_injective. Qed.
Print Assumptions C39_payload_injective.

(* ---- "differs whenever any wire-relevant detail differs": equal hashes only for equal contracts.
   same_contract = same protocol name and the same set of
   (name, kind, has_return, params schema, result schema, has_header, header schema, is_exchange). ---- *)
Theorem C39_hash_differs_when_contract_differs : forall H dv rv a b,
  collision_free H -> service_ok a -> service_ok b ->
  advertised_hash H dv rv a = advertised_hash H dv rv b -> same_contract a b.
Proof. exact hash_equal_contract_equal. Qed.
Print Assumptions C39_hash_differs_when_contract_differs.

(* ---- "identical across processes, server ids, docstrings and defaults": the hash is a function of
   the contract alone -- not of the iteration order of the methods mapping, the server id, the declared
   protocol_version, docstrings, defaults, parameter type names or parameter docs. ---- *)
Theorem C39_hash_stable : forall H dv rv a b,
  NoDup (map m_name (s_methods a)) -> NoDup (map m_name (s_methods b)) ->
  same_contract a b -> advertised_hash H dv rv a = advertised_hash H dv rv b.
Proof. exact contract_equal_hash_equal. Qed.
Print Assumptions C39_hash_stable.

Theorem C39_hash_iff_contract : forall H dv rv a b,
  collision_free H -> service_ok a -> service_ok b ->
  (advertised_hash H dv rv a = advertised_hash H dv rv b <-> same_contract a b).
Proof. exact hash_iff_contract. Qed.
Print Assumptions C39_hash_iff_contract.

(* the fields a docstring / default / type-name / param-doc edit touches are not wire-relevant ... *)
Theorem C39_nonwire_fields : forall m doc defaults types pdocs,
  wire_of (MkInfo (m_name m) (m_kind m) (m_has_return m) (m_params m) (m_result m) (m_header m)
                  (m_is_exchange m) doc defaults types pdocs) = wire_of m.
Proof. exact nonwire_fields. Qed.
Print Assumptions C39_nonwire_fields.

(* ... and any per-method edit that leaves the wire part alone, together with any change of server id
   and of the declared protocol_version, leaves the hash alone (no hypothesis on H, none on names) *)
Theorem C39_insensitive_to_doc_default_server_id : forall H dv rv svc f sid pv,
  (forall m, wire_of (f m) = wire_of m) ->
  advertised_hash H dv rv (MkSvc (s_name svc) (map f (s_methods svc)) sid pv) = advertised_hash H dv rv svc.
Proof. exact hash_insensitive. Qed.
Print Assumptions C39_insensitive_to_doc_default_server_id.

(* ---- introspection is faithful: parsing the describe response of a service gives back its name,
   its server id, the versions, the hash, and exactly its methods (sorted by name) each with its
   kind, has_return, parameter and result schema, has_header, header schema and exchange flag ---- *)
Theorem C39_describe_faithful : forall H dv rv svc,
  NoDup (map m_name (s_methods svc)) ->
  exists sd,
    parse_describe (build_describe H dv rv svc) = Some sd /\
    sd_protocol_name sd = s_name svc /\
    sd_request_version sd = rv /\ sd_describe_version sd = dv /\
    sd_protocol_hash sd = advertised_hash H dv rv svc /\
    sd_server_id sd = s_server_id svc /\
    sd_protocol_version sd = match s_protocol_version svc with Some v => v | None => [] end /\
    sd_methods sd = map (fun m => (m_name m, desc_of m)) (sort_by_name (s_methods svc)).
Proof. exact describe_faithful. Qed.
Print Assumptions C39_describe_faithful.

(* ... as a lookup: a name is described iff the service has that method, and then by its description *)
Theorem C39_describe_exactly_the_methods : forall H dv rv svc sd,
  NoDup (map m_name (s_methods svc)) ->
  parse_describe (build_describe H dv rv svc) = Some sd ->
  forall n d, dict_get (sd_methods sd) n = Some d <->
              exists m, In m (s_methods svc) /\ m_name m = n /\ d = desc_of m.
Proof. exact describe_lookup. Qed.
Print Assumptions C39_describe_exactly_the_methods.

(* ---- __describe__ stays callable under a protocol-version mismatch: whatever version the Protocol
   declares and whatever (absent, malformed, older, newer) version the client sent, the call is answered
   with the describe response.  The gate exemption itself is C09_describe_exempt (L_Version.gate_describe). ---- *)
Theorem C39_describe_callable_under_mismatch : forall H dv rv svc declared md,
  describe_call H dv rv svc declared md = Some (build_describe H dv rv svc).
Proof. exact describe_callable. Qed.
Print Assumptions C39_describe_callable_under_mismatch.

(* ---- non-vacuity ---- *)
Definition ex_blob1 : bytes := frame [16; 0; 0; 0; 0; 0; 10; 0].
Definition ex_blob2 : bytes := frame [16; 0; 0; 0; 0; 0; 10; 1].
Definition ex_m1 : minfo :=
  MkInfo (B "add") Unary true ex_blob1 ex_blob2 None None (Some (B "Add.")) [(B "b", B "1")] [] [].
Definition ex_m2 : minfo := MkInfo (B "gen") Stream false ex_blob1 ex_blob1 (Some ex_blob2) (Some false) None [] [] [].
Definition ex_svc : service := MkSvc (B "Calc") [ex_m2; ex_m1] (B "srv-1") (Some (B "1.2.3")).
Example C39_ex_service_ok : service_ok ex_svc.
Proof. exact ex_service_ok. Qed.
(* rows are sorted by name: add before gen *)
Example C39_ex_rows : map r_name (build_rows (s_methods ex_svc)) = [B "add"; B "gen"].
Proof. vm_compute; reflexivity. Qed.
(* changing a schema byte changes the payload; changing the doc, the default and the server id does not *)
Example C39_ex_sensitive :
  run_pair ([52], [49], ex_svc,
            MkSvc (B "Calc") [ex_m2; MkInfo (B "add") Unary true ex_blob2 ex_blob2 None None None [] [] []] (B "srv-1") None) = false.
Proof. vm_compute; reflexivity. Qed.
Example C39_ex_insensitive :
  run_pair ([52], [49], ex_svc,
            MkSvc (B "Calc") [MkInfo (B "add") Unary true ex_blob1 ex_blob2 None None None [] [] []; ex_m2] (B "other") None) = true.
Proof. vm_compute; reflexivity. Qed.
(* a client two majors behind still gets the description of a server declaring 3.0.0 *)
Example C39_ex_mismatch : run_describe_call (Some (3, 0, 0), Some [49; 46; 50; 46; 57]) = true.
Proof. vm_compute; reflexivity. Qed.
