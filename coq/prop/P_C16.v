(* C16: HTTP response size caps are enforced.  Statements only; every proof is in proof/L_RespCaps.v.

   Model: model/M_RespCaps.v -- run_ue (unary result / exchange turn) and prod_turn (one producer HTTP turn) over
   abstract sizes.  `uploaded r` = bytes received by storage whatever the outcome; `is_error r` = an RPC error
   response is returned instead of the result.  Reading (DESIGN Appendix E): the caps bind successful bodies; the
   replacement error response is not measured. *)
From Coq Require Import List NArith Bool.
From VGI Require Import M_RespCaps L_RespCaps.
Import ListNotations.
Open Scope N_scope.

(* (1a) for every result size, base, cap configuration, threshold and path: a successful unary / exchange response is
   the flushed body and never exceeds max_response_bytes; every other outcome is an RPC error response *)
Theorem C16_unary_exchange_body_le_cap_or_error : forall p c raises base f,
  match run_ue p c raises base f with
  | UEOk body ups => body = base + flush_body p c f /\ (forall m, wire_cap c = Some m -> body <= m)
  | UEErrPre | UEErrPost _ _ | UEErrUser => True
  end.
Proof. exact ue_body_le_cap. Qed.
Print Assumptions C16_unary_exchange_body_le_cap_or_error.

(* (1b) an oversize result becomes an RPC error: the post-flush wire refusal, unless the external pre-flight refused first *)
Theorem C16_oversize_result_becomes_error : forall p c base f m,
  wire_cap c = Some m -> m < base + flush_body p c f ->
  (forall raises, is_error (run_ue p c raises base f))
  /\ (run_ue p c false base f = UEErrPre \/ run_ue p c false base f = UEErrPost true (flush_ups p c f)).
Proof.
  intros p c base f m Hm Hlt. split.
  - intros raises. exact (ue_oversize_is_error p c raises base f m Hm Hlt).
  - exact (ue_oversize_which p c base f m Hm Hlt).
Qed.
Print Assumptions C16_oversize_result_becomes_error.

(* (2a) whatever the pre-flight predicts: the uploads of a SUCCESSFUL unary / exchange response are within
   max_externalized_response_bytes (the post-flush backstop) *)
Theorem C16_external_le_cap_on_success_unary_exchange : forall p c raises base f body ups m,
  run_ue p c raises base f = UEOk body ups -> ext_cap c = Some m -> sumN ups <= m.
Proof. exact ue_ok_uploads_le_cap. Qed.
Print Assumptions C16_external_le_cap_on_success_unary_exchange.

(* (2b) FULL statement, for a pre-flight that predicts the uploaded stream (pmode = PFramed, i.e. the source with
   fixes/C16-predict-framed-upload-size.diff): in every outcome storage received at most the cap, an overshoot is refused
   BEFORE the upload, and the only post-flush refusal left is the wire one *)
Theorem C16_external_le_cap_or_refused_before_upload : forall p c base f m,
  pmode c = PFramed -> ext_cap c = Some m ->
  (forall raises, uploaded (run_ue p c raises base f) <= m)
  /\ (m < sumN (flush_ups p c f) -> run_ue p c false base f = UEErrPre)
  /\ (forall raises w ups, run_ue p c raises base f = UEErrPost w ups -> w = true).
Proof.
  intros p c base f m Hp Hm. split; [|split].
  - intros raises. exact (ue_framed_uploaded_le_cap p c raises base f m Hp Hm).
  - exact (ue_framed_overshoot_refused_before_upload p c base f m Hp Hm).
  - intros raises w ups. exact (ue_framed_post_refusal_is_wire p c raises base f w ups Hp).
Qed.
Print Assumptions C16_external_le_cap_or_refused_before_upload.

(* (2c) _partial: what holds for the logical-size prediction (pmode = PLogical, the unrepaired source).  Either storage
   received at most the cap, or the case is exactly the excluded class: externalisation fires, logical <= cap < uploaded,
   and the refusal arrives after the upload (R_C16.C16_refused_before_upload_refuted); the overshoot is at most the
   framing gap; a result whose LOGICAL size is over the cap is refused before the upload *)
Theorem C16_external_partial_logical_prediction : forall p c base f m,
  pmode c = PLogical -> ext_cap c = Some m ->
  (forall raises, uploaded (run_ue p c raises base f) <= m
     \/ (fires p c f = true /\ f_logical f <= m /\ m < f_up f /\ exists w, run_ue p c raises base f = UEErrPost w [f_up f]))
  /\ (forall raises, uploaded (run_ue p c raises base f) <= m + (f_up f - f_logical f))
  /\ (fires p c f = true -> m < f_logical f -> run_ue p c false base f = UEErrPre).
Proof.
  intros p c base f m Hp Hm. split; [|split].
  - intros raises. exact (ue_logical_classes p c raises base f m Hp Hm).
  - intros raises. exact (ue_logical_uploaded_le_cap_plus_gap p c raises base f m Hp Hm).
  - exact (ue_logical_over_refused_before_upload p c base f m Hp Hm).
Qed.
Print Assumptions C16_external_partial_logical_prediction.

(* (3a) FULL statement (PFramed): a producer turn -- any tick sequence, any sizes, finishing, continuing, refused or
   failing -- never has storage receive more than the external cap *)
Theorem C16_producer_external_le_cap : forall c pre steps m,
  pmode c = PFramed -> ext_cap c = Some m -> sumN (t_ups (prod_turn c pre steps)) <= m.
Proof. exact prod_turn_framed_ups. Qed.
Print Assumptions C16_producer_external_le_cap.

(* (3b) _partial (PLogical): excluded class = batches of logical size 0 (never refused: `if predicted and ...`); for the
   rest the turn passes the external cap by at most the largest framing gap (uploaded - logical) of a flush *)
Theorem C16_producer_external_partial_logical_prediction : forall c pre steps m,
  pmode c = PLogical -> ext_cap c = Some m -> Forall (fun s => 0 < f_logical (ps_flush s)) steps ->
  sumN (t_ups (prod_turn c pre steps)) <= m + maxgap steps.
Proof. exact prod_turn_logical_ups. Qed.
Print Assumptions C16_producer_external_partial_logical_prediction.

(* (3c) a producer turn exceeds the wire cap by at most its last flush: the buffer position after the last flush is
   the position before it plus that flush, and the position before it is below the cap (or the turn's first flush:
   only the schema / init logs precede it).  The same bound over the full HTTP producer model (tokens, resumption,
   codecs) is property C11's C11_overshoot_le_last. *)
Theorem C16_producer_overshoot : forall c pre steps m,
  wire_cap c = Some m ->
  let t := prod_turn c pre steps in
  t_pos t = t_before t + t_last t /\ (t_before t = pre \/ t_before t < m).
Proof. exact prod_turn_overshoot. Qed.
Print Assumptions C16_producer_overshoot.

(* ---- non-vacuity (sizes measured on the real app: 5000-byte result, logical 5008, uploaded stream 5296,
        inline batch 5168, pointer batch 376, base 128) ---- *)
Definition ex_f : flush := mkFlush true false 5008 5296 5168 376.
Example C16_ex_ok_inline : run_ue Unary (mkCfg (Some 5296) (Some 10) false 0 PLogical) false 128 ex_f = UEOk 5296 [].
Proof. vm_compute; reflexivity. Qed.
Example C16_ex_wire_refusal : run_ue Unary (mkCfg (Some 5295) None false 0 PLogical) false 128 ex_f = UEErrPost true [].
Proof. vm_compute; reflexivity. Qed.
Example C16_ex_ok_external : run_ue Unary (mkCfg (Some 504) (Some 5296) true 0 PFramed) false 128 ex_f = UEOk 504 [5296].
Proof. vm_compute; reflexivity. Qed.
Example C16_ex_framed_refusal : run_ue Unary (mkCfg None (Some 5295) true 0 PFramed) false 128 ex_f = UEErrPre.
Proof. vm_compute; reflexivity. Qed.
Example C16_ex_producer_two_ticks_then_token :
  let t := prod_turn (mkCfg (Some 600) (Some 1872) true 0 PFramed) 120
             [mkStep false (mkFlush true false 308 936 472 376) false; mkStep false (mkFlush true false 308 936 472 376) false;
              mkStep false (mkFlush true false 308 936 472 376) false] in
  (t_end t, t_pos t, t_before t, t_ups t) = (PCont, 872, 496, [936; 936]).
Proof. vm_compute; reflexivity. Qed.
Example C16_ex_partial_hyp : Forall (fun s => 0 < f_logical (ps_flush s)) [mkStep false ex_f false].
Proof. constructor; [vm_compute; reflexivity|constructor]. Qed.
