(* C42: the serve-start hook runs exactly once per binding.  Statements only; proofs are in proof/L_ServeStart*.v.

   Reading the statements: `run guard hookf cfg sched` is the state of the model (model/M_ServeStart.v) after the
   threads `cfg` (each a list of jobs: an HTTP request, or a serve() call over some transport class with a number
   of dispatches) took the steps named by `sched` (ANY list of thread ids), with pre-check `guard` and a hook whose
   n-th invocation with kind k returns iff `hookf n k`.  `strace` is NEWEST FIRST: in `post ++ e :: pre`, `pre` is
   what happened before e and `post` what happened after.  `guard_sound` is the one fact needed of the middleware's
   pre-check; tie/T_ServeStart.v proves it of the expression regenerated from the source. *)
From Coq Require Import List NArith Bool Arith.
From VGI Require Import M_ServeStart L_ServeStart L_ServeStartPhase.
Import ListNotations.

(* (1) Once per binding, at the level of the hook/commit log, for every pre-check, hook, thread set and schedule:
       the log is produced by the grammar `hclog` (model file): a hook call for b only while b is not the recorded
       binding; a raising call records nothing; a returning call is followed immediately by the commit of b by the
       same thread, which makes b the recorded binding. *)
Theorem C42_hook_log_grammar : forall guard hookf cfg sched,
  let s := run guard hookf cfg sched in
  exists pend, hclog (filter is_hc (strace s)) (last_commit (strace s)) pend.
Proof. intros. exists (pending s). apply (I_H s). apply run_Inv. Qed.
Print Assumptions C42_hook_log_grammar.

(* ... spelled out: a binding is recorded only directly after its own hook call returned, in the same thread *)
Theorem C42_commit_right_after_its_hook : forall guard hookf cfg sched post t b pre,
  filter is_hc (strace (run guard hookf cfg sched)) = post ++ ECommit t b :: pre ->
  exists pre', pre = EHook t b true :: pre'.
Proof.
  intros guard hookf cfg sched post t b pre E.
  eapply hclog_commit_prev; [apply (I_H _ (run_Inv guard hookf cfg sched)) | exact E].
Qed.
Print Assumptions C42_commit_right_after_its_hook.

(* ... a returning hook call is the last logged event or is directly followed by its commit (so: one call per commit) *)
Theorem C42_returning_hook_followed_by_commit : forall guard hookf cfg sched post t b pre,
  filter is_hc (strace (run guard hookf cfg sched)) = post ++ EHook t b true :: pre ->
  post = [] \/ exists post', post = post' ++ [ECommit t b].
Proof.
  intros guard hookf cfg sched post t b pre E.
  eapply hclog_after_ok; [apply (I_H _ (run_Inv guard hookf cfg sched)) | exact E].
Qed.
Print Assumptions C42_returning_hook_followed_by_commit.

(* ... the hook is never called (again) for the binding that is recorded: at most once per binding period *)
Theorem C42_no_hook_while_bound : forall guard hookf cfg sched post t b ok pre,
  filter is_hc (strace (run guard hookf cfg sched)) = post ++ EHook t b ok :: pre ->
  last_commit pre <> Some b.
Proof.
  intros guard hookf cfg sched post t b ok pre E.
  eapply hclog_hook_unbound; [apply (I_H _ (run_Inv guard hookf cfg sched)) | exact E].
Qed.
Print Assumptions C42_no_hook_while_bound.

(* (2) Before any dispatch: every dispatched method sees a kind (never None), it is the kind of the binding committed
       most recently, and the hook call for that binding returned earlier.  All schedules, all mixes of kinds. *)
Theorem C42_dispatch_after_hook : forall guard hookf, guard_sound guard -> forall cfg sched post t v seen pre,
  strace (run guard hookf cfg sched) = post ++ EDisp t v seen :: pre ->
  exists k c t', seen = Some k /\ last_commit pre = Some (k, c) /\ In (EHook t' (k, c) true) pre.
Proof.
  intros guard hookf Hg. apply dispatch_after_hook.
  destruct (guard None) eqn:E; [reflexivity|]. apply Hg in E. discriminate.
Qed.
Print Assumptions C42_dispatch_after_hook.

(* (3) One kind at a time (a phase): from ANY reachable quiescent state -- whatever happened before, e.g. other kinds
       were bound -- if all requests still to come have binding b, then under every schedule: the hook returns at most
       once and is only called for b; every method is dispatched with ctx.kind = kind of b; if b was already recorded
       the hook is not called at all, otherwise nothing is dispatched before a hook call for b has returned. *)
Theorem C42_phase_once_and_own_binding : forall guard hookf, guard_sound guard -> forall cfg sched1 sched2 b,
  let s0 := run guard hookf cfg sched1 in
  quiescent s0 -> all_jobs_bind s0 b ->
  exists ext, strace (run_from guard hookf s0 sched2) = ext ++ strace s0 /\
    length (filter is_hook_ok ext) <= 1 /\
    (forall e, In e ext -> is_hook e = true -> exists t ok, e = EHook t b ok) /\
    (forall t v seen, In (EDisp t v seen) ext -> seen = Some (fst b)) /\
    (recorded s0 = Some b -> filter is_hook ext = []) /\
    (recorded s0 <> Some b -> forall post t v seen pre, ext = post ++ EDisp t v seen :: pre -> exists t', In (EHook t' b true) pre).
Proof. exact phase_once_and_own_binding. Qed.
Print Assumptions C42_phase_once_and_own_binding.

(* ... the case of the statement's first sentence: any number of concurrent first requests of one binding *)
Theorem C42_concurrent_first_requests : forall guard hookf, guard_sound guard -> forall cfg b sched,
  (forall jobs j, In jobs cfg -> In j jobs -> job_binding j = b) ->
  let tr := strace (run guard hookf cfg sched) in
  length (filter is_hook_ok tr) <= 1 /\
  (forall e, In e tr -> is_hook e = true -> exists t ok, e = EHook t b ok) /\
  (forall t v seen, In (EDisp t v seen) tr -> seen = Some (fst b)) /\
  (forall post t v seen pre, tr = post ++ EDisp t v seen :: pre -> exists t', In (EHook t' b true) pre).
Proof.
  intros guard hookf Hg cfg b sched Hall tr.
  assert (Hq : quiescent (run guard hookf cfg [])).
  { split; [reflexivity|]. intro t. unfold run, init; simpl.
    destruct (nth_error cfg t) as [[|j r]|]; simpl; auto. }
  assert (Ha : all_jobs_bind (run guard hookf cfg []) b).
  { intros t j. unfold run, init; simpl. destruct (nth_error cfg t) as [jobs|] eqn:E; simpl; [|contradiction].
    intro Hj. eapply Hall; [eapply nth_error_In; exact E | exact Hj]. }
  destruct (phase_once_and_own_binding guard hookf Hg cfg [] sched b Hq Ha) as [ext (E & H1 & H2 & H3 & _ & H5)].
  change (run_from guard hookf (run guard hookf cfg []) sched) with (run guard hookf cfg sched) in E.
  simpl in E. rewrite app_nil_r in E. unfold tr. rewrite E.
  repeat split; try assumption. apply H5. discriminate.
Qed.
Print Assumptions C42_concurrent_first_requests.

(* (4) If the hook raises: the thread leaves _notify_transport (step at PRel false) with the failure, the recorded
       binding is exactly what it was and is not the failing request's binding; and any request of that binding that
       stands at its pre-check or waits for the lock calls the hook again within its next 4 (3) own steps. *)
Theorem C42_raise_not_recorded_and_retried : forall guard hookf, guard_sound guard -> forall cfg sched t j rest,
  let s := run guard hookf cfg sched in
  tjobs (sthreads s t) = j :: rest -> tpc (sthreads s t) = PRel false ->
  let s' := step guard hookf s t in
  strace s' = EFail t (job_binding j) :: strace s /\ slock s' = None /\
  recorded s' = recorded s /\ recorded s' <> Some (job_binding j) /\
  forall t' j' rest', tjobs (sthreads s' t') = j' :: rest' -> (tpc (sthreads s' t') = PPre \/ tpc (sthreads s' t') = PAcq) ->
    job_binding j' = job_binding j ->
    strace (run_from guard hookf s' (repeat t' (match tpc (sthreads s' t') with PPre => 4 | _ => 3 end)))
    = EHook t' (job_binding j) (hookf (snhook s') (fst (job_binding j))) :: strace s'.
Proof. exact raise_not_recorded_and_retried. Qed.
Print Assumptions C42_raise_not_recorded_and_retried.

(* (5) Rebinding: in any reachable state with the lock free, a request whose binding differs from the recorded one
       (another kind, other capabilities, or nothing recorded) and that stands at its pre-check / lock acquisition
       calls the hook within its next 4 (3) own steps.  With (1): if the call returns, its binding is committed next;
       with (3): the requests of that kind are then dispatched under it. *)
Theorem C42_rebind_refires : forall guard hookf, guard_sound guard -> forall cfg sched t j rest,
  let s := run guard hookf cfg sched in
  slock s = None ->
  tjobs (sthreads s t) = j :: rest -> (tpc (sthreads s t) = PPre \/ tpc (sthreads s t) = PAcq) ->
  recorded s <> Some (job_binding j) ->
  strace (run_from guard hookf s (repeat t (match tpc (sthreads s t) with PPre => 4 | _ => 3 end)))
  = EHook t (job_binding j) (hookf (snhook s) (fst (job_binding j))) :: strace s.
Proof.
  intros guard hookf Hg cfg sched t j rest s Hl Ej Ep Hr.
  apply (entry_fires guard hookf Hg s t j rest); try assumption. apply run_Inv.
Qed.
Print Assumptions C42_rebind_refires.

(* the repaired pre-check satisfies the hypothesis, the shipped `is None` pre-check does not *)
Lemma guard_not_http_sound : guard_sound guard_not_http.
Proof. intros [[]|]; simpl; intro H; try discriminate; reflexivity. Qed.
Lemma guard_is_none_unsound : ~ guard_sound guard_is_none.
Proof. intro H. specialize (H (Some KPipe) eq_refl). discriminate. Qed.

(* ---- non-vacuity ---------------------------------------------------------------------------------- *)
Definition ex_http : job := {| jvia := VHttp; jn := 1 |}.
Definition ex_pipe : job := {| jvia := VServe TPipe; jn := 1 |}.
Definition ex_ok : nat -> kind -> bool := fun _ _ => true.
Definition ex_raise_once : nat -> kind -> bool := fun n _ => negb (Nat.eqb n 0).

(* HTTP -> PIPE -> HTTP on one server, repaired pre-check: the third phase re-fires the hook and dispatches under http *)
Example C42_ex_rebind :
  trace_of (run guard_not_http ex_ok [[ex_http]; [ex_pipe]; [ex_http]] (repeat 0 8 ++ repeat 1 7 ++ repeat 2 8))
  = [EHook 0 (KHttp, false) true; ECommit 0 (KHttp, false); EDisp 0 VHttp (Some KHttp);
     EHook 1 (KPipe, false) true; ECommit 1 (KPipe, false); EDisp 1 (VServe TPipe) (Some KPipe);
     EHook 2 (KHttp, false) true; ECommit 2 (KHttp, false); EDisp 2 VHttp (Some KHttp)].
Proof. vm_compute. reflexivity. Qed.
(* the state between the phases is quiescent and only HTTP requests remain: hypotheses of (3) are met *)
Example C42_ex_phase_hyps :
  let s0 := run guard_not_http ex_ok [[ex_http]; [ex_pipe]; [ex_http]] (repeat 0 8 ++ repeat 1 7) in
  quiescent s0 /\ all_jobs_bind s0 http_binding /\ recorded s0 = Some (KPipe, false).
Proof.
  split; [|split].
  - split; [vm_compute; reflexivity|]. intros [|[|[|t]]]; vm_compute; auto. destruct t; exact I.
  - intros [|[|[|t]]] j; vm_compute; try tauto.
    + intros [<-|[]]. reflexivity.
    + destruct t; intros [].
  - vm_compute. reflexivity.
Qed.
(* three concurrent first requests, the first hook call raises: thread 1 waits for the lock, then calls the hook again;
   one returning call, every dispatch after it *)
Example C42_ex_raise_once :
  trace_of (run guard_not_http ex_raise_once [[ex_http]; [ex_http]; [ex_http]]
                [0; 1; 2; 0; 1; 0; 0; 1; 0; 1; 1; 1; 2; 1; 1; 1; 2; 2; 1; 2; 2])
  = [EHook 0 (KHttp, false) false; EFail 0 (KHttp, false); EHook 1 (KHttp, false) true; ECommit 1 (KHttp, false);
     EDisp 1 VHttp (Some KHttp); EDisp 2 VHttp (Some KHttp)].
Proof. vm_compute. reflexivity. Qed.
(* a thread that stands at PRel false exists (hypothesis of (4)) *)
Example C42_ex_retry_hyp :
  let s := run guard_not_http ex_raise_once [[ex_http]; [ex_http]] [0; 1; 0; 0; 0] in
  tpc (sthreads s 0) = PRel false /\ tpc (sthreads s 1) = PAcq.
Proof. vm_compute. split; reflexivity. Qed.
