(* C12: stream state tokens are unforgeable, identity-bound and opaque.  Statements only; proofs are in
   proof/L_Token.v (layouts, parsers) and proof/L_TokenServe.v (exchange path over an ideal AEAD).

   How the cryptography enters: normalize_key (SHA-256), the AEAD and zstd are universally quantified functions.
   [minted] is the log of what the holders of the server's key sealed; [request_unforged cfg q] says of the
   ciphertexts presented in q: if one opens under the server's key and this caller's AAD, then a key holder
   sealed exactly it under exactly that AAD (ciphertext integrity, as an inversion principle).  Confidentiality
   ("token bytes never reveal the state plaintext") is a property of the cipher and is not a theorem here. *)
From Coq Require Import List NArith ZArith Bool.
From VGI Require Import Bytes Layout M_Token L_Token L_TokenServe.
From VGI Require L_Base64Strict.
Import ListNotations.
Open Scope N_scope.

(* ---- identity binding: the AAD determines token kind and (domain, principal); side condition: NUL-free domain ---- *)
Theorem C12_aad_injective : forall k1 k2 i1 i2,
  ident_ok i1 -> ident_ok i2 -> compute_aad k1 i1 = compute_aad k2 i2 -> k1 = k2 /\ i1 = i2.
Proof. exact aad_injective. Qed.
Print Assumptions C12_aad_injective.

(* a cursor AAD is never a call AAD, whatever the identities contain *)
Theorem C12_cursor_call_not_interchangeable : forall i1 i2, compute_aad KCursor i1 <> compute_aad KCall i2.
Proof. exact cursor_call_aad_disjoint. Qed.
Print Assumptions C12_cursor_call_not_interchangeable.

(* ---- totality: no byte string makes the plaintext parsers or the exchange path fault (no 500) ---- *)
Theorem C12_layout_total :
  (forall pl, parse_cursor pl <> Crash /\ parse_call pl <> Crash) /\
  (forall nk ao zd cfg now1 now2 cache q, exchange nk ao zd cfg now1 now2 cache q <> Crashed).
Proof. split; [exact parse_no_crash | exact exchange_no_crash]. Qed.
Print Assumptions C12_layout_total.

(* ... and they accept exactly the encodings of the layouts: nothing shorter, nothing longer, nothing overlapping *)
Theorem C12_parse_cursor_exact : forall pl st cid,
  bytes_ok pl = true ->
  (parse_cursor pl = Ok (st, cid) <-> exists c, wf_cursor c cid st /\ pl = cursor_plaintext c cid st).
Proof. exact parse_cursor_exact. Qed.
Print Assumptions C12_parse_cursor_exact.

Theorem C12_parse_call_exact : forall pl f,
  bytes_ok pl = true ->
  (parse_call pl = Ok f <->
   exists c, wf_call c (f_call_id f) (f_call_state f) (f_type f) (f_schema f) (f_ischema f) (f_stream_id f) /\
             pl = call_plaintext c (f_call_id f) (f_call_state f) (f_type f) (f_schema f) (f_ischema f) (f_stream_id f)).
Proof. exact parse_call_exact. Qed.
Print Assumptions C12_parse_call_exact.

(* ---- served => the cursor token is the (decoded) envelope a key holder sealed, as a cursor, for THIS caller,
        carrying exactly the state and call id that are used, and it is not older than the TTL ---- *)
Theorem C12_cursor_served_only_if_minted :
  forall normalize_key aead_seal aead_open zstd_compress zstd_decompress (minted : mint -> Prop)
         cfg now1 now2 cache q st cid fc call,
  zstd_sound zstd_compress zstd_decompress ->
  (forall e, minted e -> mint_wf e) ->
  ident_ok (q_ident q) ->
  request_unforged normalize_key aead_seal aead_open zstd_compress minted cfg q ->
  exchange normalize_key aead_open zstd_decompress cfg now1 now2 cache q = Served st cid fc call ->
  exists txt raw created nonce,
    q_cursor q = Some txt /\ decode_token (c_canonical cfg) txt = Some raw /\
    minted (MintCursor (q_ident q) created cid st nonce) /\
    raw = seal_bytes normalize_key aead_seal (pack_plaintext zstd_compress (cursor_plaintext created cid st))
                     (c_key cfg) (compute_aad KCursor (q_ident q)) CURSOR_TOKEN_VERSION nonce /\
    (c_ttl cfg <= 0 \/ now1 - Z.of_N created <= c_ttl cfg)%Z.
Proof. exact served_cursor_minted. Qed.
Print Assumptions C12_cursor_served_only_if_minted.

(* ---- ... and when the call-state cache does not answer (from_cache = false), the same for the call token, which
        moreover names the stream the cursor names.  What a cache hit does is property C14. ---- *)
Theorem C12_call_served_only_if_minted_cold :
  forall normalize_key aead_seal aead_open zstd_compress zstd_decompress (minted : mint -> Prop)
         cfg now1 now2 cache q st cid call,
  zstd_sound zstd_compress zstd_decompress ->
  (forall e, minted e -> mint_wf e) ->
  ident_ok (q_ident q) ->
  request_unforged normalize_key aead_seal aead_open zstd_compress minted cfg q ->
  exchange normalize_key aead_open zstd_decompress cfg now1 now2 cache q = Served st cid false call ->
  exists f txt raw created nonce,
    call = Some f /\ f_call_id f = cid /\
    q_call q = Some txt /\ decode_token (c_canonical cfg) txt = Some raw /\
    minted (MintCall (q_ident q) created cid (f_call_state f) (f_type f) (f_schema f) (f_ischema f) (f_stream_id f) nonce) /\
    raw = seal_bytes normalize_key aead_seal
            (pack_plaintext zstd_compress
               (call_plaintext created cid (f_call_state f) (f_type f) (f_schema f) (f_ischema f) (f_stream_id f)))
            (c_key cfg) (compute_aad KCall (q_ident q)) CALL_TOKEN_VERSION nonce /\
    (c_ttl cfg <= 0 \/ now2 - Z.of_N created <= c_ttl cfg)%Z.
Proof. exact served_call_minted_cold. Qed.
Print Assumptions C12_call_served_only_if_minted_cold.

(* ---- a rejected request deserializes nothing and runs no hook; a served one runs them in this order ---- *)
Theorem C12_reject_before_hooks : forall nk ao zd cfg now1 now2 cache q,
  (forall m, exchange nk ao zd cfg now1 now2 cache q = Rejected m -> hooks q (Rejected m) = []) /\
  (forall st cid fc call, exchange nk ao zd cfg now1 now2 cache q = Served st cid fc call ->
     exists pre, hooks q (Served st cid fc call)
                 = pre ++ [EvDeserializeState; EvBind; EvRehydrate; if q_cancel q then EvOnCancel else EvProcess]
                 /\ (pre = [] \/ pre = [EvDeserializeCall])).
Proof. exact reject_before_hooks. Qed.
Print Assumptions C12_reject_before_hooks.

(* ---- every rejection is HTTP 400 ... ---- *)
Theorem C12_uniform_400 : forall nk ao zd cfg now1 now2 cache q m,
  exchange nk ao zd cfg now1 now2 cache q = Rejected m -> http_status (Rejected m) = 400.
Proof. exact uniform_400. Qed.
Print Assumptions C12_uniform_400.

(* ---- ... with one of these messages (per token kind: malformed, signature, payload, expired) ---- *)
Theorem C12_reject_classes : forall nk ao zd cfg now1 now2 cache q m,
  exchange nk ao zd cfg now1 now2 cache q = Rejected m ->
  In m [MMissingCursor; MMissingCall; MMismatch;
        MMalformed KCursor; MSig KCursor; MPayload; MExpired KCursor;
        MMalformed KCall; MSig KCall; MPayload; MExpired KCall].
Proof. exact reject_classes. Qed.
Print Assumptions C12_reject_classes.

(* ---- ... and every way an envelope can fail authentication -- too short, other version byte, and anything the
        cipher refuses: foreign key, other identity or kind in the AAD, modified nonce / ciphertext / tag --
        produces the same message, so the reply does not tell which one it was ---- *)
Theorem C12_auth_failures_indistinguishable : forall nk ao zd cfg k i txt raw,
  decode_token (c_canonical cfg) txt = Some raw ->
  (blen raw < MIN_TOKEN_LEN \/ hd 256 raw <> token_version k \/
   ao (nk (c_key cfg)) (compute_aad k i) (firstn 24 (tl raw)) (skipn 24 (tl raw)) = None) ->
  open_payload nk ao zd cfg k i txt = Rej (MSig k).
Proof.
  intros nk ao zd cfg k i txt raw Hd Hc.
  apply (auth_failures_indistinguishable nk ao zd cfg k i txt raw Hd).
  apply auth_failure_causes. exact Hc.
Qed.
Print Assumptions C12_auth_failures_indistinguishable.

(* ---- with the canonical armour check in the source (tie/T_Token.v: armour_tie), the only text that opens to an
        envelope is its canonical base64 text: re-encodings of a minted token are refused ---- *)
Theorem C12_served_text_is_canonical : forall txt raw, decode_token true txt = Some raw -> txt = b64encode raw.
Proof. exact served_text_canonical. Qed.
Print Assumptions C12_served_text_is_canonical.

(* ---- ... and conversely, for byte-string envelopes, the canonical text IS accepted: under the canonical check the
        texts that open to [raw] are exactly { b64encode raw } ---- *)
Theorem C12_canonical_texts_exactly_encodings : forall txt raw,
  bytes_ok raw = true -> (decode_token true txt = Some raw <-> txt = b64encode raw).
Proof. exact L_Base64Strict.decode_token_canonical_iff. Qed.
Print Assumptions C12_canonical_texts_exactly_encodings.

(* ---- the armour loses nothing: for EVERY envelope (byte string of any length) strict base64 decoding of its
        encoding gives it back, [decode_token] accepts the encoding with and without the canonical-text check, and so
        the text either mint produces opens -- under the server's own armour mode -- to exactly the envelope that was
        armoured.  (proof/L_Base64Strict.v; the premise is what the AEAD and os.urandom return: bytes) ---- *)
Theorem C12_armour_roundtrip :
  (forall raw, bytes_ok raw = true -> b64decode (b64encode raw) = Some raw) /\
  (forall canonical raw, bytes_ok raw = true -> decode_token canonical (b64encode raw) = Some raw) /\
  (forall normalize_key aead_seal zstd_compress cfg i created call_id state nonce,
     let env := seal_bytes normalize_key aead_seal (pack_plaintext zstd_compress (cursor_plaintext created call_id state))
                           (c_key cfg) (compute_aad KCursor i) CURSOR_TOKEN_VERSION nonce in
     bytes_ok env = true ->
     decode_token (c_canonical cfg)
       (seal_cursor_token normalize_key aead_seal zstd_compress cfg i created call_id state nonce) = Some env) /\
  (forall normalize_key aead_seal zstd_compress cfg i created call_id cs ty sch isch sid nonce,
     let env := seal_bytes normalize_key aead_seal
                           (pack_plaintext zstd_compress (call_plaintext created call_id cs ty sch isch sid))
                           (c_key cfg) (compute_aad KCall i) CALL_TOKEN_VERSION nonce in
     bytes_ok env = true ->
     decode_token (c_canonical cfg)
       (seal_call_token normalize_key aead_seal zstd_compress cfg i created call_id cs ty sch isch sid nonce) = Some env).
Proof. exact L_Base64Strict.armour_roundtrip. Qed.
Print Assumptions C12_armour_roundtrip.
(* the premise is met: a 26-byte envelope with high bytes, all three tail lengths *)
Example C12_ex_armour : bytes_ok (5 :: repeat 255 24 ++ [200]) = true /\
                        decode_token true (b64encode (5 :: repeat 255 24 ++ [200])) = Some (5 :: repeat 255 24 ++ [200]) /\
                        decode_token true (b64encode [5; 255]) = Some [5; 255] /\
                        decode_token true (b64encode [5; 255; 0]) = Some [5; 255; 0].
Proof. vm_compute. repeat split; reflexivity. Qed.

(* ---- "a server holding the same key": crypto.normalize_key (32 bytes: as is; otherwise SHA-256) sends distinct operator
        keys to distinct AEAD keys, except a key and its own 32-byte digest -- under collision-freeness of the hash ---- *)
Theorem C12_normalize_key_injective : forall (sha256 : bytes -> bytes) k1 k2,
  (forall x y, sha256 x = sha256 y -> x = y) ->
  normalize_key_with sha256 k1 = normalize_key_with sha256 k2 ->
  k1 = k2 \/ (blen k1 = KEY_LEN /\ blen k2 <> KEY_LEN /\ k1 = sha256 k2)
          \/ (blen k2 = KEY_LEN /\ blen k1 <> KEY_LEN /\ k2 = sha256 k1).
Proof. exact normalize_key_injective. Qed.
Print Assumptions C12_normalize_key_injective.
(* a 33-byte key is NOT used by its first 32 bytes *)
Example C12_ex_normalize : normalize_key_with (fun _ => [1]) (repeat 7 32) = repeat 7 32 /\
                           normalize_key_with (fun _ => [1]) (repeat 7 33) = [1].
Proof. vm_compute; split; reflexivity. Qed.

(* ---- non-vacuity: a concrete world (table AEAD with two sealed payloads) ---- *)
Definition ex_key : bytes := repeat 7 32.
Definition ex_ident : identity := Authd [106;119;116] [97;108;105;99;101].            (* ("jwt", "alice") *)
Definition ex_other : identity := Authd [106;119;116] [98;111;98].                    (* ("jwt", "bob") *)
Definition ex_cid : bytes := repeat 9 16.
Definition ex_nonce1 : bytes := repeat 5 24.
Definition ex_nonce2 : bytes := repeat 4 24.
Definition ex_body1 : bytes := repeat 6 40.
Definition ex_body2 : bytes := repeat 3 90.
Definition ex_cur_pl : bytes := cursor_plaintext 1000 ex_cid [1;2;3].
Definition ex_call_pl : bytes := call_plaintext 990 ex_cid [8;8] [84] [255;1] [255;2] [115;105;100].
Definition ex_tbl : list aead_row :=
  [(ex_key, compute_aad KCursor ex_ident, ex_nonce1, ex_body1, 0 :: ex_cur_pl);
   (ex_key, compute_aad KCall ex_ident, ex_nonce2, ex_body2, 0 :: ex_call_pl)].
Definition ex_cur_txt : bytes := b64encode (5 :: ex_nonce1 ++ ex_body1).
Definition ex_call_txt : bytes := b64encode (1 :: ex_nonce2 ++ ex_body2).
Definition ex_run (ttl now : Z) (i : option (bytes * bytes)) (cancel : bool) (cur call : option bytes) :=
  run_case ex_tbl [] [] [] true ((ex_key, ttl, now, now), (false, i, cancel), (cur, call)).
Definition ex_alice := Some ([106;119;116], [97;108;105;99;101]).
Definition ex_bob := Some ([106;119;116], [98;111;98]).

Example C12_ex_served : ex_run 100 1050 ex_alice false (Some ex_cur_txt) (Some ex_call_txt) = (200, 0, [1;2;3;4;5]).
Proof. vm_compute; reflexivity. Qed.
Example C12_ex_cancel : ex_run 100 1050 ex_alice true (Some ex_cur_txt) (Some ex_call_txt) = (200, 0, [1;2;3;4;6]).
Proof. vm_compute; reflexivity. Qed.
Example C12_ex_at_ttl : ex_run 100 1090 ex_alice false (Some ex_cur_txt) (Some ex_call_txt) = (200, 0, [1;2;3;4;5]).
Proof. vm_compute; reflexivity. Qed.
Example C12_ex_call_expired : ex_run 100 1091 ex_alice false (Some ex_cur_txt) (Some ex_call_txt) = (400, 7, []).
Proof. vm_compute; reflexivity. Qed.
Example C12_ex_cursor_expired : ex_run 100 1101 ex_alice false (Some ex_cur_txt) (Some ex_call_txt) = (400, 4, []).
Proof. vm_compute; reflexivity. Qed.
Example C12_ex_other_identity : ex_run 100 1050 ex_bob false (Some ex_cur_txt) (Some ex_call_txt) = (400, 2, []).
Proof. vm_compute; reflexivity. Qed.
Example C12_ex_anonymous : ex_run 100 1050 None false (Some ex_cur_txt) (Some ex_call_txt) = (400, 2, []).
Proof. vm_compute; reflexivity. Qed.
Example C12_ex_swapped : ex_run 100 1050 ex_alice false (Some ex_call_txt) (Some ex_cur_txt) = (400, 2, []).
Proof. vm_compute; reflexivity. Qed.
Example C12_ex_call_is_cursor : ex_run 100 1050 ex_alice false (Some ex_cur_txt) (Some ex_cur_txt) = (400, 6, []).
Proof. vm_compute; reflexivity. Qed.
Example C12_ex_truncated : ex_run 100 1050 ex_alice false (Some (firstn 40 ex_cur_txt)) (Some ex_call_txt) = (400, 2, []).
Proof. vm_compute; reflexivity. Qed.
Example C12_ex_not_base64 : ex_run 100 1050 ex_alice false (Some (45 :: ex_cur_txt)) (Some ex_call_txt) = (400, 1, []).
Proof. vm_compute; reflexivity. Qed.
(* the premises of the served theorems are satisfiable: the example world is well-formed *)
Example C12_ex_wf :
  mint_wf (MintCursor ex_ident 1000 ex_cid [1;2;3] ex_nonce1) /\
  mint_wf (MintCall ex_ident 990 ex_cid [8;8] [84] [255;1] [255;2] [115;105;100] ex_nonce2).
Proof. vm_compute. repeat split; reflexivity || discriminate. Qed.
(* both sides of the exactness theorems *)
Example C12_ex_parse : parse_cursor ex_cur_pl = Ok ([1;2;3], ex_cid) /\ parse_cursor (ex_cur_pl ++ [0]) = Rej (MMalformed KCursor).
Proof. vm_compute; split; reflexivity. Qed.
