(* C02: parameter and result values round-trip exactly.  Statements only; proofs are in proof/L_Values*.v.

   ser / deser are ArrowSerializableDataclass.serialize_to_bytes / deserialize_from_batch; their round trip
   (property C03) is the only hypothesis.  The `true` argument of result_path / echo is the shape of
   _build_result_schema in which Optional is stripped before the dataclass test (tie/T_Values.v states the
   theorems for the shape regenerated from the source; refuted/R_C02.v shows what the other shape does). *)
From Coq Require Import List NArith ZArith Bool.
From VGI Require Import M_Values L_Values L_ValuesSame.
Import ListNotations.
Open Scope Z_scope.

(* kwargs received by the implementation: a value of a supported annotation arrives, and is that value
   (Leibniz equality of the model value: floats are bit patterns, so NaN payloads and signed zeros count) *)
Theorem C02_param_exact : forall ser deser, (forall d, deser (ser d) = Some d) ->
  forall t v, supported t = true -> has_type t v = true -> param_path ser deser t v = Accept v.
Proof. exact param_path_exact. Qed.
Print Assumptions C02_param_exact.

(* value returned by the proxy for a value returned by the implementation *)
Theorem C02_result_exact : forall ser deser, (forall d, deser (ser d) = Some d) ->
  forall t v, supported t = true -> has_type t v = true -> result_path ser deser true t v = Accept v.
Proof. exact result_path_exact. Qed.
Print Assumptions C02_result_exact.

(* the echo call: whatever it returns for a well-typed value is that value *)
Theorem C02_echo : forall ser deser, (forall d, deser (ser d) = Some d) ->
  forall t v v', supported t = true -> has_type t v = true -> echo ser deser true t v = Accept v' -> v' = v.
Proof.
  intros ser deser H t v v' Hs Ht He. rewrite (echo_exact ser deser H t v Hs Ht) in He. inversion He. reflexivity.
Qed.
Print Assumptions C02_echo.

(* ... and it does return: no value of a supported annotation is refused *)
Theorem C02_accepts : forall ser deser, (forall d, deser (ser d) = Some d) ->
  forall t v, supported t = true -> has_type t v = true -> echo ser deser true t v = Accept v.
Proof. exact echo_exact. Qed.
Print Assumptions C02_accepts.

(* None is representable only in Optional positions (is_opt = _is_optional_type: X | None, Optional[X], and the marker
   inside an Annotated wrapper), in both directions *)
Theorem C02_none_refused_unless_optional : forall ser deser t, snd (is_opt t) = false ->
  param_path ser deser t VNone = Reject /\ result_path ser deser true t VNone = Reject.
Proof. exact none_refused. Qed.
Print Assumptions C02_none_refused_unless_optional.

(* accepted => exact, or the value was not of the declared type *)
Theorem C02_reject_or_exact : forall ser deser, (forall d, deser (ser d) = Some d) ->
  forall t v v', supported t = true -> echo ser deser true t v = Accept v' -> v' = v \/ has_type t v = false.
Proof.
  intros ser deser H t v v' Hs He. destruct (has_type t v) eqn:Ht; auto.
  left. rewrite (echo_exact ser deser H t v Hs Ht) in He. inversion He. reflexivity.
Qed.
Print Assumptions C02_reject_or_exact.

(* No silent change, for ANY value (well typed or not), any Arrow type, unbounded nesting: what the converter
   accepts outside the four lossy cells spelled out by M_Values.lossy (fractional float for an integer column,
   double not representable in float32, sub-unit temporal value / datetime for date32, time-zone awareness
   differing from the column's) denotes the value that was passed (L_ValuesSame.same_val: identical, or an exact
   int/bool -> float, integral float -> int, tuple -> list, dict -> list of pairs re-representation);
   and the same on the parameter and result paths of every annotation that needs no framework conversion.
   _partial: the four lossy cells are refuted in refuted/R_C02.v; Unmodelled cells (decimal, struct, int/float
   for temporal columns, str/bytes cross-coercions) are not covered. *)
Theorem C02_no_silent_change_partial :
  (forall a v v', arrow_rt a v = Accept v' -> lossy a v = false -> same_val v v') /\
  (forall ser deser t v v', wire_plain t = true -> param_path ser deser t v = Accept v' ->
     lossy (infer t) (convert_for_arrow ser v) = false -> same_val (convert_for_arrow ser v) v') /\
  (forall ser deser t v v', wire_plain t = true -> result_path ser deser true t v = Accept v' ->
     lossy (infer t) (convert_for_arrow ser v) = false -> same_val (convert_for_arrow ser v) v').
Proof.
  split; [exact arrow_rt_same|split]; [exact param_path_same|exact result_path_same].
Qed.
Print Assumptions C02_no_silent_change_partial.

(* float64: every bit pattern (NaN payloads, -0.0, subnormals, infinities) crosses unchanged *)
Theorem C02_float64_bits : forall b, arrow_rt (AFloat F64) (VFloat b) = Accept (VFloat b).
Proof. exact float64_bits. Qed.
Print Assumptions C02_float64_bits.

(* integers: accepted unchanged exactly inside the declared width, refused outside (never wrapped) *)
Theorem C02_int_range_iff : forall s bits z,
  (arrow_rt (AInt s bits) (VInt z) = Accept (VInt z) <-> int_in_range s bits z = true) /\
  (int_in_range s bits z = false -> arrow_rt (AInt s bits) (VInt z) = Reject).
Proof. intros s bits z. split; [apply int_range_iff|apply int_out_of_range_rejected]. Qed.
Print Assumptions C02_int_range_iff.

(* ---- non-vacuity: concrete values meet the hypotheses / the classes are inhabited ---- *)
(* int64 extremes, uint64 maximum *)
Example ex_int64_min : has_type (TInt true 64) (VInt (-9223372036854775808)) = true. Proof. vm_compute. reflexivity. Qed.
Example ex_uint64_max : has_type (TInt false 64) (VInt 18446744073709551615) = true. Proof. vm_compute. reflexivity. Qed.
Example ex_int64_over : has_type (TInt true 64) (VInt 9223372036854775808) = false. Proof. vm_compute. reflexivity. Qed.
(* a NaN with payload and -0.0 are float64 values; 0.5 is a float32 value, 0.1 is not *)
Example ex_nan_payload : has_type (TFloat F64) (VFloat 9221120237041090561%N) = true. Proof. vm_compute. reflexivity. Qed.
Example ex_f32_half : has_type (TFloat F32) (VFloat 4602678819172646912%N) = true. Proof. vm_compute. reflexivity. Qed.
Example ex_f32_tenth : has_type (TFloat F32) (VFloat 4591870180066957722%N) = false. Proof. vm_compute. reflexivity. Qed.
(* Optional[dict[str, int | None]] with None in both optional positions, a frozenset, an enum member, a dataclass *)
Example ex_opt_map : supported (TOpt (TMap TStr (TOpt (TInt true 64)))) = true /\
  has_type (TOpt (TMap TStr (TOpt (TInt true 64)))) (VDict [(VStr [97%N], VNone); (VStr [], VInt 1)]) = true /\
  has_type (TOpt (TMap TStr (TOpt (TInt true 64)))) VNone = true.
Proof. vm_compute. auto. Qed.
Example ex_set : supported (TSet (TFloat F64)) = true /\ has_type (TSet (TFloat F64)) (VSet [VFloat 0%N; VFloat 9223372036854775808%N]) = true.
Proof. vm_compute. auto. Qed.
Example ex_enum : supported (TEnum [[82;69;68]%N; [71]%N]) = true /\ has_type (TEnum [[82;69;68]%N; [71]%N]) (VEnum [82;69;68]%N) = true.
Proof. vm_compute. auto. Qed.
Example ex_nested_list : supported (TList (TList (TOpt TStr))) = true /\ has_type (TList (TList (TOpt TStr))) (VList [VList []; VList [VNone; VStr [128512%N]]]) = true.
Proof. vm_compute. auto. Qed.
(* annotation spellings: Annotated[dict[str, int32], m] | None, Annotated[Enum, m], Optional[Annotated[Dataclass, m]] *)
Example ex_spellings :
  supported (TOpt (TAnn (TMap TStr (TInt true 32)))) = true /\
  has_type (TOpt (TAnn (TMap TStr (TInt true 32)))) (VDict [(VStr [97%N], VInt 1)]) = true /\
  echo ser_id deser_id true (TOpt (TAnn (TMap TStr (TInt true 32)))) (VDict [(VStr [97%N], VInt 1)]) = Accept (VDict [(VStr [97%N], VInt 1)]) /\
  supported (TAnn (TEnum [[82;69;68]%N])) = true /\ supported (TOpt (TAnn TData)) = true /\
  (* Annotated[Enum | None, m]: optional, and the member comes back as the member *)
  supported (TAnn (TOpt (TEnum [[82;69;68]%N]))) = true /\ has_type (TAnn (TOpt (TEnum [[82;69;68]%N]))) VNone = true /\
  echo ser_id deser_id true (TAnn (TOpt (TEnum [[82;69;68]%N]))) VNone = Accept VNone /\
  echo ser_id deser_id true (TAnn (TOpt (TEnum [[82;69;68]%N]))) (VEnum [82;69;68]%N) = Accept (VEnum [82;69;68]%N) /\
  echo ser_id deser_id true (TOpt (TAnn TData)) (VData [7%N]) = Accept (VData [7%N]).
Proof. vm_compute. repeat split; reflexivity. Qed.
Example ex_echo_runs : echo ser_id deser_id true (TOpt TData) (VData [1;2;3]%N) = Accept (VData [1;2;3]%N).
Proof. vm_compute. reflexivity. Qed.
(* no-silent-change: a tuple given for list[int] is accepted, is not lossy, and arrives as the list *)
Example ex_tuple_for_list : arrow_rt (AList (AInt true 64)) (VTuple [VInt 1; VInt 2]) = Accept (VList [VInt 1; VInt 2]) /\
  lossy (AList (AInt true 64)) (VTuple [VInt 1; VInt 2]) = false.
Proof. vm_compute. auto. Qed.
