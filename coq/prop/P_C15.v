(* C15: HTTP status codes and body shapes follow the mapping.  Statements only; every proof is in proof/L_HttpStatus.v.
   [run] is the model of model/M_HttpStatus.v under the configuration cfg_model; tie/T_HttpStatus.v proves the
   configuration regenerated from the source equal to it and restates the theorems over the regenerated one.
   All theorems quantify over the whole request space of the property (168480 descriptors: 3 routes x 4 method classes
   x 13 body classes x 3 content types x 5 content codings x 3 token states x 4 authentication states x 2 cap settings
   x 3 implementation outcomes). *)
From Coq Require Import List NArith Bool.
From VGI Require Import M_HttpStatus L_HttpStatus.
Import ListNotations.
Open Scope N_scope.

(* the mapping is a total function and it is the table of the property ([spec], L_HttpStatus.v) *)
Theorem C15_total_mapping : forall r, run r = spec r.
Proof. exact run_eq_spec. Qed.
Print Assumptions C15_total_mapping.

(* 200 exactly for a request with no defect, i.e. a dispatched call ... *)
Theorem C15_200_iff_dispatched : forall r, status (run r) = 200 <-> defects r = [].
Proof. exact ok_iff_no_defect. Qed.
Print Assumptions C15_200_iff_dispatched.

(* ... carrying the error marker exactly when the call failed *)
Theorem C15_marker_iff_call_failed : forall r, marker (run r) = true <-> (defects r = [] /\ call_fails r = true).
Proof. exact marker_iff_failed. Qed.
Print Assumptions C15_marker_iff_call_failed.

(* every other status is one the statement assigns to a defect the request has: 401 authentication, 413 oversize,
   415 content type / unsupported coding, 404 unknown method, 400 the rest *)
Theorem C15_refusal_status_justified : forall r, status (run r) <> 200 -> In (status (run r)) (defects r).
Proof. exact refusal_justified. Qed.
Print Assumptions C15_refusal_status_justified.

(* no client-controlled input yields a 5xx *)
Theorem C15_no_5xx_client_controlled : forall r,
  In (status (run r)) [200; 400; 401; 404; 413; 415] /\ status (run r) < 500.
Proof. exact no_5xx. Qed.
Print Assumptions C15_no_5xx_client_controlled.

(* every response other than 401 and 415 has a decodable Arrow IPC body *)
Theorem C15_decodable_body_unless_401_415 : forall r,
  status (run r) <> 401 -> status (run r) <> 415 -> decodable (r_bd (run r)) = true /\ r_ct (run r) = RcArrow.
Proof. exact decodable_unless_401_415. Qed.
Print Assumptions C15_decodable_body_unless_401_415.

(* the marker rides only on a 200 whose body carries the error; a refusal never looks like a result *)
Theorem C15_marker_only_on_failed_200 : forall r,
  (marker (run r) = true <-> (r_bd (run r) = RbArrowErr /\ status (run r) = 200)) /\
  (status (run r) <> 200 -> r_bd (run r) <> RbArrowOk).
Proof. exact marker_only_on_failed_200. Qed.
Print Assumptions C15_marker_only_on_failed_200.

Theorem C15_space_is_complete : forall r, In r all_reqs.
Proof. exact all_reqs_complete. Qed.
Print Assumptions C15_space_is_complete.

(* ---- non-vacuity: every status of the table is reached, both marker values occur on a 200 ---- *)
Example C15_ex_200 : run (mkReq RUnary MKnown BValid CtOk CeZstd TMissing AGood CapOn OOk) = mkResp 200 false RcArrow RbArrowOk.
Proof. vm_compute; reflexivity. Qed.
Example C15_ex_200_failed : run (mkReq RExchange MKnownAlt BValid CtOk CeNone TValid AOff CapOff OFailProcess) = mkResp 200 true RcArrow RbArrowErr.
Proof. vm_compute; reflexivity. Qed.
Example C15_ex_400_token : run (mkReq RExchange MKnown BValid CtOk CeNone TTampered AOff CapOff OOk) = mkResp 400 false RcArrow RbArrowErr.
Proof. vm_compute; reflexivity. Qed.
Example C15_ex_400_damaged : run (mkReq RExchange MKnown BCorruptIO CtOk CeNone TValid AOff CapOff OOk) = mkResp 400 false RcArrow RbArrowErr.
Proof. vm_compute; reflexivity. Qed.
Example C15_ex_401 : status (run (mkReq RInit MKnown BValid CtOk CeNone TMissing ABad CapOff OOk)) = 401.
Proof. vm_compute; reflexivity. Qed.
Example C15_ex_404 : run (mkReq RInit MUnknown BEmpty CtOk CeNone TMissing AOff CapOff OOk) = mkResp 404 false RcArrow RbArrowErr.
Proof. vm_compute; reflexivity. Qed.
Example C15_ex_413 : run (mkReq RUnary MKnown BOversize CtOk CeGzip TMissing AMissing CapOn OOk) = mkResp 413 false RcArrow RbArrowErr.
Proof. vm_compute; reflexivity. Qed.
Example C15_ex_415 : status (run (mkReq RUnary MKnown BValid CtWrong CeNone TMissing AOff CapOff OOk)) = 415.
Proof. vm_compute; reflexivity. Qed.
Example C15_ex_defects : defects (mkReq RExchange MUnknown BEmpty CtMissing CeCorrupt TMissing ABad CapOn OOk) = [401; 415; 404; 400].
Proof. vm_compute; reflexivity. Qed.
(* the correspondence encoding names the constructors it is meant to name *)
Example C15_ex_req_of : req_of [2; 1; 12; 2; 4; 2; 3; 1; 2] = mkReq RExchange MKnownAlt BOversize CtMissing CeCorrupt TMissing AMissing CapOn OFailProcess.
Proof. vm_compute; reflexivity. Qed.
Example C15_ex_req_of2 : req_of [1; 3; 10; 1; 3; 1; 2; 0; 1] = mkReq RInit MMismatch BBadTraceparent CtWrong CeUnknown TTampered ABad CapOff OFailInit.
Proof. vm_compute; reflexivity. Qed.
