(* C37 (placeholder while the proofs are being written) *)
From VGI Require Import M_Url.
