(* C37: OAuth browser flow redirects only to safe origins.  Statements only; proofs are in proof/L_Url*.v.
   Strings are lists of code points.  [whatwg_origin base u] is the origin a WHATWG-conformant browser gives to the
   Location value u received on a page whose URL has scheme [base] (model/M_Url.v, Part C, validated against Node 20);
   OFail = the parser rejects the value (no navigation), OBase = the origin of the page itself. *)
From Coq Require Import List NArith Bool.
From VGI Require Import Bytes Layout Utf8 M_Url L_Url L_UrlSafe L_UrlOrig L_UrlCookie L_UrlFlow.
Import ListNotations.
Open Scope N_scope.

(* Full statement aimed at:  forall allowed u,  _validate_return_to(u, allowed) = u  ->  every Location the flow builds
   from u (u + '#'/'&' + fragment parameters, whatever the token bytes are) resolves to an allowlisted or loopback origin.
   Proved here (_partial) for
     - allowlists whose entries are scheme://plain-host[:digits]  (entry_wf: http/https; host of [a-z0-9.-], no xn--
       label, not ending in a number), "allowlisted" read as the code documents it: an entry without a port admits its
       host on every port, an entry with a port admits that port;
     - URLs without '[' (bracketed IPv6 / IPvFuture hosts; urllib never yields the hostname "[::1]" the code tests for).
   Everything else is quantified: userinfo, '@', backslashes, controls, whitespace, percent-encoding, ports, U+212A ...
   A host that would need IDNA gives OUnmodelled, which origin_ok counts as unsafe -- so the theorem also says that
   no such host is ever accepted.  brk = urllib's bracketed-host check (any function). *)
Theorem C37_location_safe_partial : forall brk ts u params base,
  forallb entry_wf ts = true -> has 91 u = false ->
  validate_return_to brk (map render ts) u = Accept ->
  origin_ok ts (whatwg_origin base (location_of u params)).
Proof. exact location_safe. Qed.
Print Assumptions C37_location_safe_partial.

(* the URL the callback redirects to after a same-origin login stays on the service's origin, for every request path /
   query / cookie content; the fallback is the operator's prefix (assumed to be a path: "" or "/x...") *)
Theorem C37_original_same_origin : forall brk prefix u v base,
  (prefix = [] \/ orig_guard prefix = false) ->
  validate_original_url brk prefix u = POk v -> whatwg_origin base v = OBase.
Proof. exact original_same_origin. Qed.
Print Assumptions C37_original_same_origin.

(* ... and is the prefix root or a string that starts with the prefix *)
Theorem C37_original_under_prefix : forall brk prefix u v,
  validate_original_url brk prefix u = POk v ->
  v = fallback_of prefix \/ (orig_guard v = false /\ (prefix = [] \/ is_prefix prefix v = true)).
Proof. exact original_cases. Qed.
Print Assumptions C37_original_under_prefix.

(* session cookie: what the server packs is accepted for 600 s and yields the packed fields (mac: any function with
   32-byte output) *)
Theorem C37_cookie_roundtrip : forall (mac : bytes -> bytes -> bytes) key,
  (forall k m, length (mac k m) = 32%nat) ->
  forall t cv st url rt raw now a b c d,
  pack_cookie mac key t cv st url rt = Some raw ->
  utf8_decode cv = Some a -> utf8_decode st = Some b -> utf8_decode url = Some c -> utf8_decode rt = Some d ->
  t <= now <= t + 600 ->
  unpack_cookie mac key cookie_version 32 600 now raw = UOk a b c d.
Proof. exact cookie_roundtrip. Qed.
Print Assumptions C37_cookie_roundtrip.

(* acceptance requires: last 32 bytes = HMAC of the rest, version byte 4, 0 <= age <= 600 *)
Theorem C37_cookie_requires_valid_mac : forall (mac : bytes -> bytes -> bytes) key now raw a b c d,
  unpack_cookie mac key cookie_version 32 600 now raw = UOk a b c d ->
  exists payload tag, raw = payload ++ tag /\ length tag = 32%nat /\ tag = mac key payload /\
    exists p1, payload = cookie_version :: p1 /\
      le_decode (firstn 8 p1) <= now <= le_decode (firstn 8 p1) + 600.
Proof. exact cookie_requires_valid_mac. Qed.
Print Assumptions C37_cookie_requires_valid_mac.

(* the callback reaches the token exchange only with a cookie that is present, decodes, unpacks (above) and whose
   state equals the query's *)
Theorem C37_callback_requires_cookie : forall (mac : bytes -> bytes -> bytes) key b64d now error code state cookie cv url rt,
  callback mac key b64d cookie_version 32 600 now error code state cookie = CbProceed cv url rt ->
  exists c raw st, cookie = Some c /\ c <> [] /\ b64d c = Some raw /\
    unpack_cookie mac key cookie_version 32 600 now raw = UOk cv st url rt /\ state = Some st /\ st <> [] /\
    (error = None \/ error = Some []) /\ (exists cd, code = Some cd /\ cd <> []).
Proof. exact callback_requires_cookie. Qed.
Print Assumptions C37_callback_requires_cookie.

(* the Location the callback sets.  Premise = ideal MAC: the payload of a cookie that verifies is one that
   process_response packed (issued_payload: its return_to is "" or a URL the validator accepted). *)
Theorem C37_callback_redirect_safe_partial : forall (mac : bytes -> bytes -> bytes) key b64d brk
    ts prefix now error code state cookie cv url rt params base,
  forallb entry_wf ts = true -> (prefix = [] \/ orig_guard prefix = false) ->
  callback mac key b64d cookie_version 32 600 now error code state cookie = CbProceed cv url rt ->
  (forall c raw, cookie = Some c -> b64d c = Some raw -> issued_payload brk ts (firstn (length raw - 32) raw)) ->
  match rt with
  | [] => forall v, validate_original_url brk prefix url = POk v -> whatwg_origin base v = OBase
  | _ :: _ => origin_ok ts (whatwg_origin base (location_of rt params))
  end.
Proof. exact callback_redirect_safe. Qed.
Print Assumptions C37_callback_redirect_safe_partial.

(* ---- non-vacuity ---- *)
Definition ex_ts : list entry := [(s_https, [99; 117; 112; 111; 108; 97; 46; 113; 117; 101; 114; 121; 45; 102; 97; 114; 109; 46; 115; 101; 114; 118; 105; 99; 101; 115], None)].
(* "https://user@CUPOLA.query-farm.services:8443/cb" is accepted; its Location resolves to that host *)
Definition ex_u : str := s_https ++ s_css ++ [117; 115; 101; 114; 64; 67; 85; 80; 79; 76; 65] ++ [46; 113; 117; 101; 114; 121; 45; 102; 97; 114; 109; 46; 115; 101; 114; 118; 105; 99; 101; 115; 58; 56; 52; 52; 51; 47; 99; 98].
Example C37_location_ex : forallb entry_wf ex_ts = true /\ has 91 ex_u = false /\
  validate_return_to (fun _ => true) (map render ex_ts) ex_u = Accept /\
  whatwg_origin s_https (location_of ex_u [116; 61; 120]) = OTuple s_https (HDomain (e_host (s_https, [99; 117; 112; 111; 108; 97; 46; 113; 117; 101; 114; 121; 45; 102; 97; 114; 109; 46; 115; 101; 114; 118; 105; 99; 101; 115], None))) (Some 8443).
Proof. vm_compute. repeat split; reflexivity. Qed.
(* the repaired validator refuses the backslash form *)
Example C37_location_ex_neg :
  validate_return_to (fun _ => true) (map render ex_ts)
    (s_https ++ s_css ++ [101; 118; 105; 108; 46; 99; 111; 109; 92; 64] ++ e_host (s_https, [99; 117; 112; 111; 108; 97; 46; 113; 117; 101; 114; 121; 45; 102; 97; 114; 109; 46; 115; 101; 114; 118; 105; 99; 101; 115], None) ++ [47]) = Reject.
Proof. vm_compute. reflexivity. Qed.
(* "/vgi/describe?x=1" is kept under prefix "/vgi"; "/\evil.com" and "///evil.com" fall back *)
Example C37_original_ex :
  validate_original_url (fun _ => true) [47; 118; 103; 105] [47; 118; 103; 105; 47; 100; 63; 120; 61; 49] = POk [47; 118; 103; 105; 47; 100; 63; 120; 61; 49] /\
  validate_original_url (fun _ => true) [] [47; 92; 101; 118; 105; 108; 46; 99; 111; 109] = POk [47] /\
  validate_original_url (fun _ => true) [] [47; 47; 47; 101; 118; 105; 108; 46; 99; 111; 109] = POk [47].
Proof. vm_compute. repeat split; reflexivity. Qed.
