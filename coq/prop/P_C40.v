(* C40: capability headers advertise exactly the configuration.  Statements only; proofs in proof/L_CapHeaders.v.
   Vocabulary (model/M_CapHeaders.v):
     cap_headers c       the dictionary built by the `capability_headers[K] = V` sequence of make_wsgi_app (None = it raises)
     configured c f      Some cv = feature f is configured, cv its configured value;  text_of cv = the header text denoting cv
     fname f             the wire name of the header of feature f;  lname f = its lower-case form (as Falcon stores it)
     respond ...         Falcon's response phase: process_response of every middleware, last registered first
     probe               http_capabilities() on a header dictionary;  wire = lower-casing of the names
     integral_ttl c      sticky enabled -> the default TTL is a whole number of seconds (see refuted/R_C40.v)  *)
From Coq Require Import List NArith ZArith Bool String.
From VGI Require Import M_CapHeaders L_CapHeaders.
Import ListNotations.
Open Scope string_scope.
Open Scope N_scope.

(* For every configuration: construction succeeds, header names are pairwise distinct, and a header K with value v
   is in the dictionary iff K is the name of a configured feature and v is the text of its configured value. *)
Theorem C40_header_iff_configured_with_value : forall c, integral_ttl c ->
  exists hs, cap_headers c = Some hs /\ NoDup (map fst hs) /\
    forall K v, In (K, v) hs <-> exists f cv, K = fname f /\ configured c f = Some cv /\ text_of cv = Some v.
Proof. exact header_iff_configured_with_value. Qed.
Print Assumptions C40_header_iff_configured_with_value.

(* Closed form without side condition: what is emitted for every configuration, fractional TTLs included *)
Theorem C40_headers_closed_form : forall c, cap_headers c = Some (spec_headers c).
Proof. exact cap_headers_closed_form. Qed.
Print Assumptions C40_headers_closed_form.

(* The dictionary is never empty, so the capabilities middleware is installed in every configuration. *)
Theorem C40_never_empty_always_installed : forall c hs,
  cap_headers c = Some hs -> hs <> [] /\ installed cap_install hs = true.
Proof. exact never_empty. Qed.
Print Assumptions C40_never_empty_always_installed.

(* Every response.  h0 is the header dictionary left by whatever happened before the response phase (a
   process_request raised 401/413/..., no route: 404, method not allowed: 405, the responder ran or raised and an
   error handler filled the response, OPTIONS/HEAD/GET on the health endpoint ...): universally quantified, as are
   the request (method, req_succeeded) and the other middleware.  Hypotheses: nobody else writes or removes a
   capability-named header.  Conclusion: for EVERY feature the response carries its header iff configured, with the
   advertised text -- i.e. exactly the capability headers of C40_header_iff_configured_with_value. *)
Theorem C40_on_every_response : forall c hs others rq h0,
  cap_headers c = Some hs ->
  (forall f, In (MwOther f) others -> frame_ok f) ->
  (forall K, is_cap_name K = true -> lookup K h0 = None) ->
  forall f, lookup (lname f) (respond cap_mw_stmts hs (app_middleware cap_install hs others) rq h0) = advertised c f.
Proof. exact on_every_response. Qed.
Print Assumptions C40_on_every_response.

(* The client probe reads the configuration back (TTL: its integer part; echo names: any list of names that are
   non-empty, comma-free and without surrounding white space). *)
Theorem C40_client_probe_roundtrip : forall c hs, echo_names_ok c -> cap_headers c = Some hs ->
  probe (wire hs) = caps_of_config c.
Proof. exact client_probe_roundtrip. Qed.
Print Assumptions C40_client_probe_roundtrip.

(* ---- non-vacuity ---- *)
Definition ex_cfg : config :=
  {| c_max_request := Some 1048576%Z; c_max_response := None; c_max_ext_response := Some 0%Z;
     c_ext_config := true; c_ext_storage := true; c_upload_provider := true; c_max_upload := Some 5%Z;
     c_compression := true; c_zstd_runtime := true; c_zstd_disabled := false;
     c_proof_required := true; c_introspect := false;
     c_sticky := true; c_ttl_int := 300%Z; c_ttl_frac := false;
     c_echo := [s2l "fly-force-instance-id"; s2l "x-b"] |}.
Example C40_ex_integral : integral_ttl ex_cfg.
Proof. intro H. reflexivity. Qed.
Example C40_ex_echo_ok : echo_names_ok ex_cfg.
Proof. vm_compute. reflexivity. Qed.
Example C40_ex_headers : cap_headers ex_cfg = Some [
  (s2l "VGI-Max-Request-Bytes", s2l "1048576");
  (s2l "VGI-Max-Externalized-Response-Bytes", s2l "0");
  (s2l "VGI-Externalization-Enabled", s2l "true");
  (s2l "VGI-Upload-URL-Support", s2l "true");
  (s2l "VGI-Max-Upload-Bytes", s2l "5");
  (s2l "VGI-Supported-Encodings", s2l "zstd, gzip");
  (s2l "VGI-Proxy-Proof-Required", s2l "true");
  (s2l "VGI-Sticky-Enabled", s2l "true");
  (s2l "VGI-Sticky-Default-TTL", s2l "300");
  (s2l "VGI-Sticky-Echo-Headers", s2l "fly-force-instance-id, x-b")].
Proof. vm_compute. reflexivity. Qed.
(* a feature that is not configured: no header; one that is: its header (both sides of the iff are inhabited) *)
Example C40_ex_absent : configured ex_cfg FIntrospection = None /\ configured ex_cfg FMaxResponse = None.
Proof. split; reflexivity. Qed.
Example C40_ex_present : exists cv, configured ex_cfg FMaxUpload = Some cv /\ text_of cv = Some (s2l "5").
Proof. eexists. split; reflexivity. Qed.
(* a 401 produced by the auth middleware's process_request on an OPTIONS request, with an unrelated middleware
   that adds its own header after the capabilities middleware ran *)
Example C40_ex_response :
  let others := [MwOther (fun _ h => set_header h (s2l "X-Request-ID") (s2l "r1"))] in
  let h0 := [(s2l "www-authenticate", s2l "Bearer"); (s2l "content-type", s2l "application/json")] in
  match cap_headers ex_cfg with
  | Some hs =>
      let h := respond cap_mw_stmts hs (app_middleware cap_install hs others) {| r_method := s2l "OPTIONS"; r_succeeded := false |} h0 in
      lookup (lname FStickyTtl) h = Some (s2l "300") /\ lookup (lname FIntrospection) h = None /\
      lookup (s2l "www-authenticate") h = Some (s2l "Bearer") /\ lookup (s2l "x-request-id") h = Some (s2l "r1")
  | None => False
  end.
Proof. vm_compute. repeat split; reflexivity. Qed.
Example C40_ex_probe : match cap_headers ex_cfg with Some hs => probe (wire hs) = caps_of_config ex_cfg | None => False end.
Proof. vm_compute. reflexivity. Qed.
