(* C17: request size caps and content decoding.  Statements only; proofs are in proof/L_ReqCaps.v (generic in the
   byte-string type) and proof/L_ReqCapsExact.v (instance list N).
   handle_bytes k zdec gdec r : what the two middlewares + _get_request_stream do with request r under
   configuration k, when body b decodes as (zdec b) under zstandard and as (gdec b) under zlib.
   zdec / gdec are universally quantified: arbitrary (also lying, also raising) decoder behaviours. *)
From Coq Require Import List NArith Bool.
From VGI Require Import M_ReqCaps L_ReqCaps L_ReqCapsExact.
Import ListNotations.
Open Scope N_scope.

(* 413 <-> the declared length is over the cap, or it fits and an enabled coding's decoder reports the limit *)
Theorem C17_413_iff : forall k zdec gdec r,
  o_out _ (handle_bytes k zdec gdec r) = Refuse 413 <->
  (exists c n, cap k = Some c /\ r_cl _ r = Some n /\ c < n) \/
  (exists capped e, cap_stageB k r = inr capped /\ classify k (r_ce _ r) = TEnabled e /\
                    d_res _ (decode_withB k zdec gdec e (body_ofB r capped)) = DLimit).
Proof. exact (handle_413_iff (list N) lenN (@app N) [] takeN lenN_nil lenN_take). Qed.
Print Assumptions C17_413_iff.

(* ... which, for a decoder that faithfully streams a payload d (any chunking, size not declared), means:
   413 iff |d| > cap, and otherwise the RPC layer gets d byte for byte *)
Theorem C17_413_iff_decoded_size_zstd_stream : forall k zdec gdec r c n d,
  cap k = Some c -> 1 <= chunk k -> r_cl _ r = Some n -> n <= c ->
  classify k (r_ce _ r) = TEnabled Zstd ->
  z_hdr _ (zdec (takeN n (r_stream _ r))) = Some None ->
  zserves (z_rd _ (zdec (takeN n (r_stream _ r)))) d ->
  o_out _ (handle_bytes k zdec gdec r) = if lenN d <=? c then Deliver d else Refuse 413.
Proof. exact handle_zstd_stream_exact. Qed.
Print Assumptions C17_413_iff_decoded_size_zstd_stream.

Theorem C17_413_iff_decoded_size_gzip : forall k zdec gdec r c n d,
  cap k = Some c -> 1 <= chunk k -> r_cl _ r = Some n -> n <= c ->
  classify k (r_ce _ r) = TEnabled Gzip ->
  takeN n (r_stream _ r) <> [] ->
  gserves (gdec (takeN n (r_stream _ r))) d ->
  o_out _ (handle_bytes k zdec gdec r) = if lenN d <=? c then Deliver d else Refuse 413.
Proof. exact handle_gzip_exact. Qed.
Print Assumptions C17_413_iff_decoded_size_gzip.

(* a zstd frame that declares its size dd (honestly or not): refused on the declaration alone when dd > cap,
   otherwise the one-shot decoder decides (raise -> 400) *)
Theorem C17_zstd_declared_exact : forall k zdec gdec r c n dd,
  cap k = Some c -> r_cl _ r = Some n -> n <= c ->
  classify k (r_ce _ r) = TEnabled Zstd ->
  z_hdr _ (zdec (takeN n (r_stream _ r))) = Some (Some dd) ->
  o_out _ (handle_bytes k zdec gdec r) =
    if c <? dd then Refuse 413
    else match z_one _ (zdec (takeN n (r_stream _ r))) with Some out => Deliver out | None => Refuse 400 end.
Proof. exact handle_zstd_declared_exact. Qed.
Print Assumptions C17_zstd_declared_exact.

(* whatever the decoders do (bounded reads yield <= the requested size, a flush yields <= fb bytes, the one-shot
   output has the declared length): at most cap + max(1, fb) decoded bytes are ever materialised; with fb <= chunk
   that is cap + chunk *)
Theorem C17_materialised_le_cap_plus_chunk : forall k zdec gdec r c fb,
  cap k = Some c -> 1 <= chunk k -> decoders_okB fb zdec gdec ->
  o_mat _ (handle_bytes k zdec gdec r) <= c + N.max 1 fb.
Proof.
  intros k zdec gdec r c fb Hc Hk Hd.
  exact (proj1 (handle_bounds (list N) lenN (@app N) [] takeN lenN_app lenN_nil lenN_take k zdec gdec r c fb Hc Hk Hd)).
Qed.
Print Assumptions C17_materialised_le_cap_plus_chunk.

(* every size the loops ask a decoder for is in [1, chunk] (0 would mean "unbounded" to zlib) *)
Theorem C17_requests_within_chunk : forall k zdec gdec r c fb,
  cap k = Some c -> 1 <= chunk k -> decoders_okB fb zdec gdec ->
  Forall (req_ok k) (o_log _ (handle_bytes k zdec gdec r)).
Proof.
  intros k zdec gdec r c fb Hc Hk Hd.
  exact (proj1 (proj2 (handle_bounds (list N) lenN (@app N) [] takeN lenN_app lenN_nil lenN_take k zdec gdec r c fb Hc Hk Hd))).
Qed.
Print Assumptions C17_requests_within_chunk.

(* nothing larger than the cap is ever handed to the RPC layer *)
Theorem C17_delivered_within_cap : forall k zdec gdec r c fb b,
  cap k = Some c -> 1 <= chunk k -> decoders_okB fb zdec gdec ->
  o_out _ (handle_bytes k zdec gdec r) = Deliver b -> lenN b <= c.
Proof.
  intros k zdec gdec r c fb b Hc Hk Hd.
  exact (proj2 (proj2 (handle_bounds (list N) lenN (@app N) [] takeN lenN_app lenN_nil lenN_take k zdec gdec r c fb Hc Hk Hd)) b).
Qed.
Print Assumptions C17_delivered_within_cap.

(* 415 <-> the length fits and the (stripped, lower-cased, non-empty) token names no Encoding member, or one
   outside the decode set (identity excepted when the source has the identity arm) *)
Theorem C17_415_iff_unknown_or_disabled : forall k zdec gdec r,
  o_out _ (handle_bytes k zdec gdec r) = Refuse 415 <->
  (exists capped, cap_stageB k r = inr capped) /\
  (classify k (r_ce _ r) = TUnknown \/ exists e, classify k (r_ce _ r) = TDisabled e).
Proof. exact (handle_415_iff (list N) lenN (@app N) [] takeN lenN_nil lenN_take). Qed.
Print Assumptions C17_415_iff_unknown_or_disabled.

(* 400 <-> the length fits, the coding is enabled and its decoder raises something other than the limit *)
Theorem C17_400_iff_decoder_raises : forall k zdec gdec r,
  o_out _ (handle_bytes k zdec gdec r) = Refuse 400 <->
  exists capped e, cap_stageB k r = inr capped /\ classify k (r_ce _ r) = TEnabled e /\
                   d_res _ (decode_withB k zdec gdec e (body_ofB r capped)) = DErr.
Proof. exact (handle_400_iff (list N) lenN (@app N) [] takeN lenN_nil lenN_take). Qed.
Print Assumptions C17_400_iff_decoder_raises.

(* no coding, or identity (any case / surrounding whitespace) when the source has the identity arm: a body whose
   honest Content-Length is within the cap reaches the RPC layer unchanged and no decoder is touched *)
Theorem C17_identity_to_rpc_layer : forall k zdec gdec r c,
  cap k = Some c -> r_cl _ r = Some (lenN (r_stream _ r)) -> lenN (r_stream _ r) <= c ->
  (norm_ce (r_ce _ r) = [] \/ (norm_ce (r_ce _ r) = tok_identity /\ identity_pass k = true)) ->
  handle_bytes k zdec gdec r = {| o_out := Deliver (r_stream _ r); o_log := []; o_mat := 0 |}.
Proof.
  intros k zdec gdec r c Hc Hn Hle Ht.
  assert (G : handle_bytes k zdec gdec r =
              {| o_out := Deliver (takeN (lenN (r_stream _ r)) (r_stream _ r)); o_log := []; o_mat := 0 |}).
  2: { rewrite takeN_all in G. exact G. }
  apply (handle_identity (list N) lenN (@app N) [] takeN lenN_nil lenN_take k zdec gdec r c _ Hc Hn Hle).
  destruct Ht as [Ht | [Ht Hi]].
  - left. unfold classify. rewrite Ht. reflexivity.
  - right. apply classify_identity; assumption.
Qed.
Print Assumptions C17_identity_to_rpc_layer.

(* a middleware refusal is 413, 415 or 400; without a configured cap it is never 413 *)
Theorem C17_status_contract : forall k zdec gdec r st,
  o_out _ (handle_bytes k zdec gdec r) = Refuse st ->
  (st = 413 \/ st = 415 \/ st = 400) /\ (cap k = None -> st <> 413).
Proof.
  intros k zdec gdec r st H. split.
  - exact (handle_status_contract (list N) lenN (@app N) [] takeN lenN_nil lenN_take k zdec gdec r st H).
  - intros Hc Hst. subst st.
    exact (handle_nocap_no_413 (list N) lenN (@app N) [] takeN lenN_nil lenN_take k zdec gdec r Hc H).
Qed.
Print Assumptions C17_status_contract.

(* ---- non-vacuity ---- *)
Definition k0 : cfg := mk_cfg (Some 5) true false 4 true true true.      (* cap 5, chunk 4, repaired source shape *)
Definition zd0 (d : list N) (declared : option N) : list N -> zbeh (list N) :=
  fun _ => {| z_hdr := Some declared; z_one := Some d; z_rd := honest_rd 10 d |}.
Definition gd0 (d : list N) : list N -> reader (list N) := fun _ => honest_rd 10 d.
Definition rq (ce : list N) (body : list N) : request (list N) :=
  {| r_cl := Some (lenN body); r_stream := body; r_ce := Some ce |}.
(* faithful decoders exist (hypotheses of the two exactness theorems are satisfiable) *)
Example C17_faithful_zstd : zserves (honest_rd 10 [1;2;3;4;5]) [1;2;3;4;5].
Proof. apply honest_zserves. cbn. repeat constructor. Qed.
Example C17_faithful_gzip : gserves (honest_rd 10 [1;2;3;4;5]) [1;2;3;4;5].
Proof. apply honest_gserves. cbn. repeat constructor. Qed.
(* "ZSTD " with a 5-byte payload streamed in chunks of 4 and 1: delivered; 6 bytes: 413 after 6 materialised *)
Example C17_ex_stream_fits :
  handle_bytes k0 (zd0 [1;2;3;4;5] None) (gd0 []) (rq [90;83;84;68;32] [9;9]) =
  {| o_out := Deliver [1;2;3;4;5]; o_log := [CHdr; CRead 4; CRead 2; CRead 1]; o_mat := 5 |}.
Proof. vm_compute. reflexivity. Qed.
Example C17_ex_stream_over :
  handle_bytes k0 (zd0 [1;2;3;4;5;6] None) (gd0 []) (rq [122;115;116;100] [9;9]) =
  {| o_out := Refuse 413; o_log := [CHdr; CRead 4; CRead 2]; o_mat := 6 |}.
Proof. vm_compute. reflexivity. Qed.
(* a frame declaring 6 bytes is refused before any decoding *)
Example C17_ex_declared_over :
  handle_bytes k0 (zd0 [1] (Some 6)) (gd0 []) (rq [122;115;116;100] [9;9]) = {| o_out := Refuse 413; o_log := [CHdr]; o_mat := 0 |}.
Proof. vm_compute. reflexivity. Qed.
(* gzip, 5 bytes, cap 5 *)
Example C17_ex_gzip_fits :
  o_out _ (handle_bytes k0 (zd0 [] None) (gd0 [1;2;3;4;5]) (rq [32;71;90;105;112] [9;9])) = Deliver [1;2;3;4;5].
Proof. vm_compute. reflexivity. Qed.
(* "br" -> 415 ; " Identity" -> the body itself ; a 6-byte body with cap 5 -> 413 *)
Example C17_ex_unknown : o_out _ (handle_bytes k0 (zd0 [] None) (gd0 []) (rq [98;114] [9;9])) = Refuse 415.
Proof. vm_compute. reflexivity. Qed.
Example C17_ex_identity : o_out _ (handle_bytes k0 (zd0 [] None) (gd0 []) (rq [32;73;100;101;110;116;105;116;121] [7;8;9])) = Deliver [7;8;9].
Proof. vm_compute. reflexivity. Qed.
Example C17_ex_wire_over : o_out _ (handle_bytes k0 (zd0 [] None) (gd0 []) (rq [] [1;2;3;4;5;6])) = Refuse 413.
Proof. vm_compute. reflexivity. Qed.
(* zstd switched off -> 415 *)
Example C17_ex_disabled :
  o_out _ (handle_bytes (mk_cfg (Some 5) true true 4 true true true) (zd0 [] None) (gd0 []) (rq [122;115;116;100] [9;9])) = Refuse 415.
Proof. vm_compute. reflexivity. Qed.
