(* C09: the protocol-version gate.  Statements only; every proof is in proof/L_Version.v. *)
From Coq Require Import List NArith Bool.
From VGI Require Import Regex Utf8 M_Version L_Utf8 L_Version.
Import ListNotations.
Open Scope N_scope.

(* parse_version accepts exactly three canonical numerals joined by dots, and returns their values *)
Theorem C09_parse_iff : forall s a b c,
  parse_version s = Some (a, b, c) <->
  exists s1 s2 s3, s = s1 ++ [46] ++ s2 ++ [46] ++ s3 /\ canon_num s1 /\ canon_num s2 /\ canon_num s3 /\
                   value s1 = a /\ value s2 = b /\ value s3 = c.
Proof. exact parse_version_iff. Qed.
Print Assumptions C09_parse_iff.

(* ... equivalently: the only string that parses to (a, b, c) is its canonical printing *)
Theorem C09_parse_canonical : forall s a b c,
  parse_version s = Some (a, b, c) <-> s = canon_version a b c.
Proof. exact parse_version_canonical. Qed.
Print Assumptions C09_parse_canonical.

(* a non-describe call on a versioned protocol is dispatched iff the client declared, in canonical
   form, a version with the server's major and minor *)
Theorem C09_gate_iff : forall srv md,
  gate (Some srv) false md = Dispatch <->
  exists a b c, md = Some (canon_version a b c) /\ a = major srv /\ b = minor srv.
Proof. exact gate_dispatch_iff. Qed.
Print Assumptions C09_gate_iff.

(* every refusal echoes the decoded client string and names the side that has to upgrade *)
Theorem C09_refusal_names_client_and_direction : forall srv bytes,
  match gate (Some srv) false (Some bytes) with
  | Dispatch => True
  | RefNotDeclared => False
  | RefUndecodable => utf8_decode bytes = None
  | RefMalformed s => utf8_decode bytes = Some s /\ parse_version s = None
  | RefClientOld s => utf8_decode bytes = Some s /\ exists a b c, s = canon_version a b c /\ lex_lt (a, b) (major srv, minor srv) = true
  | RefServerOld s => utf8_decode bytes = Some s /\ exists a b c, s = canon_version a b c /\ lex_lt (major srv, minor srv) (a, b) = true
  end.
Proof. exact gate_refusal. Qed.
Print Assumptions C09_refusal_names_client_and_direction.

Theorem C09_absent_refused : forall srv, gate (Some srv) false None = RefNotDeclared.
Proof. exact gate_absent. Qed.
Print Assumptions C09_absent_refused.

Theorem C09_undeclared_never_checks : forall d md, gate None d md = Dispatch.
Proof. exact gate_undeclared. Qed.
Print Assumptions C09_undeclared_never_checks.

Theorem C09_describe_exempt : forall srv md, gate (Some srv) true md = Dispatch.
Proof. exact gate_describe. Qed.
Print Assumptions C09_describe_exempt.

(* ---- non-vacuity: both sides of each iff are inhabited / refutable on concrete data ---- *)
(* "1.2.9" parses to (1, 2, 9) and is the canonical printing of (1, 2, 9) *)
Example C09_parse_iff_ex : parse_version [49; 46; 50; 46; 57] = Some (1, 2, 9).
Proof. vm_compute; reflexivity. Qed.
Example C09_parse_iff_ex_neg : parse_version [48; 49; 46; 50; 46; 57] = None.   (* "01.2.9" *)
Proof. vm_compute; reflexivity. Qed.
Example C09_parse_canonical_ex : canon_version 10 0 203 = [49; 48; 46; 48; 46; 50; 48; 51].   (* "10.0.203" *)
Proof. vm_compute; reflexivity. Qed.
Example C09_parse_canonical_ex2 : parse_version (canon_version 10 0 203) = Some (10, 0, 203).
Proof. vm_compute; reflexivity. Qed.
(* server 1.2.3, client "1.2.9": same major.minor, dispatched *)
Example C09_gate_iff_ex : gate (Some (1, 2, 3)) false (Some [49; 46; 50; 46; 57]) = Dispatch.
Proof. vm_compute; reflexivity. Qed.
(* client "1.1.9" is older, client "1.3.0" is newer, "1.2.9\n" is malformed, 0xFF is undecodable *)
Example C09_gate_ex_client_old :
  gate (Some (1, 2, 3)) false (Some [49; 46; 49; 46; 57]) = RefClientOld [49; 46; 49; 46; 57].
Proof. vm_compute; reflexivity. Qed.
Example C09_gate_ex_server_old :
  gate (Some (1, 2, 3)) false (Some [49; 46; 51; 46; 48]) = RefServerOld [49; 46; 51; 46; 48].
Proof. vm_compute; reflexivity. Qed.
Example C09_gate_ex_malformed :
  gate (Some (1, 2, 3)) false (Some [49; 46; 50; 46; 57; 10]) = RefMalformed [49; 46; 50; 46; 57; 10].
Proof. vm_compute; reflexivity. Qed.
Example C09_gate_ex_undecodable : gate (Some (1, 2, 3)) false (Some [255]) = RefUndecodable.
Proof. vm_compute; reflexivity. Qed.
