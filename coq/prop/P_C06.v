(* C06: methods run only with contract-conforming arguments.  Statements only; proofs are in proof/L_Validate.v.
   The predicates (framed, schema_conforms, required_nonnull, values_convert, statement_conforming, conforming,
   declared_args, wf_table) are defined at the top of proof/L_Validate.v; serve_one / http_call / std_cfg in
   model/M_Validate.v.  Every theorem quantifies over ALL method tables, requests and method behaviours. *)
From Coq Require Import List NArith Bool.
From VGI Require Import Corr M_Validate L_Validate.
Import ListNotations.
Open Scope N_scope.

(* socket path: the method runs iff the request names it, is well framed, its columns equal the declared schema
   (count, order, names, Arrow types, nullability), every non-optional parameter is non-null, every value converts *)
Theorem C06_socket_invoked_iff_conforming : forall ms impl q, wf_table ms ->
  (o_invoked (serve_one std_cfg ms impl q) = true <->
   exists name mi, name <> transport_options /\ find_method name ms = Some mi /\ conforming mi q name).
Proof. exact socket_invoked_iff. Qed.
Print Assumptions C06_socket_invoked_iff_conforming.

(* HTTP path (POST /url for unary, POST /url/init for streams): same, and URL = vgi_rpc.method *)
Theorem C06_http_invoked_iff_conforming : forall ms impl init url q, wf_table ms ->
  (o_invoked (http_call std_cfg ms impl init url q) = true <->
   exists mi, find_method url ms = Some mi /\ mi_stream mi = init /\ conforming mi q url).
Proof. exact http_invoked_iff. Qed.
Print Assumptions C06_http_invoked_iff_conforming.

(* ... and then the method receives exactly the declared parameter names paired with the request's row, and the
   answer is decided by the method alone *)
Theorem C06_invoked_with_declared_arguments : forall ms impl q name mi, wf_table ms ->
  name <> transport_options -> find_method name ms = Some mi -> conforming mi q name ->
  serve_one std_cfg ms impl q =
    match impl name (declared_args mi q) with BOk => sock_ok | BRaise e => sock_raised e end /\
  http_call std_cfg ms impl (mi_stream mi) name q =
    match impl name (declared_args mi q) with BOk => http_ok | BRaise e => http_raised e end.
Proof.
  intros ms impl q name mi Hwf Ht Hf Hc. split.
  - apply socket_conforming_outcome; assumption.
  - apply http_conforming_outcome; assumption.
Qed.
Print Assumptions C06_invoked_with_declared_arguments.

(* socket: every request that does not reach the method is answered with an error stream *)
Theorem C06_socket_rejected_with_error_stream : forall ms impl q,
  o_invoked (serve_one std_cfg ms impl q) = false -> q_method q <> MKName transport_options ->
  exists c, o_err (serve_one std_cfg ms impl q) = Some c.
Proof. exact socket_rejected_error_stream. Qed.
Print Assumptions C06_socket_rejected_with_error_stream.

(* HTTP: a request whose framing, URL, columns or nullness do not conform is refused with 400, no marker,
   before the method runs -- whatever its values hold *)
Theorem C06_http_nonconforming_400 : forall ms impl url q mi, wf_table ms ->
  find_method url ms = Some mi -> ~ statement_conforming mi q url ->
  let o := http_call std_cfg ms impl (mi_stream mi) url q in
  o_invoked o = false /\ o_status o = 400 /\ o_marker o = false /\
  (o_err o = Some cTypeError \/ o_err o = Some cRpcError \/ o_err o = Some cVersionError).
Proof. exact http_nonconforming_400. Qed.
Print Assumptions C06_http_nonconforming_400.

(* HTTP: the complete list of refusals: always an error batch; 400; 404 for a URL naming no method; or, only for a
   request that conforms in columns and nullness but carries a value with no conversion whose failure is outside
   the request-error classes, 200 + X-VGI-RPC-Error *)
Theorem C06_http_rejected_before_method_runs : forall ms impl init url q, wf_table ms ->
  let o := http_call std_cfg ms impl init url q in
  o_invoked o = false ->
  (exists c, o_err o = Some c) /\
  ((o_status o = 400 /\ o_marker o = false) \/
   (o_status o = 404 /\ o_marker o = false /\ find_method url ms = None) \/
   (o_status o = 200 /\ o_marker o = true /\
    exists mi, find_method url ms = Some mi /\ statement_conforming mi q url /\ ~ values_convert mi q)).
Proof. exact http_rejected_shape. Qed.
Print Assumptions C06_http_rejected_before_method_runs.

(* an exception raised by the method itself: HTTP 200 + marker carrying the method's own class -- never 400 *)
Theorem C06_method_error_not_request_error_http : forall ms impl init url q,
  o_invoked (http_call std_cfg ms impl init url q) = true ->
  o_status (http_call std_cfg ms impl init url q) = 200 /\
  ((o_marker (http_call std_cfg ms impl init url q) = false /\ o_err (http_call std_cfg ms impl init url q) = None) \/
   (o_marker (http_call std_cfg ms impl init url q) = true /\
    exists args e, impl url args = BRaise e /\ o_err (http_call std_cfg ms impl init url q) = Some (ecls e))).
Proof. exact http_method_error. Qed.
Print Assumptions C06_method_error_not_request_error_http.

(* socket: the error batch carries the method's own class *)
Theorem C06_method_error_not_request_error_socket : forall ms impl q,
  o_invoked (serve_one std_cfg ms impl q) = true ->
  (o_err (serve_one std_cfg ms impl q) = None /\ o_reason (serve_one std_cfg ms impl q) = ROk) \/
  exists name args e, q_method q = MKName name /\ impl name args = BRaise e /\
    o_err (serve_one std_cfg ms impl q) = Some (ecls e).
Proof. exact socket_method_error. Qed.
Print Assumptions C06_method_error_not_request_error_socket.

(* a 400 is only ever produced before the method runs, whatever the method does *)
Theorem C06_400_only_before_invocation : forall ms impl init url q,
  o_status (http_call std_cfg ms impl init url q) = 400 -> o_invoked (http_call std_cfg ms impl init url q) = false.
Proof. exact http_400_before_invocation. Qed.
Print Assumptions C06_400_only_before_invocation.

(* the server never fills defaults in: a request with a column count other than the declared one (an omitted
   defaulted parameter included) does not reach the method *)
Theorem C06_defaults_not_filled_by_server : forall ms impl init url q mi, wf_table ms ->
  find_method url ms = Some mi -> q_method q = MKName url -> length (q_cols q) <> length (mi_schema mi) ->
  o_invoked (serve_one std_cfg ms impl q) = false /\ o_invoked (http_call std_cfg ms impl init url q) = false.
Proof. exact fewer_columns_not_invoked. Qed.
Print Assumptions C06_defaults_not_filled_by_server.

(* socket, request routed through the shared-memory side channel: the outcome depends on the resolved batch only --
   with the two iff theorems above (stated on q_cols, the resolved batch): invoked iff the RESOLVED batch conforms *)
Theorem C06_shm_routed_judged_on_resolved_batch : forall ms impl q i,
  serve_one std_cfg ms impl (with_inline q i) = serve_one std_cfg ms impl (with_inline q None).
Proof. exact shm_pointer_schema_irrelevant. Qed.
Print Assumptions C06_shm_routed_judged_on_resolved_batch.

(* ---- non-vacuity: f(a: int64 not null, c: float64 nullable = default) --------------------------------------- *)
Definition ex_a : str := [97].
Definition ex_c : str := [99].
Definition ex_f : str := [102].
Definition ex_mi : minfo := {|
  mi_name := ex_f;
  mi_types := [(ex_a, {| pt_optional := false; pt_kind := KPlain |}); (ex_c, {| pt_optional := true; pt_kind := KEnum |})];
  mi_defaults := [ex_c];
  mi_schema := [{| f_name := ex_a; f_type := 0; f_null := false |}; {| f_name := ex_c; f_type := 1; f_null := true |}];
  mi_stream := false |}.
Definition ex_val : pyval :=
  {| v_bytes := false; v_str := false; v_list := false; v_enum := None; v_dc := None; v_dict := None; v_fset := None |}.
Definition ex_req (cols : list (field * cell)) : request :=
  {| q_method := MKName ex_f; q_version := VOk; q_cols := cols; q_rows := 1; q_inline := None |}.
Definition ex_good := ex_req [({| f_name := ex_a; f_type := 0; f_null := false |}, CVal ex_val);
                              ({| f_name := ex_c; f_type := 1; f_null := true |}, CNull)].

Example C06_ex_wf : wf_table [ex_mi].
Proof.
  intros mi [<-|[]]. split; [reflexivity|]. simpl. repeat constructor; simpl; intuition discriminate.
Qed.
Example C06_ex_conforming : conforming ex_mi ex_good ex_f.
Proof.
  unfold conforming, statement_conforming, framed, schema_conforms, required_nonnull, values_convert. simpl.
  repeat split; auto; repeat constructor; simpl; intuition discriminate.
Qed.
Example C06_ex_invoked : o_invoked (serve_one std_cfg [ex_mi] (fun _ _ => BOk) ex_good) = true /\
                         http_call std_cfg [ex_mi] (fun _ _ => BOk) false ex_f ex_good = http_ok.
Proof. split; vm_compute; reflexivity. Qed.
(* the method raises TypeError itself: 200 + marker, class TypeError *)
Example C06_ex_method_typeerror : http_call std_cfg [ex_mi] (fun _ _ => BRaise type_error) false ex_f ex_good = http_raised type_error.
Proof. vm_compute; reflexivity. Qed.
(* int32 instead of int64 (type tag 2): refused with 400, reason "type of field 0" *)
Example C06_ex_widening_refused :
  http_call std_cfg [ex_mi] (fun _ _ => BOk) false ex_f
    (ex_req [({| f_name := ex_a; f_type := 2; f_null := false |}, CVal ex_val); ({| f_name := ex_c; f_type := 1; f_null := true |}, CNull)])
  = {| o_invoked := false; o_status := 400; o_marker := false; o_err := Some cTypeError; o_reason := RType 0 |}.
Proof. vm_compute; reflexivity. Qed.
(* the defaulted column c omitted: refused, field count *)
Example C06_ex_default_omitted :
  o_reason (serve_one std_cfg [ex_mi] (fun _ _ => BOk) (ex_req [({| f_name := ex_a; f_type := 0; f_null := false |}, CVal ex_val)])) = RCount 2 1.
Proof. vm_compute; reflexivity. Qed.
(* null in the required column a *)
Example C06_ex_null_required :
  o_reason (serve_one std_cfg [ex_mi] (fun _ _ => BOk)
     (ex_req [({| f_name := ex_a; f_type := 0; f_null := false |}, CNull); ({| f_name := ex_c; f_type := 1; f_null := true |}, CNull)])) = RParamNone ex_a.
Proof. vm_compute; reflexivity. Qed.
(* a pointer batch with the declared schema in front of a retyped resolved batch: still refused *)
Example C06_ex_shm_pointer_declared_resolved_retyped :
  o_reason (serve_one std_cfg [ex_mi] (fun _ _ => BOk)
    (with_inline (ex_req [({| f_name := ex_a; f_type := 2; f_null := false |}, CVal ex_val); ({| f_name := ex_c; f_type := 1; f_null := true |}, CNull)])
                 (Some (mi_schema ex_mi)))) = RType 0.
Proof. vm_compute; reflexivity. Qed.
