(* C22: proxy-proof verification equals the normative decision table.
   Statements only; every proof is in proof/L_Proof.v / proof/L_ProofPrim.v.

   hmac            HMAC-SHA256, an arbitrary function (key -> message -> digest)
   check_and_add   the answer of NonceCache.check_and_add for a nonce (true = fresh); the cache itself is C23
   sep             what the WSGI server puts between repeated instances of one header: anything containing ','
   size            how a header value is measured against the 512 bound (characters as len() does, UTF-8 bytes,
                   latin-1 bytes ...): any measure that is >= the character count and equal to it on ASCII
   origin          this worker's origin_id; ProxyProofConfig.__post_init__ admits it only if _ORIGIN_RE matches *)
From Coq Require Import List NArith ZArith Bool.
From VGI Require Import Regex Bytes Layout M_Proof L_ProofPrim L_Proof.
Import ListNotations.
Open Scope N_scope.

(* The gate (with the empty-value guard reporting `malformed`) decides every request exactly as the table does:
   same acceptance, same claims, same reason code of the first failing row -- for all header instance lists. *)
Theorem C22_equals_table : forall hmac sep size instances keys origin skew check_and_add now,
  In 44 sep -> size_ok size -> py_match penv0 origin_re origin = true ->
  gate_decision hmac Malformed (header_value sep instances) keys origin skew (Some check_and_add) now =
  spec_table size hmac instances keys origin skew (fun nonce => negb (check_and_add nonce)) now.
Proof.
  intros hmac sep size instances keys origin skew chk now Hs Hz Ho.
  exact (gate_equals_table_gen hmac Malformed sep size instances keys origin skew (Some chk) now Hs Hz
           (origin_re_ascii origin Ho) (or_introl eq_refl)).
Qed.
Print Assumptions C22_equals_table.

(* Whatever reason the source reports for a present-but-empty value, every other request is decided as the
   table does (the excluded class is exactly: one instance of the header, with the empty value). *)
Theorem C22_equals_table_partial : forall hmac empty_reason sep size instances keys origin skew check_and_add now,
  In 44 sep -> size_ok size -> py_match penv0 origin_re origin = true ->
  instances <> [[]] ->
  gate_decision hmac empty_reason (header_value sep instances) keys origin skew (Some check_and_add) now =
  spec_table size hmac instances keys origin skew (fun nonce => negb (check_and_add nonce)) now.
Proof.
  intros hmac er sep size instances keys origin skew chk now Hs Hz Ho Hne.
  exact (gate_equals_table_gen hmac er sep size instances keys origin skew (Some chk) now Hs Hz
           (origin_re_ascii origin Ho) (or_intror Hne)).
Qed.
Print Assumptions C22_equals_table_partial.

(* with the replay cache disabled the gate is the table whose row 9 never fires *)
Theorem C22_equals_table_no_cache : forall hmac sep size instances keys origin skew now,
  In 44 sep -> size_ok size -> py_match penv0 origin_re origin = true ->
  gate_decision hmac Malformed (header_value sep instances) keys origin skew None now =
  spec_table size hmac instances keys origin skew (fun _ => false) now.
Proof.
  intros hmac sep size instances keys origin skew now Hs Hz Ho.
  exact (gate_equals_table_gen hmac Malformed sep size instances keys origin skew None now Hs Hz
           (origin_re_ascii origin Ho) (or_introl eq_refl)).
Qed.
Print Assumptions C22_equals_table_no_cache.

(* verify_proof called directly on ANY string is the table applied to a single header instance *)
Theorem C22_verify_equals_table : forall hmac size token keys origin skew check_and_add now,
  size_ok size -> py_match penv0 origin_re origin = true ->
  verify_proof hmac token keys origin skew (Some check_and_add) now =
  spec_table size hmac [token] keys origin skew (fun nonce => negb (check_and_add nonce)) now.
Proof.
  intros hmac size token keys origin skew chk now Hz Ho.
  exact (verify_equals_table hmac size token keys origin skew (Some chk) now Hz (origin_re_ascii origin Ho)).
Qed.
Print Assumptions C22_verify_equals_table.

(* nothing but ProofError ever leaves the verifier or the gate's decision *)
Theorem C22_only_ProofError : forall hmac empty_reason raw keys origin skew cache now site,
  py_match penv0 origin_re origin = true ->
  gate_decision hmac empty_reason raw keys origin skew cache now <> OtherExc site /\
  (forall token, verify_proof hmac token keys origin skew cache now <> OtherExc site).
Proof.
  intros hmac er raw keys origin skew cache now site Ho. split.
  - apply gate_only_proof_error. exact (origin_re_ascii origin Ho).
  - intros token. apply verify_only_proof_error. exact (origin_re_ascii origin Ho).
Qed.
Print Assumptions C22_only_ProofError.

(* require mode: every request that is not accepted raises a ProofError whose caller-visible text is the one
   constant "proxy proof required" -- independent of the header, the claimed kid and the reason *)
Theorem C22_require_uniform_401 : forall hmac empty_reason raw keys origin skew cache now,
  py_match penv0 origin_re origin = true ->
  (forall l k og, gate_decision hmac empty_reason raw keys origin skew cache now <> Accept l k og) ->
  caller_visible (gate_wrap true origin (gate_decision hmac empty_reason raw keys origin skew cache now))
  = Some require_message.
Proof.
  intros hmac er raw keys origin skew cache now Ho Hna.
  apply require_failure_visible; [exact Hna |].
  intros n. apply gate_only_proof_error. exact (origin_re_ascii origin Ho).
Qed.
Print Assumptions C22_require_uniform_401.

(* the MAC input frames its four fields unambiguously *)
Theorem C22_canonical_injective : forall k1 t1 n1 o1 k2 t2 n2 o2,
  py_match penv0 kid_re k1 = true -> py_match penv0 ts_re t1 = true ->
  py_match penv0 nonce_re n1 = true -> py_match penv0 origin_re o1 = true ->
  py_match penv0 kid_re k2 = true -> py_match penv0 ts_re t2 = true ->
  py_match penv0 nonce_re n2 = true -> py_match penv0 origin_re o2 = true ->
  canonical_string k1 t1 n1 o1 = canonical_string k2 t2 n2 o2 ->
  k1 = k2 /\ t1 = t2 /\ n1 = n2 /\ o1 = o2.
Proof. exact canonical_injective_re. Qed.
Print Assumptions C22_canonical_injective.

(* "left split on '.'": joining the fields with '.' gives the value back and no field contains a '.' *)
Theorem C22_split_fields : forall s parts, split_on 46 s = parts ->
  py_join [46] parts = s /\ forall p, In p parts -> ~ In 46 p.
Proof. exact split_fields. Qed.
Print Assumptions C22_split_fields.

(* both natural measures of a header value satisfy [size_ok] *)
Theorem C22_size_chars_and_utf8 : size_ok char_size /\ size_ok utf8_size.
Proof. split; [exact char_size_ok | exact utf8_size_ok]. Qed.
Print Assumptions C22_size_chars_and_utf8.

(* ---- non-vacuity: a concrete run through every row ---- *)
(* hmac0 returns 32 zero bytes = base64url "AAAA...A" (43 characters) *)
Definition ex_hmac : bytes -> bytes -> bytes := fun _ _ => repeat 0 32.
Definition ex_keys : keymap := fun k => if str_eqb k [107] then Some ([1; 2; 3], [76]) else None.   (* "k" -> label "L" *)
Definition ex_origin : str := [119; 49].                                                               (* "w1" *)
Definition ex_token (ts : str) (mac_last : N) : str :=
  [118; 49; 46; 107; 46] ++ ts ++ [46] ++ repeat 65 22 ++ [46] ++ repeat 65 42 ++ [mac_last].
Definition ex_run (instances : list str) (fresh : bool) (now : Z) : outcome :=
  gate_decision ex_hmac Malformed (header_value [44; 32] instances) ex_keys ex_origin 30%Z (Some (fun _ => fresh)) now.

Example C22_ex_origin : py_match penv0 origin_re ex_origin = true.
Proof. vm_compute; reflexivity. Qed.
Example C22_ex_accept : ex_run [ex_token [49; 48; 48] 65] true 100%Z = Accept [76] [107] ex_origin.
Proof. vm_compute; reflexivity. Qed.
Example C22_ex_absent : ex_run [] true 100%Z = Reject NoProof.
Proof. vm_compute; reflexivity. Qed.
Example C22_ex_empty : ex_run [[]] true 100%Z = Reject Malformed.
Proof. vm_compute; reflexivity. Qed.
Example C22_ex_two : ex_run [ex_token [49; 48; 48] 65; ex_token [49; 48; 48] 65] true 100%Z = Reject Malformed.
Proof. vm_compute; reflexivity. Qed.
Example C22_ex_expired : ex_run [ex_token [49; 48; 48] 65] true 131%Z = Reject Expired.
Proof. vm_compute; reflexivity. Qed.
Example C22_ex_edge_old : ex_run [ex_token [49; 48; 48] 65] true 130%Z = Accept [76] [107] ex_origin.
Proof. vm_compute; reflexivity. Qed.
Example C22_ex_future : ex_run [ex_token [49; 48; 48] 65] true 69%Z = Reject NotYetValid.
Proof. vm_compute; reflexivity. Qed.
Example C22_ex_edge_new : ex_run [ex_token [49; 48; 48] 65] true 70%Z = Accept [76] [107] ex_origin.
Proof. vm_compute; reflexivity. Qed.
Example C22_ex_bad_mac : ex_run [ex_token [49; 48; 48] 69] true 100%Z = Reject BadMac.          (* last char 'E' *)
Proof. vm_compute; reflexivity. Qed.
Example C22_ex_replayed : ex_run [ex_token [49; 48; 48] 65] false 100%Z = Reject Replayed.
Proof. vm_compute; reflexivity. Qed.
Example C22_ex_unknown_kid :
  ex_run [[118; 49; 46; 120; 46; 49; 46] ++ repeat 65 22 ++ [46] ++ repeat 65 43] true 100%Z = Reject UnknownKid.
Proof. vm_compute; reflexivity. Qed.
Example C22_ex_require : caller_visible (gate_wrap true ex_origin (ex_run [[]] true 100%Z)) = Some require_message.
Proof. vm_compute; reflexivity. Qed.
