(* C27: sticky lifecycle -- opt-in, drain, client token tracking.  Statements only; proofs in proof/L_StickyLife.v.
   The model (model/M_StickyLife.v) is of the code as repaired by fixes/C27-close-then-open-orphan.diff; the behaviour
   of the code before the repair is refuted/R_C27.v. *)
From Coq Require Import List Arith Bool.
From VGI Require Import M_StickyLife L_StickyLife.
Import ListNotations.

(* The theorems hold for EVERY configuration c of the regenerated code pieces (guard list, sink assignments,
   emission rules, capture order) such that
     - the refusal tests of open_session are, in order: no sink, no opt-in, already bound, draining  (model_guards)
     - good_cfg c: whatever the sink held, after _StickySink.open the emitted headers make the client hold the new
       token, after _StickySink.close they make it hold none, and a fresh sink / a response without session
       headers leave the view alone.
   cfg_model (the repaired code) is such a configuration (C27_model_is_good); tie/T_StickyLife.v checks both
   conditions for the configuration regenerated from the source on every run. *)

(* "Sessions are opened only for requests that carried VGI-Session-Accept and never while the worker is draining":
   for every worker state and every request (any presented token, any script of actions): a session that is live
   after the request and was not before exists only if the request carried the opt-in and the worker was not
   draining; otherwise no session id is minted at all and the registry can only shrink. *)
Theorem C27_open_only_with_accept_and_not_draining : forall c, c_open_guards c = model_guards -> forall s r,
  (forall x, In x (reg (fst (serve c s r))) -> ~ In x (reg s) -> rq_accept r = true /\ draining s = false) /\
  (rq_accept r = false \/ draining s = true ->
     next (fst (serve c s r)) = next s /\ incl (reg (fst (serve c s r))) (reg s)).
Proof.
  intros c Hg s r. split.
  - intros x. apply open_only_with_accept_and_not_draining. exact Hg.
  - apply serve_no_open. exact Hg.
Qed.
Print Assumptions C27_open_only_with_accept_and_not_draining.

(* "(which yields server_draining)": an open_session that passed the opt-in and the not-already-bound tests on a
   draining worker changes nothing and is answered server_draining; in particular a request that starts with it *)
Theorem C27_draining_open_yields_server_draining : forall c, c_open_guards c = model_guards ->
  (forall st, draining (r_srv st) = true -> r_ctx st = None -> do_action c true st AOpen = (st, EDraining)) /\
  (forall s acts, draining s = true ->
     fst (serve c s (mkReq None true (AOpen :: acts))) = s /\
     rs_err (snd (serve c s (mkReq None true (AOpen :: acts)))) = EDraining /\
     rs_log (snd (serve c s (mkReq None true (AOpen :: acts)))) = []).
Proof. intros c Hg. split; [exact (draining_open_refused c Hg) | exact (draining_first_open_request c Hg)]. Qed.
Print Assumptions C27_draining_open_yields_server_draining.

(* ... and server_draining is never answered by a worker that is not draining (any configuration) *)
Theorem C27_server_draining_only_while_draining : forall c s r,
  rs_err (snd (serve c s r)) = EDraining -> draining s = true.
Proof. exact server_draining_only_while_draining. Qed.
Print Assumptions C27_server_draining_only_while_draining.

(* "existing sessions keep serving during drain": whatever the drain flag, a request presenting the token of a
   live session is not answered session_lost and its method runs bound to that session *)
Theorem C27_existing_serve_during_drain : forall c s r t,
  rq_tok r = Some t -> In t (reg s) ->
  rs_err (snd (serve c s r)) <> ELost /\
  (forall acts', rq_acts r = ARes :: acts' -> exists l, rs_log (snd (serve c s r)) = Some t :: l).
Proof. exact existing_serve_during_drain. Qed.
Print Assumptions C27_existing_serve_during_drain.

(* ... and more: the drain flag has no influence at all on a request that does not call open_session
   (same registry effect, same headers, same error, same sessions seen) *)
Theorem C27_drain_does_not_change_service : forall c s r b,
  ~ In AOpen (rq_acts r) ->
  serve c (set_dr b s) r = (set_dr b (fst (serve c s r)), snd (serve c s r)).
Proof. exact drain_does_not_change_service. Qed.
Print Assumptions C27_drain_does_not_change_service.

(* "After every response the client's session view holds exactly the token of the session the server keeps live
   for it": for EVERY history of client events (requests of any view with any script of open/close/resume/noop
   actions, calls outside a view, drain toggles) and every view v, the sessions minted by v's requests that are
   still in the registry are exactly [token held by v], or none when v holds no token.  The statement is about the
   state after the whole history, hence (h arbitrary) after every response. *)
Theorem C27_view_equals_live : forall c, c_open_guards c = model_guards -> good_cfg c -> forall h v,
  Forall client_event h ->
  live_of (run c h) v = opt_list (w_view (run c h) v).
Proof. exact view_equals_live. Qed.
Print Assumptions C27_view_equals_live.

(* "so no live session is orphaned by the client" *)
Theorem C27_no_live_session_orphaned : forall c, c_open_guards c = model_guards -> good_cfg c -> forall h s,
  Forall client_event h ->
  In s (reg (w_srv (run c h))) -> exists v, w_view (run c h) v = Some s.
Proof. exact no_live_session_orphaned. Qed.
Print Assumptions C27_no_live_session_orphaned.

(* the hypotheses are met by the modelled (repaired) code *)
Theorem C27_model_is_good : c_open_guards cfg_model = model_guards /\ good_cfg cfg_model.
Proof. split; [exact cfg_model_guards | exact cfg_model_good]. Qed.
Print Assumptions C27_model_is_good.

(* ---- non-vacuity ---- *)
(* open with opt-in on a non-draining worker registers session 0; without opt-in / while draining nothing *)
Example C27_ex_open : reg (fst (serve cfg_model (mkServer [] 0 false) (mkReq None true [AOpen]))) = [0].
Proof. vm_compute; reflexivity. Qed.
Example C27_ex_no_optin : serve cfg_model (mkServer [] 0 false) (mkReq None false [AOpen]) = (mkServer [] 0 false, mkResp None false ERuntime []).
Proof. vm_compute; reflexivity. Qed.
Example C27_ex_draining : serve cfg_model (mkServer [3] 4 true) (mkReq None true [AOpen]) = (mkServer [3] 4 true, mkResp None false EDraining []).
Proof. vm_compute; reflexivity. Qed.
(* during drain session 3 is resumed, used, and closed *)
Example C27_ex_serve_during_drain :
  serve cfg_model (mkServer [3] 4 true) (mkReq (Some 3) true [ARes; AClose; ARes]) =
  (mkServer [] 4 true, mkResp None true ENone [Some 3; None]).
Proof. vm_compute; reflexivity. Qed.
(* one request closes a session and opens another: the view follows *)
Example C27_ex_close_then_open :
  let w := run cfg_model [EvView 0 [AOpen]; EvView 1 [AOpen]; EvView 0 [AClose; AOpen]; EvDrain true; EvView 1 [ARes; AClose; AOpen]] in
  (reg (w_srv w), w_view w 0, w_view w 1, live_of w 0, live_of w 1) = ([2], Some 2, None, [2], []).
Proof. vm_compute; reflexivity. Qed.
Example C27_ex_open_then_close :
  let w := run cfg_model [EvView 0 [AOpen; AClose]; EvPlain [AClose; AOpen]] in (reg (w_srv w), w_view w 0) = ([], None).
Proof. vm_compute; reflexivity. Qed.
Example C27_ex_client_history : Forall client_event [EvView 0 [AOpen]; EvPlain [AClose]; EvDrain true; EvView 0 [AClose; AOpen]].
Proof. repeat constructor. Qed.
