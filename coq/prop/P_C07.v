(* C07 Implementation errors reach the client faithfully -- theorem statements only
   (proofs in proof/L_WireErr.v, proof/L_WireErrSites.v; models model/M_WireErr.v over model/M_Wire.v).

   exn            = what the service implementation raised: class name [cls], exception text str(exc) [emsg], and the
                    error kind [kind] (the error_kind attribute when it is a str: the typed framework errors) --
                    ARBITRARY code-point strings (empty, non-ASCII, newlines, any length).
   client_error   = Message.from_exception -> add_to_metadata (error_kind hoist) -> _write_message_batch -> the wire
                    -> _dispatch_log_or_error -> RpcError, for any traceback / cause / context / server id / request id.
                    json.dumps / json.loads enter as Section variables with the round-trip hypothesis [loads_dumps].
   run_pipe       = pipe / subprocess / unix / tcp / shm-pipe ; run_http cfg = HTTP for every cap (M_Wire).
   first_failure  = the exception raised at the first failing dispatch site on the script's path: the unary method,
                    stream init, the k-th process() call (k = 0 first, k > 0 later; the step's own logs precede the
                    raise), a failing out.validate(); first_failure_http adds the hard-cap overshoot (RuntimeError).
   http_session   = every HTTP response of the call with [failed] = "the dispatch of this request raised".

   Side conditions of the site theorems (inherited from C01, each a class documented in refuted/R_C01.v):
     records sc       the client's on_log callback does not raise                      (C04/C08)
     no_exc_logs p    the implementation sends no EXCEPTION-level client log itself (the client turns such a log
                      into an RpcError of its own -- not an implementation exception)
     pipe_reads p sc  the socket client reads at least one response (a headerless stream reports an init error at
                      the first read, not at the call)
     complete sc      the script consumes the whole call (a producer is iterated to exhaustion) *)
From Coq Require Import List NArith ZArith Bool String.
From VGI Require Import Corr M_Wire L_Wire L_WireHttp M_WireErr L_WireErr L_WireErrSites.
Import ListNotations.
Open Scope N_scope.

Section Json.
  Variable dumps : jobj -> str.
  Variable loads : str -> option jobj.
  Hypothesis loads_dumps : forall o, loads (dumps o) = Some o.

  (* type = the class name, message = "<class name>: <exception text>" (so it carries the text), for ALL exceptions *)
  Theorem C07_type_and_text : forall (v : exc_view) (server_id : option str) (request_id : str),
    exists r, client_error dumps loads v server_id request_id = DRaise r
      /\ r_type r = cls (xe v)
      /\ r_message r = cls (xe v) ++ s ": " ++ emsg (xe v)
      /\ (exists pre, r_message r = pre ++ emsg (xe v))
      /\ rpc_error_str r = cls (xe v) ++ s ": " ++ r_message r
      /\ r_traceback r = xtb v /\ r_request_id r = request_id.
  Proof.
    intros v sid rid. exists (expected_error v rid). rewrite (client_error_exact dumps loads loads_dumps).
    repeat split; try reflexivity. apply summary_carries_text.
  Qed.

  (* the kind is carried (top-level vgi_rpc.error_kind, mirrored in log_extra) and exposed on the client error,
     exactly when the exception has one -- no kind is invented for an untyped exception *)
  Theorem C07_kind_carried_exposed : forall (v : exc_view) (server_id : option str) (request_id : str),
    mget K_KIND (error_metadata dumps v server_id request_id) = kind (xe v)
    /\ (forall o, loads (dumps (snd (from_exception v))) = Some o -> jget X_KIND o = option_map JStr (kind (xe v)))
    /\ exists r, client_error dumps loads v server_id request_id = DRaise r /\ r_kind r = kind (xe v).
  Proof.
    intros v sid rid. destruct (kind_carried dumps loads loads_dumps v sid rid) as [H1 H2].
    split; [exact H1|]. split; [exact H2|].
    exists (expected_error v rid). split; [apply (client_error_exact dumps loads loads_dumps)|reflexivity].
  Qed.
End Json.

(* the (type, message) pair M_Wire's traces carry for an error batch IS the projection of that client error *)
Theorem C07_event_is_client_error : forall v rid, event_of_error (expected_error v rid) = err_event (xe v).
Proof. exact event_of_expected. Qed.

Definition reaches (o : option exn) (t : list event) : Prop :=
  match o with
  | Some e => exists pre, t = pre ++ [err_event e] /\ forall x, In x pre -> is_error x = false
  | None => forall x, In x t -> is_error x = false
  end.

Lemma reaches_of_outcome o t : outcome_ok o t -> reaches o t.
Proof.
  destruct o as [e|]; cbn.
  - intros (pre & -> & Hp). exists pre. split; [reflexivity|apply nonterm_no_error, Hp].
  - apply nonterm_no_error.
Qed.

(* every dispatch site, socket family: the client's observation ends with exactly that error (and a call whose
   dispatch never fails is never reported as an error) *)
Theorem C07_reaches_client_socket : forall p sc,
  legal p sc = true -> records sc = true -> no_exc_logs p = true -> pipe_reads p sc = true -> complete sc = true ->
  reaches (first_failure p sc) (run_pipe p sc).
Proof. intros. apply reaches_of_outcome, pipe_outcome; assumption. Qed.

(* every dispatch site, HTTP, every max_response_bytes and size function *)
Theorem C07_reaches_client_http : forall cfg p sc,
  legal p sc = true -> records sc = true -> no_exc_logs p = true -> complete sc = true ->
  reaches (first_failure_http cfg p sc) (run_http cfg p sc).
Proof. intros. apply reaches_of_outcome, http_outcome; assumption. Qed.

Theorem C07_http_failure_is_the_implementations : forall cfg p sc,
  fits cfg p sc = true -> first_failure_http cfg p sc = first_failure p sc.
Proof. exact first_failure_http_fits. Qed.

(* HTTP: every response of a dispatched call has status 200; it carries X-VGI-RPC-Error exactly when the dispatch of
   that request failed, and contains an error batch exactly then -- so the response that reports an implementation
   exception is 200 + marker, and a successful response never carries the marker *)
Theorem C07_marker_iff_failed : forall cfg p sc r failed,
  In (r, failed) (http_session cfg p sc) ->
  h_status r = 200 /\ (h_marker r = true <-> failed = true) /\ (has_ferr (h_body r) = true <-> failed = true).
Proof.
  intros cfg p sc r failed Hin.
  pose proof (http_marker_iff_failed cfg p sc) as HF. rewrite Forall_forall in HF.
  destruct (HF _ Hin) as (H1 & H2 & H3). cbn [fst snd] in *. rewrite H2, H3. repeat split; auto.
Qed.

(* the frames M_Wire.run_http lets the client consume are the concatenated turns http_session is made of *)
Theorem C07_turns_are_the_wire_frames : forall cfg sts i z,
  http_frames cfg sts i z =
    let '(fs, _, nx) := http_turn cfg sts i z in
    fs ++ match nx with Some (r, j) => http_frames cfg r j (base cfg) | None => [] end.
Proof. exact http_turn_concat. Qed.

Print Assumptions C07_type_and_text.
Print Assumptions C07_kind_carried_exposed.
Print Assumptions C07_event_is_client_error.
Print Assumptions C07_reaches_client_socket.
Print Assumptions C07_reaches_client_http.
Print Assumptions C07_http_failure_is_the_implementations.
Print Assumptions C07_marker_iff_failed.
Print Assumptions C07_turns_are_the_wire_frames.

(* ---- non-vacuity *)
Definition ex_kind_exn : exn := {| cls := s "SessionLostError"; emsg := [104; 233; 10; 9731]; kind := Some (s "session_lost") |}.
Definition ex_view : exc_view := {| xe := ex_kind_exn; xtb := s "Traceback (most recent call last): ..."; xcause := Some (s "c"); xcontext := None; xframes := s "[]" |}.

(* the codec on a concrete typed framework error (non-ASCII text with a newline), through run_case_codec *)
Example C07_nonvacuous_codec :
  snd (run_case_codec (ex_view, Some (s "srv"), s "rid")) =
    Some (s "SessionLostError", s "SessionLostError: " ++ [104; 233; 10; 9731], s "Traceback (most recent call last): ...", s "rid", Some (s "session_lost"))
  /\ mget K_KIND (fst (run_case_codec (ex_view, Some (s "srv"), s "rid"))) = Some (s "session_lost").
Proof. vm_compute. split; reflexivity. Qed.

Definition ex_log7 (l : level) (t : string) : logmsg := {| lvl := l; text := s t; extra := [] |}.
Definition ex_b7 (r t : N) : batch := {| rows := r; tag := t; meta := [] |}.
(* a header producer: init logs, one good step, then a step that logs and raises a typed error (site: later process step, after logging) *)
Definition ex_prog7 : prog := PStream {| ilogs := [ex_log7 INFO "init"]; ires := InitOk; hdr := Some 7%Z; steps :=
  [ {| slogs := [ex_log7 DEBUG "s0"]; emit := Some (ex_b7 3 0); fin := false; sraise := None |};
    {| slogs := [ex_log7 WARN "about to fail"]; emit := Some (ex_b7 1 1); fin := false; sraise := Some ex_kind_exn |} ] |}.
Definition ex_cfg7 (c : option N) : httpcfg := {| cap := c; fsize := fun _ => 100; base := 100 |}.

Example C07_nonvacuous_site :
  let sc := SIter true 0 AStop CbRecord in
  legal ex_prog7 sc = true /\ records sc = true /\ no_exc_logs ex_prog7 = true /\ pipe_reads ex_prog7 sc = true /\ complete sc = true
  /\ first_failure ex_prog7 sc = Some ex_kind_exn
  /\ forallb (fun c => match first_failure_http (ex_cfg7 c) ex_prog7 sc with Some _ => true | None => false end) [None; Some 1; Some 250; Some 10000000] = true
  /\ List.length (run_pipe ex_prog7 sc) = 5%nat
  /\ map hobs (http_session (ex_cfg7 None) ex_prog7 sc) = [(200, false, false); (200, true, true)]
  /\ map hobs (http_session (ex_cfg7 (Some 10000000)) ex_prog7 sc) = [(200, true, true)].
Proof. vm_compute. repeat split; reflexivity. Qed.
