(* C04 A socket connection stays usable after any call outcome -- theorem statements only (proofs: proof/L_WireConn.v).

   conn     = (client->server queue, server->client queue, server control point, client control point);  clean c
   conn_call v p sc  : one call (program p = what the service does, script sc = what the client does) on a CLEAN
                       connection -> (client observation, connection afterwards), for source variant v
   run_seq v c calls : a history of calls on one connection; a call that starts on a connection that is not clean is
                       Desync (it does not receive its own response)
   run_pipe / observe: M_Wire's single-call socket model / reference semantics (C01_pipe_refines links them)
   norm v sc p       : p, with an implementation fault the variant answers as an init error written as that init error
   own x             : Obs (run_pipe (fst x) (snd x)) -- what the call observes on a fresh connection

   wellbehaved v p sc (the class of the theorems; every excluded class is refuted in refuted/R_C04.v):
     unary  : any logs; a recording callback -- or ANY callback when the variant drains on every exception
     stream : recording callback, no EXCEPTION-level client log, the client ends the call (exhaust / close / cancel at ANY
              point), the init does not fail on a method WITHOUT header, no implementation fault the variant does not catch.
   Failure kinds (method error, init error, header error, rejection = init error, mid-stream error at any step,
   non-Stream return, missing declared header, raise after logging) and client exit points (k, close / cancel) are
   constructors of prog / script: "every failure at every position" is the forall. *)
From Coq Require Import List NArith ZArith Bool String.
From VGI Require Import Corr M_Wire L_Wire M_WireConn L_WireConn.
Import ListNotations.
Open Scope N_scope.

(* every call on a clean connection observes exactly the single-call socket model (M_Wire.run_pipe, which since repo
   735475d answers implementation faults as init errors) -- unless the source lacks the guards AND the call is such a
   fault; with the guards there is no side condition at all *)
Theorem C04_obs_is_run_pipe : forall v p sc, uncaught_fault v p sc = false -> fst (conn_call v p sc) = run_pipe p sc.
Proof. exact conn_call_obs. Qed.

Theorem C04_guards_catch_every_fault : forall v p sc, checks_stream_result v = true -> uncaught_fault v p sc = false.
Proof. exact checks_no_uncaught. Qed.

Theorem C04_clean_after : forall v p sc, wellbehaved v p sc = true -> clean (snd (conn_call v p sc)) = true.
Proof. exact conn_clean_after. Qed.

(* repaired variant: a unary call leaves the connection clean whatever it logs and whatever the on_log callback does *)
Theorem C04_unary_clean_whatever_the_callback : forall u c, clean (snd (conn_call v_repaired (PUnary u) (SUnary c))) = true.
Proof. intros u c. apply conn_clean_after. destruct c; reflexivity. Qed.

(* the observation of a history = the per-call observations (own x = Obs (run_pipe ..)), for call lists of ANY length *)
Theorem C04_history_correct : forall v calls, Forall (wb v) calls ->
  run_seq v conn0 calls = map own calls /\ clean (conn_after_seq v conn0 calls) = true.
Proof. intros v calls H. exact (run_seq_wb v calls conn0 eq_refl H). Qed.

(* ... and the NEXT call, whatever it is (well-behaved or not), receives its own response *)
Theorem C04_next_call_correct : forall v hist p sc, Forall (wb v) hist -> uncaught_fault v p sc = false ->
  run_seq v conn0 (hist ++ [(p, sc)]) = map own hist ++ [Obs (run_pipe p sc)].
Proof. exact next_call_own. Qed.

(* ... which is the reference semantics of that call under C01's side conditions *)
Theorem C04_next_call_reference : forall v hist p sc, Forall (wb v) hist ->
  legal p sc = true -> records sc = true -> no_exc_logs p = true -> pipe_reads p sc = true ->
  run_seq v conn0 (hist ++ [(p, sc)]) = map own hist ++ [Obs (cut (observe p sc))].
Proof.
  intros v hist p sc Hh H1 H2 H3 H4.
  assert (Hu : uncaught_fault v p sc = false).
  { unfold legal in H1. apply andb_true_iff in H1 as [Hk _].
    destruct p as [u|sp]; destruct sc as [c|h k a c|h n a c]; try reflexivity; cbn in Hk |- *;
      apply andb_true_iff in Hk as [Hi Hd]; unfold eff_init, init_outcome;
      destruct (ires sp); try discriminate Hi; try reflexivity;
      destruct h; try reflexivity; destruct (hdr sp); try discriminate Hd; reflexivity. }
  rewrite (next_call_own v hist p sc Hh Hu). unfold own at 2. cbn [fst snd].
  rewrite (pipe_refines _ _ H1 H2 H3 H4). reflexivity.
Qed.

(* a well-behaved call (answered faults on header methods included) observes the reference semantics of the init error
   it is answered with *)
Theorem C04_wellbehaved_reference : forall v p sc, (match sc with SUnary _ => False | _ => True end) -> wellbehaved v p sc = true ->
  run_pipe p sc = cut (observe (norm v sc p) sc).
Proof. exact wb_observe. Qed.

(* progress: in a history of well-behaved calls no call is Desync and no client read waits for bytes that are never written *)
Theorem C04_no_stuck : forall v calls, Forall (wb v) calls ->
  ~ In Desync (run_seq v conn0 calls) /\ forall t, In (Obs t) (run_seq v conn0 calls) -> ~ In EBlocked t.
Proof.
  intros v calls H. destruct (run_seq_wb v calls conn0 eq_refl H) as [-> _]. split.
  - intro X. apply in_map_iff in X as [x [Hx _]]. discriminate Hx.
  - intros t X. apply in_map_iff in X as [x [Hx Hin]]. injection Hx as <-.
    rewrite Forall_forall in H. destruct x as [p sc]. exact (wb_no_blocked v p sc (H _ Hin)).
Qed.

Print Assumptions C04_obs_is_run_pipe.
Print Assumptions C04_guards_catch_every_fault.
Print Assumptions C04_clean_after.
Print Assumptions C04_unary_clean_whatever_the_callback.
Print Assumptions C04_history_correct.
Print Assumptions C04_next_call_correct.
Print Assumptions C04_next_call_reference.
Print Assumptions C04_wellbehaved_reference.
Print Assumptions C04_no_stuck.

(* ---- non-vacuity: one history with a failure of (almost) every kind, all inside `wellbehaved v_repaired` *)
Definition xl (l : level) (t : string) : logmsg := {| lvl := l; text := s t; extra := [] |}.
Definition xb (r t : N) : batch := {| rows := r; tag := t; meta := [] |}.
Definition boom : exn := {| cls := s "ValueError"; emsg := s "boom"; kind := None |}.
Definition st_ok (ls : list logmsg) (t : N) : step := {| slogs := ls; emit := Some (xb 1 t); fin := false; sraise := None |}.
Definition st_raise (ls : list logmsg) : step := {| slogs := ls; emit := None; fin := false; sraise := Some boom |}.
Definition sp_of (i : init_res) (h : option Z) (sts : list step) : prog := PStream {| ilogs := [xl INFO "init"]; ires := i; hdr := h; steps := sts |}.
Definition ex_history : list (prog * script) := [
  (PUnary {| ulogs := [xl WARN "w"]; ures_of := URaise boom |}, SUnary CbRecord);                    (* method error *)
  (sp_of (InitRaise boom) (Some 1%Z) [], SIter true 2 AClose CbRecord);                                (* init error, header method *)
  (sp_of InitOk None [st_ok [] 0], SExch true 1 AClose CbRecord);                                      (* declared header missing *)
  (sp_of InitBadReturn (Some 1%Z) [], SIter true 0 AStop CbRecord);                                    (* non-Stream return *)
  (sp_of InitOk (Some 1%Z) [st_ok [xl DEBUG "a"] 0; st_raise [xl INFO "lost"]; st_ok [] 2], SIter false 5 AStop CbRecord);  (* raises after logging, mid-stream *)
  (sp_of InitOk (Some 1%Z) [st_ok [] 0; st_ok [] 1; st_ok [] 2], SIter true 1 ACancel CbRecord);       (* cancel after one batch *)
  (sp_of InitOk (Some 1%Z) [st_ok [] 0; st_raise []], SExch false 0 AClose CbRecord);                  (* close before the first exchange *)
  (PUnary {| ulogs := [xl INFO "l"; xl EXC "x"]; ures_of := UOk 3 |}, SUnary CbRaise)                  (* raising on_log callback, unary *)
].
Example C04_nonvacuous :
  forallb (fun x => wellbehaved v_repaired (fst x) (snd x)) ex_history = true
  /\ List.length (List.concat (map (fun o => match o with Obs t => t | Desync => [] end) (run_seq v_repaired conn0 ex_history))) = 14%nat
  /\ existsb (fun x => negb (wellbehaved v_old (fst x) (snd x))) ex_history = true.
Proof. vm_compute. repeat split; reflexivity. Qed.
