(* C18: compression codecs round-trip and respect output caps.
   Statements only; every proof is in proof/L_Codec.v.

   The codec libraries are the record [E : env] (model/M_Codec.v); what is assumed about them
   is the premise [codec_laws] / [zstd_frame_of] / [gz_frame_of] of each theorem:
     - the streaming decoder of a frame of d yields d        (decomp o comp = id : ASSUMED)
     - a stored content size is the true size, and then the one-shot decoder returns d
     - reader.read(n>=1) returns >= 1 byte while output remains; zlib's decompress(.., n>=1)
       leaves unconsumed input only after returning >= 1 byte
   Everything else -- sentinel handling, fast refusal, the running total of the loops, the
   read sizes, the flush tail, dispatch and default levels -- is proved, for ALL byte strings,
   ALL levels and ALL caps >= 0.  [K : knobs] = the values of the source no proof depends on
   (eof guard / eof break present or not, read chunk, default levels, wbits; regenerated): the theorems hold
   for every K whose read chunk is >= 1. *)
From Coq Require Import List NArith ZArith Bool.
From VGI Require Import M_Codec L_Codec.
Import ListNotations.
Open Scope Z_scope.

(* compress then decompress under a cap: the original iff it fits, otherwise the limit error *)
Theorem C18_roundtrip_cap : forall K, 1 <= k_chunk K -> forall E, codec_laws (std_params K) E ->
  forall e lvl d cap, e <> Identity -> 0 <= cap ->
    decompress (std_params K) E e (compress (std_params K) E e d lvl) (Some cap) =
      if len d <=? cap then Ok d else LimitErr.
Proof. exact roundtrip_cap. Qed.
Print Assumptions C18_roundtrip_cap.

(* ... and without a cap: always the original, for the three codecs *)
Theorem C18_roundtrip_nocap : forall K E, codec_laws (std_params K) E ->
  forall e lvl d, decompress (std_params K) E e (compress (std_params K) E e d lvl) None = Ok d.
Proof. exact roundtrip_nocap. Qed.
Print Assumptions C18_roundtrip_nocap.

(* any zstd frame of d -- size-declaring or size-less, from whichever compressor *)
Theorem C18_zstd_frame_cap : forall K, 1 <= k_chunk K -> forall E f d cap,
  zstd_frame_of (std_params K) E f d -> 0 <= cap ->
  decompress (std_params K) E Zstd f (Some cap) = if len d <=? cap then Ok d else LimitErr.
Proof. exact zstd_frame_cap. Qed.
Print Assumptions C18_zstd_frame_cap.

Theorem C18_zstd_frame_nocap : forall K E f d,
  zstd_frame_of (std_params K) E f d -> decompress (std_params K) E Zstd f None = Ok d.
Proof. exact zstd_frame_nocap. Qed.
Print Assumptions C18_zstd_frame_nocap.

(* any complete gzip stream of d *)
Theorem C18_gzip_frame_cap : forall K, 1 <= k_chunk K -> forall E f d cap,
  gz_frame_of (std_params K) E f d -> 0 <= cap ->
  decompress (std_params K) E Gzip f (Some cap) = if len d <=? cap then Ok d else LimitErr.
Proof. exact gz_frame_cap. Qed.
Print Assumptions C18_gzip_frame_cap.

Theorem C18_gzip_frame_nocap : forall K E f d,
  gz_frame_of (std_params K) E f d -> decompress (std_params K) E Gzip f None = Ok d.
Proof. exact gz_frame_nocap. Qed.
Print Assumptions C18_gzip_frame_nocap.

(* identity is the no-op in both directions, whatever the level and the cap (no law needed) *)
Theorem C18_identity : forall P E d lvl cap,
  decompress P E Identity (compress P E Identity d lvl) cap = Ok d.
Proof. exact identity_passthrough. Qed.
Print Assumptions C18_identity.

(* both spellings of "content size not stored" mean unknown, and nothing else does *)
Theorem C18_unknown_size_sentinel : forall K raw,
  zstd_content_size (std_params K) raw = None <-> raw = -1 \/ raw = 18446744073709551615.
Proof. exact content_size_none_iff. Qed.
Print Assumptions C18_unknown_size_sentinel.

Theorem C18_known_size : forall K raw,
  raw <> -1 -> raw <> 18446744073709551615 -> zstd_content_size (std_params K) raw = Some raw.
Proof. exact content_size_some. Qed.
Print Assumptions C18_known_size.

(* a declared size above the cap is refused before any decoding (honest header or not) ... *)
Theorem C18_declared_over_cap_refused : forall K E f s cap,
  zstd_content_size (std_params K) (zstd_declared E f) = Some s -> s > cap ->
  decompress_tr (std_params K) E Zstd f (Some cap) = (LimitErr, []).
Proof. exact declared_over_cap_refused. Qed.
Print Assumptions C18_declared_over_cap_refused.

(* ... and one within the cap goes to the one-shot decoder *)
Theorem C18_declared_within_cap_oneshot : forall K E f s cap,
  zstd_content_size (std_params K) (zstd_declared E f) = Some s -> s <= cap ->
  decompress_tr (std_params K) E Zstd f (Some cap) = (zstd_oneshot E f, []).
Proof. exact declared_within_cap_oneshot. Qed.
Print Assumptions C18_declared_within_cap_oneshot.

(* every size asked of reader.read / passed as zlib max_length is in [1, min(chunk, cap+1)],
   for ANY library behaviour: never 0 (= "b''" for zstd, = "unlimited" for zlib), never negative *)
Theorem C18_requests_bounded : forall K, 1 <= k_chunk K -> forall E e f cap, 0 <= cap ->
  Forall (fun n => 1 <= n <= Z.min (k_chunk K) (cap + 1)) (snd (decompress_tr (std_params K) E e f (Some cap))).
Proof. exact requests_bounded. Qed.
Print Assumptions C18_requests_bounded.

(* the zstd loop terminates whatever the reader does *)
Theorem C18_zstd_loop_terminates : forall P rd cap i total acc rest reqs,
  fst (zstd_loop P rd cap (S (length rest)) i total acc rest reqs) <> Diverge.
Proof. intros. apply zstd_loop_no_diverge. apply le_n. Qed.
Print Assumptions C18_zstd_loop_terminates.

(* ---- non-vacuity: the premises are satisfiable, and both paths are exercised ---- *)
Example C18_laws_inhabited : forall K sized, codec_laws (std_params K) (toy_env sized).
Proof. exact toy_laws. Qed.

Definition with_eof_guard : knobs := {| k_eof := true; k_eof_break := true; k_chunk := 2; k_zstd_level := 3; k_gzip_level := 6; k_wbits := 31 |}.

(* size-less frame (declared = -1): streaming loop; exactly at the cap, one below, empty *)
Example C18_stream_at_cap :
  decompress (std_params today) (toy_env false) Zstd [1;2;3]%N (Some 3) = Ok [1;2;3]%N /\
  decompress (std_params today) (toy_env false) Zstd [1;2;3]%N (Some 2) = LimitErr /\
  decompress (std_params today) (toy_env false) Zstd [] (Some 0) = Ok [] /\
  snd (decompress_tr (std_params today) (toy_env false) Zstd [1;2;3]%N (Some 3)) = [4; 1].
Proof. vm_compute. repeat split. Qed.

(* size-declaring frame: fast path *)
Example C18_declared_at_cap :
  decompress (std_params today) (toy_env true) Zstd [1;2;3]%N (Some 3) = Ok [1;2;3]%N /\
  decompress (std_params today) (toy_env true) Zstd [1;2;3]%N (Some 2) = LimitErr.
Proof. vm_compute. repeat split. Qed.

Example C18_gzip_at_cap :
  decompress (std_params with_eof_guard) (toy_env true) Gzip [1;2;3]%N (Some 3) = Ok [1;2;3]%N /\
  decompress (std_params with_eof_guard) (toy_env true) Gzip [1;2;3]%N (Some 2) = LimitErr /\
  decompress (std_params with_eof_guard) (toy_env true) Gzip [1;2;3]%N (Some 0) = LimitErr /\
  snd (decompress_tr (std_params with_eof_guard) (toy_env true) Gzip [1;2;3]%N (Some 3)) = [2; 2].
Proof. vm_compute. repeat split. Qed.
