(* C01 Transport-agnostic call semantics -- theorem statements only (proofs in proof/L_Wire.v, proof/L_WireHttp.v).

   observe  : reference semantics (what any client must observe)
   run_pipe : pipe / subprocess / unix / tcp / shm-pipe (one model: same frames over a FIFO byte channel)
   run_http : HTTP for every configuration cfg = (max_response_bytes cap, abstract frame sizes); compression and
              externalisation are identity wrappers at frame level.
   proj     : the observation the statement compares -- (ordered logs, ordered result/header/batches, terminal).

   Side conditions (each one is a class where the faithful model of the CODE deviates; see refuted/R_C01.v):
     records sc      the on_log callback does not raise                       (raising callbacks: C04/C08)
     no_exc_logs p   no client-directed log at EXCEPTION level
     pipe_reads p sc the socket client reads a response or closes/cancels a stream whose init succeeded
     complete sc     a producer is iterated to exhaustion (no early close/cancel/abandon)
     fits cfg p sc   no successful unary/exchange response exceeds max_response_bytes (a HARD cap there)
     first_turn_ok   the first HTTP response of a producer carries no error *)
From Coq Require Import List NArith ZArith Bool String.
From VGI Require Import Corr M_Wire L_Wire L_WireHttp.
Import ListNotations.
Open Scope N_scope.

Theorem C01_pipe_refines : forall p sc,
  legal p sc = true -> records sc = true -> no_exc_logs p = true -> pipe_reads p sc = true ->
  run_pipe p sc = cut (observe p sc).
Proof. exact pipe_refines. Qed.

Theorem C01_http_refines_partial : forall cfg p sc,
  legal p sc = true -> records sc = true -> no_exc_logs p = true -> complete sc = true ->
  fits cfg p sc = true -> first_turn_ok cfg p sc = true ->
  proj (run_http cfg p sc) = proj (cut (observe p sc)).
Proof. exact http_refines_partial. Qed.

Theorem C01_agnostic_partial : forall cfg p sc,
  legal p sc = true -> records sc = true -> no_exc_logs p = true -> pipe_reads p sc = true -> complete sc = true ->
  fits cfg p sc = true -> first_turn_ok cfg p sc = true ->
  proj (run_pipe p sc) = proj (run_http cfg p sc).
Proof.
  intros cfg p sc H1 H2 H3 H4 H5 H6 H7.
  rewrite (pipe_refines p sc H1 H2 H3 H4). symmetry. apply http_refines_partial; assumption.
Qed.

(* for EVERY cap and size function: the concatenation of all HTTP turns of a producer, read sequentially, is the
   reference producer semantics -- chunking by max_response_bytes is invisible (shared with C11) *)
Theorem C01_turns_invisible : forall cfg sts i z, steps_quiet sts = true ->
  http_consume CbRecord (http_frames cfg sts i z) None = obs_prod CbRecord sts None.
Proof. exact consume_frames. Qed.

Print Assumptions C01_pipe_refines.
Print Assumptions C01_http_refines_partial.
Print Assumptions C01_agnostic_partial.
Print Assumptions C01_turns_invisible.

(* ---- non-vacuity: a header producer with logs, a zero-row batch, emit+finish; an exchange; a failing unary *)
Definition ex_log (l : level) (t : string) : logmsg := {| lvl := l; text := s t; extra := [(s "k", s "v")] |}.
Definition ex_b (r t : N) : batch := {| rows := r; tag := t; meta := [] |}.
Definition ex_prod : prog := PStream {| ilogs := [ex_log INFO "init"]; ires := InitOk; hdr := Some 7%Z; steps :=
  [ {| slogs := [ex_log DEBUG "s0"]; emit := Some (ex_b 3 0); fin := false; sraise := None |};
    {| slogs := []; emit := Some (ex_b 0 0); fin := false; sraise := None |};
    {| slogs := [ex_log WARN "s2"]; emit := Some (ex_b 2 2); fin := true; sraise := None |} ] |}.
Definition ex_cfg (c : option N) : httpcfg := {| cap := c; fsize := fun _ => 100; base := 100 |}.

Example C01_nonvacuous_producer :
  let sc := SIter true 0 AStop CbRecord in
  legal ex_prod sc = true /\ records sc = true /\ no_exc_logs ex_prod = true /\ pipe_reads ex_prod sc = true /\ complete sc = true
  /\ forallb (fun c => fits (ex_cfg c) ex_prod sc && first_turn_ok (ex_cfg c) ex_prod sc) [None; Some 1; Some 250; Some 10000000] = true
  /\ List.length (run_pipe ex_prod sc) = 8%nat.
Proof. vm_compute. repeat split; reflexivity. Qed.

Example C01_nonvacuous_exchange_error :
  let p := PStream {| ilogs := []; ires := InitOk; hdr := None; steps :=
     [ {| slogs := [ex_log ERR "e0"]; emit := Some (ex_b 1 0); fin := false; sraise := None |};
       {| slogs := [ex_log ERR "lost"]; emit := None; fin := false; sraise := Some {| cls := s "ValueError"; emsg := s "boom"; kind := None |} |} ] |} in
  let sc := SExch false 3 AClose CbRecord in
  legal p sc = true /\ no_exc_logs p = true /\ pipe_reads p sc = true /\ fits (ex_cfg (Some 1000)) p sc = true
  /\ run_pipe p sc = [ELog (ex_log ERR "e0"); EBatch (ex_b 1 0); EError (s "ValueError") (s "ValueError: boom")].
Proof. vm_compute. repeat split; reflexivity. Qed.
