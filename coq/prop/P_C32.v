(* C32: worker pool -- exclusive ownership, bounded idle list, clean reuse.  Statements only; proofs in
   proof/L_Pool.v.  [cfg_fixed] is the configuration of the repaired source (fixes/C32-*.diff); tie/T_Pool.v
   restates the theorems over the configuration regenerated from the working tree on every run.

   Every theorem quantifies over
     max, timeout : the pool parameters max_idle (0 included) and idle_timeout,
     specs        : ANY list of threads -- borrowers (cmd key, does the spawn succeed, script of
                    unary / open-stream / tick / close / cancel operations, the callback invocations at which
                    on_log raises and the class of the exception: uncaught by the client, OSError, RpcError,
                    pa.ArrowInvalid), reapers, closers,
     sch          : ANY schedule (list of Tick | Kill pid | Thr i, any length). *)
From Coq Require Import List Arith Bool.
From VGI Require Import M_Pool L_Pool.
Import ListNotations.

(* no pid is held by two borrowers, or by a borrower while it sits in the idle list (nor twice in the idle list) *)
Theorem C32_exclusive_owner : forall max timeout specs sch,
  let s := run cfg_fixed max timeout (init specs) sch in
  NoDup (owned (snd s) ++ idle_pids (g_idle (fst s))).
Proof. intros. apply (exclusive_owner cfg_fixed max timeout cfg_fixed_ok). Qed.
Print Assumptions C32_exclusive_owner.

(* ... spelled out: two threads holding the same worker are the same thread, and that worker is not idle *)
Theorem C32_owner_unique : forall max timeout specs sch i j p,
  let s := run cfg_fixed max timeout (init specs) sch in
  option_map owner_of (nth_error (snd s) i) = Some (Some p) ->
  option_map owner_of (nth_error (snd s) j) = Some (Some p) ->
  i = j /\ ~ In p (idle_pids (g_idle (fst s))).
Proof. intros max timeout specs sch i j p. apply (owner_unique cfg_fixed max timeout cfg_fixed_ok). Qed.
Print Assumptions C32_owner_unique.

(* in every reachable state the idle list holds at most max_idle workers *)
Theorem C32_idle_le_max_idle : forall max timeout specs sch,
  idle_total (g_idle (fst (run cfg_fixed max timeout (init specs) sch))) <= max.
Proof. intros. apply (idle_le_max_idle cfg_fixed max timeout cfg_fixed_ok). Qed.
Print Assumptions C32_idle_le_max_idle.

(* every hand-out of a previously used worker happened while its process was alive and its connection at a
   message boundary (handout_ok h := h_reused h = true -> h_alive h = true /\ h_clean h = true) *)
Theorem C32_reuse_only_clean_alive : forall max timeout specs sch,
  Forall handout_ok (g_handouts (fst (run cfg_fixed max timeout (init specs) sch))).
Proof. intros. apply (reuse_only_clean_alive cfg_fixed max timeout cfg_fixed_ok). Qed.
Print Assumptions C32_reuse_only_clean_alive.

(* ---- non-vacuity ------------------------------------------------------------------------------- *)
Definition ex_specs := [SB 0 true [OUnary] []; SB 0 true [OOpen true; OTick] [(2, XPlain); (3, XPlain)]; SB 0 true [OUnary] []].
Definition ex_sch := repeat (Thr 0) 9 ++ repeat (Thr 1) 11 ++ repeat (Thr 2) 9.
(* borrower 0 returns worker 0; borrower 1 reuses it (a reuse hand-out exists), dirties it by an interrupted tick and
   an interrupted close-drain, so it is discarded; borrower 2 gets a fresh worker, which ends up idle *)
Example C32_ex_handouts :
  map (fun h => (h_thread h, h_pid h, h_reused h, h_alive h, h_clean h))
      (g_handouts (fst (run cfg_fixed 1 3 (init ex_specs) ex_sch)))
  = [(0, 0, false, true, true); (1, 0, true, true, true); (2, 1, false, true, true)].
Proof. vm_compute. reflexivity. Qed.
Example C32_ex_idle : g_idle (fst (run cfg_fixed 1 3 (init ex_specs) ex_sch)) = [(0, [(1, 0)])].
Proof. vm_compute. reflexivity. Qed.
(* two borrowers hold different workers at the same time *)
Example C32_ex_owners :
  map owner_of (snd (run cfg_fixed 2 3 (init ex_specs) (repeat (Thr 0) 4 ++ repeat (Thr 2) 4))) = [Some 0; None; Some 1].
Proof. vm_compute. reflexivity. Qed.
(* max_idle = 0: nothing is kept *)
Example C32_ex_max0 : idle_total (g_idle (fst (run cfg_fixed 0 3 (init ex_specs) ex_sch))) = 0.
Proof. vm_compute. reflexivity. Qed.
(* a stream ended with cancel() whose drain is cut short by an on_log raising RpcError (swallowed by cancel()):
   the worker is discarded, the next borrower gets a fresh one *)
Example C32_ex_cancel :
  map (fun h => (h_thread h, h_pid h, h_reused h))
      (g_handouts (fst (run cfg_fixed 2 3 (init [SB 0 true [OOpen false; OTick; OCancel] [(4, XRpc)]; SB 0 true [OUnary] []])
                            (repeat (Thr 0) 12 ++ repeat (Thr 1) 10))))
  = [(0, 0, false); (1, 1, false)].
Proof. vm_compute. reflexivity. Qed.
(* ... and an undisturbed cancel() leaves the worker reusable *)
Example C32_ex_cancel_clean :
  map (fun h => (h_thread h, h_pid h, h_reused h, h_clean h))
      (g_handouts (fst (run cfg_fixed 2 3 (init [SB 0 true [OOpen false; OTick; OCancel] []; SB 0 true [OUnary] []])
                            (repeat (Thr 0) 12 ++ repeat (Thr 1) 10))))
  = [(0, 0, false, true); (1, 0, true, true)].
Proof. vm_compute. reflexivity. Qed.
