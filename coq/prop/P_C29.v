(* C29: shared-memory transfer is transparent and releases every region.  Statements only; proofs are in
   proof/L_ShmXfer.v and proof/L_ShmXferLeak.v.

   Vocabulary (model/M_ShmXfer.v):
     conf                      side channel present?, segment size (c_total), SHM_MIN_BATCH_BYTES (c_thresh)
     batch                     identity + the numbers the code looks at (rows, nbytes, top-level dictionary?, Arrow's sizes)
     wf_batch / wf_call        the measured serialisation is not empty (pyarrow never produces an empty one)
     mop, mrun                 micro-operations: send+receive of one batch to an owner, release by owner, the caller's
                               release of the i-th batch it holds, change of owner; mrun runs a list of them
     call, compile, run        unary / stream / release calls, their micro-operations under the three source-shape flags,
                               a whole history from a fresh segment; inline_conf: the same without the side channel
     x_tbl, x_mem, x_refs      allocation table (as in the segment header), memory, outstanding pointers (owner, offset,
                               length, identity read at resolve time); x_err counts release calls that found no entry
     call_ok f c               for each of the three hand-over sites: the source has the releasing shape (flag true) or
                               the call does not go through the site (refused first input / EXCEPTION-level log before a
                               stream batch / before a unary result) *)
From Coq Require Import List NArith ZArith Bool.
From VGI Require Import M_Alloc L_Alloc M_ShmXfer L_ShmXfer L_ShmXferLeak.
Import ListNotations.
Open Scope N_scope.

(* (1) transparency: for every history, segment size, threshold and source shape, every delivery (request at the
   server, stream input at process(), unary result and stream output at the client) is what the run without the side
   channel delivers, in the same order -- including dictionary batches (copy path), batches whose stream outgrows the
   estimate and batches the segment refuses (both fall back inline) *)
Theorem C29_transparent : forall c f h,
  HEADER_SIZE <= c_total c -> Forall wf_call h ->
  snd (run c f h) = snd (run inline_conf f h).
Proof.
  intros c f h Ht Hw. rewrite (proj2 (run_ok c f h Ht Hw)). unfold run. rewrite mrun_inline by reflexivity. reflexivity.
Qed.
Print Assumptions C29_transparent.

(* ... and for every sequence of micro-operations (any interleaving of sends, releases and ownership changes, not
   only those a call produces) *)
Theorem C29_transparent_microsteps : forall c ops,
  HEADER_SIZE <= c_total c -> Forall wf_mop ops ->
  snd (mrun c init ops) = snd (mrun inline_conf init ops).
Proof.
  intros c ops Ht Hw. rewrite (proj2 (mrun_ok c ops init (SInv_init _ Ht) Hw)). rewrite mrun_inline by reflexivity. reflexivity.
Qed.
Print Assumptions C29_transparent_microsteps.

(* (2) no reuse while referenced: in EVERY reachable state (after any sequence of micro-operations, hence also in the
   middle of a call and under any source shape, leaked pointers included) every outstanding pointer lies in a live
   table entry starting at its offset and memory still holds, byte for byte, the batch that was resolved from it; and
   whatever is sent next, a new allocation is disjoint from every outstanding region and the write leaves them intact *)
Theorem C29_no_reuse_while_referenced : forall c ops,
  HEADER_SIZE <= c_total c -> Forall wf_mop ops ->
  let s := fst (mrun c init ops) in
  (forall r, In r (x_refs s) ->
     0 < r_len r /\ (exists need, In (r_off r, need) (x_tbl s) /\ r_len r <= need) /\
     (forall a, r_off r <= a < r_off r + r_len r -> x_mem s a = r_id r)) /\
  (forall b t' m' off len, wf_batch b ->
     maybe_write c (x_tbl s) (x_mem s) b = (t', m', Ptr off len) ->
     forall r, In r (x_refs s) ->
       (off + b_need b <= r_off r \/ r_off r + r_len r <= off) /\
       (forall a, r_off r <= a < r_off r + r_len r -> m' a = r_id r)).
Proof.
  intros c ops Ht Hw s. pose proof (proj1 (mrun_ok c ops init (SInv_init _ Ht) Hw)) as HS. fold s in HS. split.
  - intros r Hr. destruct HS as ((_ & HF & _) & _). exact (proj1 (Forall_forall _ _) HF r Hr).
  - intros b t' m' off len Hb Hm r Hr. exact (fresh_is_clear c s b t' m' off len HS Hb Hm r Hr).
Qed.
Print Assumptions C29_no_reuse_while_referenced.

(* (3) accounting, in every reachable state: the live entries of the table are exactly the outstanding pointers (one
   entry per pointer), and no release ever misses its entry *)
Theorem C29_live_is_outstanding : forall c ops,
  HEADER_SIZE <= c_total c -> Forall wf_mop ops ->
  let s := fst (mrun c init ops) in
  (forall o, (exists l, In (o, l) (x_tbl s)) <-> In o (map r_off (x_refs s))) /\
  NoDup (map r_off (x_refs s)) /\ length (x_tbl s) = length (x_refs s) /\ x_err s = 0.
Proof.
  intros c ops Ht Hw s. pose proof (proj1 (mrun_ok c ops init (SInv_init _ Ht) Hw)) as HS. fold s in HS.
  destruct (accounting _ _ HS) as (A & B & C). split; [exact A |]. split; [exact B |]. split; [exact C | exact (proj2 HS)].
Qed.
Print Assumptions C29_live_is_outstanding.

(* (4) no leak: after every history of completed calls, once the caller has released what it still holds, the
   allocation table is empty -- for every call that is covered (call_ok: source shape or class of call, see above) *)
Theorem C29_no_leak : forall c f h,
  HEADER_SIZE <= c_total c -> Forall wf_call h -> Forall (call_ok f) h ->
  x_tbl (release_all c (fst (run c f h))) = [] /\ x_err (release_all c (fst (run c f h))) = 0.
Proof.
  intros c f h Ht Hw Hok. apply release_all_empty; [exact (proj1 (run_ok c f h Ht Hw)) | apply held_only; exact Hok].
Qed.
Print Assumptions C29_no_leak.

(* ... and after each call (every prefix is a history): what is still allocated is exactly what the caller holds *)
Theorem C29_no_leak_after_each_call : forall c f h,
  HEADER_SIZE <= c_total c -> Forall wf_call h -> Forall (call_ok f) h ->
  let s := fst (run c f h) in
  (forall r, In r (x_refs s) -> r_own r = OHeld) /\
  length (x_tbl s) = length (x_refs s) /\
  (forall o, (exists l, In (o, l) (x_tbl s)) <-> In o (map r_off (x_refs s))).
Proof.
  intros c f h Ht Hw Hok s. pose proof (proj1 (run_ok c f h Ht Hw)) as HS. fold s in HS.
  destruct (accounting _ _ HS) as (A & _ & C). split; [apply held_only; exact Hok |]. split; [exact C | exact A].
Qed.
Print Assumptions C29_no_leak_after_each_call.

(* ---- non-vacuity ---- *)
Definition ex_b (id n : N) : batch := mk_batch id n n false (n + 144) (n + 144) [n + 280].
Definition ex_d (id n : N) : batch := mk_batch id n (n + 24) true (n + 144) (n + 352) [n + 512].
Definition ex_conf : conf := mk_conf true 1048576 1000.
Definition ex_hist : list call :=
  [CUnary (Some (ex_b 1 3000)) false (Some (ex_b 2 5000));
   CStream [mk_sstep (Some (ex_b 3 5000)) false false (OEmit (ex_d 4 3000)) false;
            mk_sstep (Some (ex_b 5 999)) false false (OEmit (ex_b 6 5000)) true;
            mk_sstep (Some (ex_b 7 5000)) false false (OEmit (ex_b 8 2000)) false];
   CUnary None false (Some (ex_b 9 200000))].
(* the history meets the hypotheses, moves batches through shm, keeps two regions for the caller ... *)
Example C29_ex_hyp : Forall wf_call ex_hist /\ Forall (call_ok (mk_flags false false false)) ex_hist.
Proof.
  split; [repeat constructor |].
  apply Forall_forall. intros c Hc. cbn in Hc.
  destruct Hc as [<- | [<- | [<- | []]]]; (split; [right; reflexivity | split; right; reflexivity]).
Qed.
Example C29_ex_tables :
  map (fun x => snd (fst x)) (run_case ((false, false, false), 1048576, 1000, ex_hist)) =
  [[]; [(74776, 3352); (78128, 6240)]; [(74776, 3352); (78128, 6240)]].
Proof. vm_compute. reflexivity. Qed.
Example C29_ex_deliveries :
  map ev_code (snd (run ex_conf (mk_flags false false false) ex_hist)) =
  [(0, 1); (2, 2); (1, 3); (3, 4); (1, 5); (3, 6); (1, 7); (3, 8); (2, 9)].
Proof. vm_compute. reflexivity. Qed.
(* ... and releasing them empties the table *)
Example C29_ex_released : x_tbl (release_all ex_conf (fst (run ex_conf (mk_flags false false false) ex_hist))) = [].
Proof. vm_compute. reflexivity. Qed.
