(* C03: serializable dataclasses round-trip for every supported shape.  Statements only; proofs are in
   proof/L_Dataclass.v, L_DataclassRT.v, L_DataclassCompact.v.

   wfb t        t is an annotation of the supported grammar (scalars, Enum, X | None, list / frozenset / dict, nested
                dataclass as struct or as ArrowType(binary), pa.Schema, pa.RecordBatch, Transient with default, defaults);
                any nesting depth
   cenv_okb     every dataclass named by t is registered (type(value) resolves to exactly that declaration)
   instb t x    x is a well-typed instance (ints in int64, strs encodable, set elements / dict keys hashable, transient
                fields at their default)
   model_cfg    the shape of the two cascades / tables (tie/T_Dataclass.v: equal to what the source has now) *)
From Coq Require Import List NArith ZArith Bool.
From VGI Require Import M_Dataclass L_Dataclass L_DataclassRT L_DataclassCompact.
Import ListNotations.
Open Scope N_scope.

(* every well-typed instance of a supported class serializes *)
Theorem C03_serialize_total : forall ce c fs x,
  wfb (TData c fs) = true -> cenv_okb ce (TData c fs) = true -> instb (TData c fs) x = true ->
  exists b, serialize_to_bytes model_cfg ce x = Ok b.
Proof. exact serialize_total. Qed.
Print Assumptions C03_serialize_total.

(* ... and deserializing the serialized form yields the instance itself.
   PARTIAL: the premise `ipc_clean b` excludes one class of instances, refuted in refuted/R_C03.v
   (C03_none_nested_dataclass_with_enum_refuted): a None nested dataclass that has an Enum field, below the top level,
   whose dictionary no other value populates -- pyarrow builds a batch that RecordBatch.validate(full=True) rejects, so
   the default IpcValidation.FULL reader raises IPCError.  `ipc_clean b` says: every IPC stream in b passes validation. *)
Theorem C03_arrow_roundtrip_partial : forall ce c fs x b,
  wfb (TData c fs) = true -> cenv_okb ce (TData c fs) = true -> instb (TData c fs) x = true ->
  serialize_to_bytes model_cfg ce x = Ok b ->
  ipc_clean b = true ->
  deserialize_from_bytes model_cfg (TData c fs) b = Ok x.
Proof. exact arrow_roundtrip. Qed.
Print Assumptions C03_arrow_roundtrip_partial.

(* the compact codec (msgpack present), over ANY pack / unpack pair in which unpack inverts pack: whatever instance it
   accepts it decodes to the instance, and so does the Arrow encoding (for these flat classes without side condition) *)
Theorem C03_compact_agrees : forall ce (pack : list (N * pv) -> option pv) (unpack : pv -> option pv),
  (forall r p, pack r = Some p -> unpack p = Some (VRow r)) ->
  forall c fs x b,
  wfb (TData c fs) = true -> cenv_okb ce (TData c fs) = true -> instb (TData c fs) x = true ->
  ser_compact model_cfg ce true pack x = Ok (Some b) ->
  de_compact model_cfg true unpack (TData c fs) b = Ok x /\ roundtrip model_cfg ce (TData c fs) x = Ok x.
Proof. exact compact_agrees. Qed.
Print Assumptions C03_compact_agrees.

(* without msgpack the compact codec never claims an instance: every state takes the Arrow path *)
Theorem C03_compact_declines_without_msgpack : forall ce pack x b, ser_compact model_cfg ce false pack x <> Ok (Some b).
Proof. exact compact_declines. Qed.
Print Assumptions C03_compact_declines_without_msgpack.

(* stream-state bytes: with and without msgpack, single-state and union-state methods, reading the bytes back yields
   the state (same side condition as above; it is void on the compact path) *)
Theorem C03_state_bytes_roundtrip_partial : forall ce (pack : list (N * pv) -> option pv) (unpack : pv -> option pv),
  (forall r p, pack r = Some p -> unpack p = Some (VRow r)) ->
  forall have_msgpack c fs x si b,
  wfb (TData c fs) = true -> cenv_okb ce (TData c fs) = true -> instb (TData c fs) x = true ->
  (si = SingleState (TData c fs) \/
   exists ts tag, si = UnionState ts /\ index_of c (map cls_id ts) 0 = Some tag /\ nth_error ts (N.to_nat tag) = Some (TData c fs)) ->
  ser_state model_cfg ce have_msgpack pack x si = Ok b -> ipc_clean b = true ->
  de_state model_cfg have_msgpack unpack si b = Ok x.
Proof. exact state_bytes_roundtrip. Qed.
Print Assumptions C03_state_bytes_roundtrip_partial.

(* the first byte tells the three encodings apart *)
Theorem C03_state_bytes_dispatch : forall ce (pack : list (N * pv) -> option pv),
  (c_marker model_cfg <> 255 /\ c_union_marker model_cfg <> 255 /\ c_marker model_cfg <> c_union_marker model_cfg) /\
  (forall have x b, ser_compact model_cfg ce have pack x = Ok (Some b) -> first_byte model_cfg b = Some (c_marker model_cfg)) /\
  (forall x b, serialize_to_bytes model_cfg ce x = Ok b -> first_byte model_cfg b = Some 255) /\
  (forall tag p, first_byte model_cfg (VTagged tag p) = Some (c_union_marker model_cfg)).
Proof. exact state_bytes_dispatch. Qed.
Print Assumptions C03_state_bytes_dispatch.

(* ---- non-vacuity: a class with a set of enums, a map of nested dataclasses keyed by enums, a nested dataclass in binary
   form, an optional list, a schema and a transient field; an instance that meets every premise *)
Definition ex_color : ty := TEnum 1 [([82; 69; 68], Some [114; 101; 100]); ([71], Some [103])].
Definition ex_inner_fs : list fdecl :=
  [(0, KPlain, None, TScalar SInt); (1, KPlain, Some LNone, TOpt (TScalar SStr)); (2, KTransient, Some (LInt 5), TScalar SInt)].
Definition ex_inner : ty := TData 2 ex_inner_fs.
Definition ex_outer_fs : list fdecl :=
  [(0, KPlain, None, TSet ex_color); (1, KPlain, None, TDict ex_color ex_inner); (2, KBinary, None, TOpt ex_inner);
   (3, KPlain, Some LNone, TOpt (TList (TOpt ex_inner))); (4, KPlain, None, TSchema); (5, KTransient, Some LEmptyList, TList (TScalar SInt));
   (6, KPlain, None, TScalar SFloat)].
Definition ex_outer : ty := TData 1 ex_outer_fs.
Definition ex_ce : cenv := [(1, ex_outer_fs); (2, ex_inner_fs)].
Definition ex_i (z : Z) : pv := VObj 2 [(0, VInt z); (1, VNone); (2, VInt 5)].
Definition ex_x : pv :=
  VObj 1 [(0, VSet [VEnum 1 [82; 69; 68]; VEnum 1 [71]]); (1, VDict [(VEnum 1 [71], ex_i 3)]); (2, ex_i (-1));
          (3, VList [ex_i 9223372036854775807; VNone]); (4, VSchema 9); (5, VList []); (6, VFloat 9221120237041090561)].

Example C03_premises_ex : wfb ex_outer = true /\ cenv_okb ex_ce ex_outer = true /\ instb ex_outer ex_x = true.
Proof. vm_compute. auto. Qed.
Example C03_clean_ex : exists b, serialize_to_bytes model_cfg ex_ce ex_x = Ok b /\ ipc_clean b = true.
Proof. eexists. split; [vm_compute; reflexivity|vm_compute; reflexivity]. Qed.
Example C03_roundtrip_ex : roundtrip model_cfg ex_ce ex_outer ex_x = Ok ex_x.
Proof. vm_compute. reflexivity. Qed.
(* a flat class is claimed by the compact codec (symbolic msgpack) and comes back *)
Definition ex_flat_fs : list fdecl := [(0, KPlain, None, TScalar SInt); (1, KPlain, None, TOpt (TScalar SBytes)); (2, KTransient, Some (LInt 7), TScalar SInt)].
Definition ex_flat_x : pv := VObj 3 [(0, VInt 42); (1, VNone); (2, VInt 7)].
Example C03_compact_ex :
  exists b, ser_compact model_cfg [(3, ex_flat_fs)] true sym_pack ex_flat_x = Ok (Some b)
            /\ de_compact model_cfg true sym_unpack (TData 3 ex_flat_fs) b = Ok ex_flat_x.
Proof. eexists. split; vm_compute; reflexivity. Qed.
Example C03_sym_msgpack_ok : forall r p, sym_pack r = Some p -> sym_unpack p = Some (VRow r).
Proof. intros r p. unfold sym_pack. destruct (forallb _ r); [|discriminate]. intros H. inversion H. reflexivity. Qed.
