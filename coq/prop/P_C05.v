(* C05: malformed requests never silently kill or hang a connection.  Statements only; proofs in proof/L_ReadReq.v.
   T is the handler table of the request path (regenerated from the source; tie/T_ReadReq.v proves [covers] for it),
   K the metadata key constants, cfg/st the server configuration and per-connection state, r the request descriptor:
   arbitrary metadata map, per-column as_py outcomes, row count, and for every library call on caller-controlled data
   (external fetch, segment attach, pointer resolution, release, parameter validation) ANY outcome, including any
   exception class below Exception. *)
From Coq Require Import List String NArith Bool.
From VGI Require Import M_ReadReq L_ReadReq L_ReadReqTables.
Import ListNotations.
Open Scope N_scope.

(* a well-framed request is answered with a response or an error stream, and serve_one returns normally *)
Theorem C05_always_answers : forall T K cfg st r, covers T = true -> well_framed r -> lib_ok r ->
  exists rep st', serve_one_model T K cfg st r = (Answered rep, st').
Proof. exact always_answers. Qed.
Print Assumptions C05_always_answers.

(* ... so the serve loop answers every request of any sequence of well-framed requests, from any connection state *)
Theorem C05_keeps_serving : forall T K cfg rs st, covers T = true ->
  Forall (fun r => well_framed r /\ lib_ok r) rs ->
  exists reps, serve_model T K cfg st rs = map Answered reps /\ List.length reps = List.length rs.
Proof. exact keeps_serving. Qed.
Print Assumptions C05_keeps_serving.

(* the loop ends only when reading the request stream itself failed (open / first batch / drain), and an ArrowInvalid
   at that point is answered with an error stream before the loop ends *)
Theorem C05_only_bad_ipc_ends : forall T K cfg st r w esc st', covers T = true -> lib_ok r ->
  serve_one_model T K cfg st r = (Ended w esc, st') ->
  ~ well_framed r /\ exists s e, pre_fail r s e /\ (subclass e XArrowInvalid = true -> w <> None).
Proof. exact only_bad_ipc_ends. Qed.
Print Assumptions C05_only_bad_ipc_ends.

(* whatever the bytes: either a stream is written and the loop goes on, or the loop is over -- serve_one never
   returns without a reply while the loop keeps running *)
Theorem C05_never_silent : forall T K cfg st r, covers T = true -> lib_ok r ->
  match fst (serve_one_model T K cfg st r) with
  | Answered _ | Ended _ _ => True
  | Silent | Weird => False
  end.
Proof. exact never_silent. Qed.
Print Assumptions C05_never_silent.

(* ---- non-vacuity ---- *)
(* the hypothesis [covers T] is satisfiable: the table of the repaired code passes; the table before the repair does not *)
Example C05_covers_ex : covers repaired_tables = true.
Proof. exact repaired_covers. Qed.
Example C05_covers_ex_neg : covers old_tables = false.
Proof. exact old_does_not_cover. Qed.
(* ... nor does the repaired source if the socket path stops passing contain_decode_errors=True *)
Example C05_covers_ex_flag_off : covers repaired_flag_off_tables = false.
Proof. exact flag_off_does_not_cover. Qed.
(* concrete well-framed requests meeting lib_ok, and what the repaired table makes of them *)
Example C05_ex_traceparent :
  fst (serve_one_model repaired_tables std_keys (cfg0 true) None req_bad_traceparent) = Answered (ErrorStream XRpcError).
Proof. vm_compute. reflexivity. Qed.
Example C05_ex_missing_segment :
  fst (serve_one_model repaired_tables std_keys (cfg0 true) None req_missing_segment) = Answered Response.
Proof. vm_compute. reflexivity. Qed.
Example C05_ex_hyps : well_framed req_missing_segment /\ lib_ok req_missing_segment /\ lib_ok req_overflowing_column.
Proof. repeat split; vm_compute; reflexivity. Qed.
(* a stream pyarrow rejects with ArrowInvalid: answered, then the loop ends *)
Example C05_ex_bad_ipc :
  fst (serve_one_model repaired_tables std_keys (cfg0 true) None
         {| q_open := Some XArrowInvalid; q_read := None; q_drain := None; q_md := []; q_cols := []; q_rows := 0;
            q_ext := RBatch [] 0; q_shm_meta_ok := true; q_attach := None; q_shmres := RBatch [] 0; q_release := None;
            q_vercheck := None; q_validate := None |}) = Ended (Some XArrowInvalid) None.
Proof. vm_compute. reflexivity. Qed.
