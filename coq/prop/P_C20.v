(* C20: authentication precedes every dispatch.  Statements only; every proof is in proof/L_Exempt.v.
   e : the configuration of make_wsgi_app (which conditions hold); prefix, meth, path : arbitrary strings;
   stops : which other middlewares end the request on their own (arbitrary);
   `allowed` (model/M_Exempt.v) = OPTIONS \/ below /.well-known/ \/ health enabled and path = prefix/health
                                  \/ PKCE flow active and path below prefix/_oauth/ . *)
From Coq Require Import List NArith Bool.
From VGI Require Import M_Exempt L_Exempt.
Import ListNotations.
Open Scope N_scope.

(* the exemption test of _AuthMiddleware holds for exactly the four classes the property names,
   for every path, method, prefix and configuration *)
Theorem C20_exempt_iff : forall e prefix meth path,
  exempt e prefix meth path = true <->
  meth = s_OPTIONS \/
  under_dir s_well_known path \/
  (e AHealth = true /\ path = prefix ++ s_health) \/
  (pkce_on e = true /\ under_dir (prefix ++ s_oauth) path).
Proof. exact exempt_iff. Qed.
Print Assumptions C20_exempt_iff.

(* the health exemption is the exact path: prefix/health followed by anything non-empty (healthz, health_check,
   health/init, health/exchange, ...) is exempt only as OPTIONS or when it lies below /.well-known/ as a whole *)
Theorem C20_health_is_exact : forall e prefix meth x,
  x <> [] ->
  exempt e prefix meth (prefix ++ s_health ++ x) = true ->
  meth = s_OPTIONS \/ under_dir s_well_known (prefix ++ s_health ++ x).
Proof. exact health_is_exact. Qed.
Print Assumptions C20_health_is_exact.

(* an authenticate callback is configured and rejects: a request outside the four classes never reaches routing
   (hence no responder, no service code) nor any middleware that acts on the authenticated principal *)
Theorem C20_no_dispatch_when_rejected : forall e stops prefix meth path,
  e AAuth = true -> ~ allowed e prefix meth path ->
  ~ In EvDispatch (handle e stops false prefix meth path) /\
  (forall m, must_follow_auth m = true -> ~ In (EvRequest m) (handle e stops false prefix meth path)).
Proof. exact no_dispatch_when_rejected. Qed.
Print Assumptions C20_no_dispatch_when_rejected.

(* contrapositive, the form of the property text: with a rejecting callback only the four classes are dispatched *)
Theorem C20_dispatch_only_if_allowed : forall e stops prefix meth path,
  e AAuth = true -> In EvDispatch (handle e stops false prefix meth path) -> allowed e prefix meth path.
Proof. exact dispatch_only_if_allowed. Qed.
Print Assumptions C20_dispatch_only_if_allowed.

(* whatever the callback answers: outside the four classes, routing is reached only after the callback was asked
   (and accepted); nothing before the call dispatches or acts on a principal *)
Theorem C20_auth_precedes_dispatch : forall e stops accepts prefix meth path,
  e AAuth = true -> ~ allowed e prefix meth path ->
  In EvDispatch (handle e stops accepts prefix meth path) ->
  accepts = true /\
  exists pre post, handle e stops accepts prefix meth path = pre ++ EvAuthCall :: post /\
                   ~ In EvDispatch pre /\ (forall m, must_follow_auth m = true -> ~ In (EvRequest m) pre).
Proof. exact dispatch_after_accept. Qed.
Print Assumptions C20_auth_precedes_dispatch.

(* only the four classes pass the auth middleware without the callback being asked *)
Theorem C20_bypass_only_if_allowed : forall e stops accepts prefix meth path,
  e AAuth = true ->
  In (EvRequest MwAuth) (handle e stops accepts prefix meth path) ->
  ~ In EvAuthCall (handle e stops accepts prefix meth path) ->
  allowed e prefix meth path.
Proof. exact bypass_only_if_allowed. Qed.
Print Assumptions C20_bypass_only_if_allowed.

(* ---- non-vacuity ---- *)
Definition ex_env : env := env_of (true, true, true, true, true).    (* auth + PKCE + health + sticky *)
Definition ex_env_nopkce : env := env_of (true, false, false, true, false).
Definition s_POST : list N := [80; 79; 83; 84].
Definition s_vgi : list N := [47; 118; 103; 105].                      (* "/vgi" *)
(* POST /vgi/health is exempt, POST /vgi/healthz, /vgi/health/init and /vgi/health_check are not *)
Example C20_ex_health : exempt ex_env s_vgi s_POST (s_vgi ++ s_health) = true.
Proof. vm_compute; reflexivity. Qed.
Example C20_ex_healthz : exempt ex_env s_vgi s_POST (s_vgi ++ s_health ++ [122]) = false.
Proof. vm_compute; reflexivity. Qed.
Example C20_ex_health_init : exempt ex_env s_vgi s_POST (s_vgi ++ s_health ++ [47; 105; 110; 105; 116]) = false.
Proof. vm_compute; reflexivity. Qed.
Example C20_ex_health_check : exempt ex_env s_vgi s_POST (s_vgi ++ s_health ++ [95; 99; 104; 101; 99; 107]) = false.
Proof. vm_compute; reflexivity. Qed.
(* /vgi/_oauth/callback is exempt only while the PKCE flow is active; /vgi/_oauthx/init never *)
Example C20_ex_oauth_on : exempt ex_env s_vgi s_POST (s_vgi ++ s_oauth ++ [47; 99]) = true.
Proof. vm_compute; reflexivity. Qed.
Example C20_ex_oauth_off : exempt ex_env_nopkce s_vgi s_POST (s_vgi ++ s_oauth ++ [47; 99]) = false.
Proof. vm_compute; reflexivity. Qed.
Example C20_ex_oauthx : exempt ex_env s_vgi s_POST (s_vgi ++ s_oauth ++ [120; 47; 105]) = false.
Proof. vm_compute; reflexivity. Qed.
(* /.well-knownx/a is not below /.well-known/ ; OPTIONS on anything is exempt *)
Example C20_ex_wk : exempt ex_env s_vgi s_POST (s_well_known ++ [120; 47; 97]) = false.
Proof. vm_compute; reflexivity. Qed.
Example C20_ex_options : exempt ex_env s_vgi s_OPTIONS (s_vgi ++ [47; 102]) = true.
Proof. vm_compute; reflexivity. Qed.
(* the hypotheses of C20_no_dispatch_when_rejected are met by POST /vgi/healthz, and the trace is the rejection *)
Example C20_ex_rejected_trace :
  handle ex_env (fun _ => false) false s_vgi s_POST (s_vgi ++ s_health ++ [122]) =
  [EvRequest MwAccessLogEgress; EvRequest MwTransportNotify; EvRequest MwDrain; EvRequest MwRequestId;
   EvRequest MwAccessLogCtx; EvRequest MwServerIdEnv; EvRequest MwCompression; EvAuthCall; EvReject].
Proof. vm_compute; reflexivity. Qed.
Example C20_ex_not_allowed : ~ allowed ex_env s_vgi s_POST (s_vgi ++ s_health ++ [122]).
Proof. apply exempt_false_iff. vm_compute; reflexivity. Qed.
(* ... and an accepted request is dispatched after the call, with the sticky and PKCE hooks after it *)
Example C20_ex_accepted_trace :
  handle ex_env (fun _ => false) true s_vgi s_POST (s_vgi ++ s_health ++ [122]) =
  [EvRequest MwAccessLogEgress; EvRequest MwTransportNotify; EvRequest MwDrain; EvRequest MwRequestId;
   EvRequest MwAccessLogCtx; EvRequest MwServerIdEnv; EvRequest MwCompression; EvAuthCall; EvRequest MwAuth;
   EvRequest MwSticky; EvRequest MwPkce; EvRequest MwCapabilities; EvDispatch].
Proof. vm_compute; reflexivity. Qed.

(* ---- the authenticator as composed by make_wsgi_app (PKCE cookie member), request histories ---- *)
(* every callback invocation made for a request asks about that request: its own Authorization value or
   "Bearer <its _vgi_auth cookie>", together with the unchanged rest of the request / the present moment *)
Theorem C20_auth_calls_about_this_request : forall (R : Type) pkce (cb : callback R) c rest a v,
  In (a, v) (auth_calls pkce cb c rest) -> In a (presentations pkce c) /\ v = cb a rest.
Proof. exact auth_calls_sound. Qed.
Print Assumptions C20_auth_calls_about_this_request.

(* outside the four classes a request is dispatched only if the operator callback, asked during THIS request about
   THIS request, accepted: no verdict is carried over from another request *)
Theorem C20_dispatch_needs_fresh_verdict : forall (R : Type) e stops (cb : callback R) c rest prefix meth path,
  e AAuth = true -> ~ allowed e prefix meth path ->
  In EvDispatch (handle_cb e stops cb c rest prefix meth path) ->
  exists a, In a (presentations (pkce_on e) c) /\ cb a rest = VAccept.
Proof. exact dispatch_needs_fresh_verdict. Qed.
Print Assumptions C20_dispatch_needs_fresh_verdict.

(* ... for every step of every history, whatever the callback answered at other steps *)
Theorem C20_history_fresh_verdict : forall (R : Type) e stops prefix (h : list (step R)),
  e AAuth = true ->
  Forall (fun s => let '(cb, c, rest, meth, path) := s in
                   ~ allowed e prefix meth path ->
                   In EvDispatch (handle_cb e stops cb c rest prefix meth path) ->
                   exists a, In a (presentations (pkce_on e) c) /\ cb a rest = VAccept) h.
Proof. exact history_fresh_verdict. Qed.
Print Assumptions C20_history_fresh_verdict.

(* non-vacuity: the good cookie is accepted while the token is live and refused after revocation; flags/prefix as above *)
Definition ex_pkce_flags := (true, true, true, true, false).
Example C20_ex_cookie_live :
  run_step (ex_pkce_flags, s_vgi, s_POST, s_vgi ++ [47; 102], (true, false, false, false), (0, 1)) = (2, false, true).
Proof. vm_compute; reflexivity. Qed.
Example C20_ex_cookie_revoked :
  run_step (ex_pkce_flags, s_vgi, s_POST, s_vgi ++ [47; 102], (false, false, false, false), (0, 1)) = (2, true, false).
Proof. vm_compute; reflexivity. Qed.
(* the edge header is required and missing: refused although the token is live *)
Example C20_ex_cookie_no_edge :
  run_step (ex_pkce_flags, s_vgi, s_POST, s_vgi ++ [47; 102], (true, true, false, false), (0, 1)) = (2, true, false).
Proof. vm_compute; reflexivity. Qed.
(* a PermissionError from the header member ends the chain: the cookie member is not asked *)
Example C20_ex_perm_stops_chain :
  run_step (ex_pkce_flags, s_vgi, s_POST, s_vgi ++ [47; 102], (true, false, true, false), (2, 1)) = (1, true, false).
Proof. vm_compute; reflexivity. Qed.
