(* C13: stream tokens vs. the method named in the /exchange URL.  Statements only; proofs are in proof/L_TokMethod.v.

   The property as written,
       C13_method_bound : accepted_at m tok -> minted_by_method m tok      (for all services, histories, tokens)
   is REFUTED on the faithful model: refuted/R_C13.v.  What is proved here:
     * what an accepted presentation IS bound to (identity, its own stream's call token, a state class of the URL's
       method that accepts the payload) -- and that the method which started the stream is not among it;
     * the method binding on the complement: services whose methods reject each other's state payloads;
     * that the complement is exact: one compatible pair of methods is enough for a violating history. *)
From Coq Require Import List NArith Bool.
From VGI Require Import Corr M_TokMethod L_TokMethod.
Import ListNotations.
Open Scope N_scope.

(* Everything an accepted presentation is bound to.  m0 (the method whose /init started the stream) is unconstrained. *)
Theorem C13_accepted_bound_to_identity_stream_and_shape :
  forall mp svc W mname ident cu ca ins c vals r,
    reachable mp svc W -> In cu (w_cursors W) -> presentable W ca ->
    accept mp svc (w_cache W) mname ident cu ca = Accepted ins c vals r ->
    exists m0 ca0 m cl,
      In (m0, ca0) (w_inits W) /\ ca_callid ca0 = cu_callid cu /\
      ident = cu_ident cu /\ ident = ca_ident ca0 /\
      r = resolved_of ca0 /\
      find_method svc mname = Some m /\ resolve_cls (m_info m) (cu_state cu) = Some cl /\ c = c_id cl /\
      deser mp cl (cu_state cu) = Some vals /\
      (ins = true -> ca = Some ca0 /\ forall t, ca_cstate ca0 = Some t -> In t (declared (classes (m_info m)))).
Proof. exact accepted_bound. Qed.
Print Assumptions C13_accepted_bound_to_identity_stream_and_shape.

(* PARTIAL: the property's statement, restricted to services in which no method accepts a state payload another
   method can mint (cross_rejecting); excluded class = every other service, see the next theorem. *)
Theorem C13_method_bound_partial :
  forall mp svc W mname ident cu ca,
    cross_rejecting mp svc ->
    reachable mp svc W -> In cu (w_cursors W) -> presentable W ca ->
    accepted (accept mp svc (w_cache W) mname ident cu ca) = true -> minted_by W mname cu.
Proof. exact method_bound_partial. Qed.
Print Assumptions C13_method_bound_partial.

(* ... and the side condition cannot be dropped: whenever some method m accepts some payload another method m' can
   mint, there is a history in which a token of m' is accepted at m's endpoint *)
Theorem C13_method_bound_fails_whenever_compatible :
  forall mp svc m m' st e sb cl vals,
    find_method svc (m_name m) = Some m -> find_method svc (m_name m') = Some m' -> m_name m <> m_name m' ->
    In (st_cls st) (classes (m_info m')) -> state_wf st = true ->
    enc_ok mp (st_cls st) e = true -> encode (m_info m') e st = Some sb ->
    resolve_cls (m_info m) sb = Some cl -> deser mp cl sb = Some vals ->
    exists W cu ca ident,
      reachable mp svc W /\ In cu (w_cursors W) /\ presentable W ca /\
      accepted (accept mp svc (w_cache W) (m_name m) ident cu ca) = true /\ ~ minted_by W (m_name m) cu.
Proof. exact method_bound_fails_whenever_compatible. Qed.
Print Assumptions C13_method_bound_fails_whenever_compatible.

(* ---- non-vacuity ---------------------------------------------------------------------------------------------- *)
(* L_TokMethod.ex_svc: two methods whose state classes require different field names (S0: field 0, S1: field 1):
   a cross-rejecting service *)

Example C13_partial_nonvacuous : cross_rejecting false ex_svc.
Proof. exact ex_svc_cross_rejecting. Qed.

(* a history of that service in which the own endpoint accepts (the hypotheses of the theorems are inhabited) *)
Example C13_bound_nonvacuous :
  exists W cu ca, reachable false ex_svc W /\ In cu (w_cursors W) /\ presentable W ca /\
                  accepted (accept false ex_svc (w_cache W) 0 7 cu ca) = true /\ minted_by W 0 cu.
Proof. exact ex_own_accept. Qed.
