(* C38: HTTP retries are bounded and never duplicate non-idempotent calls.
   Statements only; every proof is in proof/L_Retry.v.  Model: model/M_Retry.v.

   request_with_retry c jit fs  is _request_with_retry under configuration c when the i-th call of
   make_request() has outcome  nth i fs (200 OK)  and the i-th random.uniform draw returned jit i.
   The theorems hold for ALL configurations, ALL outcome sequences of ANY length (every status,
   every Retry-After form incl. NaN / +-inf / negative / HTTP-date / garbage) and ALL jitter draws. *)
From Coq Require Import List NArith ZArith QArith Bool Lia.
From VGI Require Import M_Retry L_Retry.
Import ListNotations.

(* a retried request is sent at least once and at most max_retries + 1 times *)
Theorem C38_sends_le_max_plus_1 : forall c jit fs,
  (1 <= sends (request_with_retry c jit fs) <= max_retries c + 1)%nat.
Proof. exact sends_le_max_plus_1. Qed.
Print Assumptions C38_sends_le_max_plus_1.

(* send number i+2 exists only if outcome number i+1 was a retryable status, a connection error, a
   timeout or a disconnect before any response byte (and, stricter, only if the configuration
   enables retrying that class, and only while i < max_retries) *)
Theorem C38_resend_only_after_retryable : forall c jit fs i,
  (S i < sends (request_with_retry c jit fs))%nat ->
  retryable_outcome c (nth i fs dflt_outcome) = true /\
  resent_outcome c (nth i fs dflt_outcome) = true /\
  (i < max_retries c)%nat.
Proof. exact resend_only_after_retryable. Qed.
Print Assumptions C38_resend_only_after_retryable.

(* exactly one wait (and one jitter draw) between two consecutive sends, none before the first or
   after the last *)
Theorem C38_one_wait_per_resend : forall c jit fs,
  S (length (sleeps (request_with_retry c jit fs))) = sends (request_with_retry c jit fs) /\
  length (ubounds (request_with_retry c jit fs)) = length (sleeps (request_with_retry c jit fs)).
Proof. exact one_sleep_per_resend. Qed.
Print Assumptions C38_one_wait_per_resend.

(* every wait is a number d with 0 <= d <= backoff_max: for every configuration whose backoff_max
   is a number >= 0, every jitter draw in [0, backoff_base * 2**attempt], every Retry-After value *)
Theorem C38_delay_in_0_backoff_max : forall c jit fs,
  cfg_ok c -> (forall k, jit_ok c k (jit k)) ->
  Forall (in_range c) (sleeps (request_with_retry c jit fs)).
Proof. exact delay_in_0_backoff_max. Qed.
Print Assumptions C38_delay_in_0_backoff_max.

(* the same for _compute_delay alone, for any parsed or unparsed Retry-After *)
Theorem C38_compute_delay_in_0_backoff_max : forall c attempt ra j,
  cfg_ok c -> fle fzero j = true -> in_range c (compute_delay c attempt ra j).
Proof. exact compute_delay_range. Qed.
Print Assumptions C38_compute_delay_in_0_backoff_max.

(* what the loop ends with: a response only if its status is not retryable; HttpTransientError only
   on a retryable status after all max_retries + 1 sends; a propagated exception otherwise *)
Theorem C38_final_classes : forall c jit fs,
  match fin (request_with_retry c jit fs) with
  | FReturn s => status_in s (retryable c) = false
  | FTransient s _ => status_in s (retryable c) = true /\ sends (request_with_retry c jit fs) = (max_retries c + 1)%nat
  | FRaise o => forall s h, o <> OResp s h
  end.
Proof. exact final_classes. Qed.
Print Assumptions C38_final_classes.

(* stream exchange: at most two requests; a second one only after a 413 answer to the first (and a
   successful externalisation); none on a finished or cancelled session; cancel: at most one, none
   once the session is cancelled *)
Theorem C38_exchange_cancel_once_plus_413 : forall st fs ext_ok,
  ((xsends (exchange st fs ext_ok) <= 2)%nat /\
   (xsends (exchange st fs ext_ok) = 2%nat ->
      st = SLive /\ ext_ok = true /\ exists h, nth 0 fs dflt_outcome = OResp 413 h) /\
   (st = SLive -> (1 <= xsends (exchange st fs ext_ok))%nat) /\
   (st <> SLive -> xsends (exchange st fs ext_ok) = 0%nat)) /\
  ((xsends (cancel st fs) <= 1)%nat /\ xsends (cancel (cancel_state_after st) fs) = 0%nat).
Proof. intros st fs ext_ok. split; [apply exchange_once_plus_413 | apply cancel_once]. Qed.
Print Assumptions C38_exchange_cancel_once_plus_413.

(* histories on one stream session (exchange / cancel / close in any order, any outcomes, cancel POSTs
   that raise included): at most ONE cancel request ever leaves the client; after the first cancel()
   nothing at all is sent; each exchange() sends at most 2, each cancel() at most 1, close() nothing *)
Theorem C38_session_cancel_at_most_once : forall ops st fs ext_ok,
  (cancel_sends (hist_run st ops fs ext_ok) <= 1)%nat.
Proof. exact hist_cancel_once. Qed.
Print Assumptions C38_session_cancel_at_most_once.

Theorem C38_session_silent_after_cancel : forall pre post st fs ext_ok,
  exists fs', hist_run st (pre ++ HCancel :: post) fs ext_ok =
              hist_run st (pre ++ [HCancel]) fs ext_ok ++ hist_run SCancelled post fs' ext_ok /\
              total_sends (hist_run SCancelled post fs' ext_ok) = 0%nat.
Proof. exact hist_nothing_after_cancel. Qed.
Print Assumptions C38_session_silent_after_cancel.

Theorem C38_session_each_operation : forall ops st fs ext_ok,
  Forall (fun e => (xsends (snd e) <= match fst e with HExchange => 2 | HCancel => 1 | HClose => 0 end)%nat)
         (hist_run st ops fs ext_ok).
Proof. exact hist_each_op. Qed.
Print Assumptions C38_session_each_operation.

(* without a retry configuration every request is sent exactly once *)
Theorem C38_no_config_single_send : forall jit fs, sends (post_with_retry None jit fs) = 1%nat.
Proof. exact post_without_config_once. Qed.
Print Assumptions C38_no_config_single_send.

(* ---- non-vacuity ----------------------------------------------------------------------------- *)
Definition ex_jit : nat -> fl := fun a => FFin (1 # 4).
(* 503 with Retry-After: nan, connect error, 429 with Retry-After: 100, then 200 *)
Definition ex_faults : list outcome :=
  [OResp 503 (RAfloat FNaN); OConnErr; OResp 429 (RAfloat (FFin (100 # 1))); OResp 200 RAabsent].

Example C38_ex_hyps : cfg_ok default_config /\ forall k, jit_ok default_config k (ex_jit k).
Proof.
  split; [reflexivity|]. intro k. split; [reflexivity|].
  unfold jit_ok, ex_jit, exp_delay, default_config, fscale, fle; simpl bbase.
  apply Qle_bool_iff. unfold Qle. cbn [Qnum Qden Qmult inject_Z].
  assert (H : (1 <= 2 ^ Z.of_nat k)%Z) by (apply (Z.pow_le_mono_r 2 0 (Z.of_nat k)); lia).
  lia.
Qed.
Example C38_ex_run :
  case_eqb (run_case (default_config, [FFin (1 # 4); FFin (1 # 4); FFin (1 # 4)], ex_faults))
           (4%N, [FFin (1 # 4); FFin (1 # 4); FFin (30 # 1)], [FFin (1 # 2); FFin (1 # 1); FFin (2 # 1)], (0%N, 200%N, None)) = true.
Proof. vm_compute; reflexivity. Qed.
(* three resends happened, so the resend theorem speaks about outcomes 0, 1, 2 *)
Example C38_ex_resend_premise : (S 2 < sends (request_with_retry default_config ex_jit ex_faults))%nat.
Proof. vm_compute. lia. Qed.
(* exhaustion: four 503s under max_retries = 3 *)
Example C38_ex_exhausted :
  fin (request_with_retry default_config ex_jit (repeat (OResp 503 RAabsent) 6)) = FTransient 503 None /\
  sends (request_with_retry default_config ex_jit (repeat (OResp 503 RAabsent) 6)) = 4%nat.
Proof. vm_compute; split; reflexivity. Qed.
(* a disconnect after bytes were flowing is not resent *)
Example C38_ex_proto_other :
  sends (request_with_retry default_config ex_jit [OProtoOther; OResp 200 RAabsent]) = 1%nat.
Proof. vm_compute; reflexivity. Qed.
(* exchange: 502 is not resent, 413 is resent once, even if the resend answers 413 or 502 again *)
Example C38_ex_exchange_502 : xsends (exchange SLive [OResp 502 RAabsent; OResp 200 RAabsent] true) = 1%nat.
Proof. reflexivity. Qed.
Example C38_ex_exchange_413 : xsends (exchange SLive [OResp 413 RAabsent; OResp 413 RAabsent; OResp 200 RAabsent] true) = 2%nat.
Proof. reflexivity. Qed.
(* after cancel() nothing more is sent by exchange() or cancel() *)
Example C38_ex_after_cancel :
  xsends (exchange (cancel_state_after SLive) [OResp 200 RAabsent] true) = 0%nat /\
  xsends (cancel (cancel_state_after SLive) []) = 0%nat.
Proof. split; reflexivity. Qed.
(* a cancel whose POST times out, then two more cancels and an exchange: one request in total *)
Example C38_ex_history :
  run_hist (SLive, [HCancel; HCancel; HExchange; HCancel; HClose], [OTimeout; OResp 200 RAabsent], true) =
  [(1, (10, 0)); (0, (10, 0)); (0, (11, 0)); (0, (10, 0)); (0, (10, 0))]%N.
Proof. vm_compute; reflexivity. Qed.
(* exchange that fails, exchange again (a new request), then cancel *)
Example C38_ex_history2 :
  run_hist (SLive, [HExchange; HExchange; HCancel], [OResp 502 RAabsent; OResp 413 RAabsent; OConnErr; ODisconnect], true) =
  [(1, (0, 502)); (2, (2, 0)); (1, (10, 0))]%N.
Proof. vm_compute; reflexivity. Qed.
