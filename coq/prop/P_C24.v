(* C24: precondition gates compose with AND semantics.  Statements only; proofs are in proof/L_Gates.v.
   Vocabulary (model/M_Gates.v, proof/L_Gates.v):
     ra_proof m h inner   = require_all(proxy_proof_gate(mode m), inner)(request whose proof header is h),
                            as (result, invocation log); inner = Some (id, what calling it does) or None
     hdr_verifies h       = the header is a single token that verify_proof accepts
     ungated inner        = what a worker with no gate does with the same request: anonymous context
                            when there is no authenticator, else the authenticator's answer
     same_res             = same exception, or contexts equal in domain / authenticated / principal and
                            in every claim except the gate's own record under gate.claims_key *)
From Coq Require Import List NArith Bool.
From VGI Require Import M_Gates L_Gates.
Import ListNotations.
Open Scope N_scope.

(* authenticated only if the proof verified (no inner) or the inner authenticator accepted and said so;
   the identity is then the inner authenticator's.  All modes, all headers, all inner behaviours. *)
Theorem C24_authenticated_only_if_verified_or_inner : forall m h inner c log,
  ra_proof m h inner = (ROk c, log) -> a_auth c = true ->
  match inner with
  | None => hdr_verifies h = true
  | Some (id, o) => exists c0, o = ICtx c0 /\ a_auth c0 = true /\ a_domain c = a_domain c0 /\
                               a_principal c = a_principal c0 /\ inner_called id log
  end.
Proof. exact ra_proof_authenticated_only_if. Qed.
Print Assumptions C24_authenticated_only_if_verified_or_inner.

(* the same for any PreconditionGate: a gate that raised or recorded verified = "false" authenticates nothing *)
Theorem C24_any_gate_authenticated_only_if : forall g inner c log,
  require_all g inner = (ROk c, log) -> a_auth c = true ->
  match inner with
  | None => exists gc, g = GClaims gc /\ gc_verified gc <> VFalse
  | Some (id, o) => exists c0, o = ICtx c0 /\ a_auth c0 = true /\ a_domain c = a_domain c0 /\
                               a_principal c = a_principal c0 /\ inner_called id log
  end.
Proof. exact ra_authenticated_only_if. Qed.
Print Assumptions C24_any_gate_authenticated_only_if.

(* allow mode, no valid proof (absent, empty, repeated, malformed, unknown kid, expired, not yet valid,
   bad mac, replayed): the outcome is the ungated worker's outcome, the inner authenticator is consulted
   exactly as the ungated worker would, and without an inner authenticator the context is the anonymous
   identity carrying only the gate's verified = "false" record *)
Theorem C24_allow_unproven_is_anonymous : forall h inner,
  hdr_verifies h = false ->
  same_res (fst (ra_proof MAllow h inner)) (fst (ungated inner)) /\
  snd (ra_proof MAllow h inner) = EvGate :: snd (ungated inner) /\
  (inner = None ->
   ra_proof MAllow h None =
   (ROk {| a_domain := DNone; a_auth := false; a_principal := PNone;
           a_claims := [(KGate, CVGate (fail_claims (hdr_reason h)))] |}, [EvGate])).
Proof. exact ra_allow_unproven. Qed.
Print Assumptions C24_allow_unproven_is_anonymous.

(* require mode, no valid proof: ProofError with the verifier's reason, and the log is the gate alone --
   the inner authenticator is never consulted, whatever it is *)
Theorem C24_require_never_calls_inner_after_fail : forall h inner,
  hdr_verifies h = false ->
  ra_proof MRequire h inner = (RExn (XProof (hdr_reason h)), [EvGate]).
Proof. exact ra_require_unproven. Qed.
Print Assumptions C24_require_never_calls_inner_after_fail.

(* ... and for any gate: a gate failure is the result, inner is not called *)
Theorem C24_any_gate_failure_stops : forall e inner, require_all (GRaise e) inner = (RExn e, [EvGate]).
Proof. exact ra_gate_failure_stops. Qed.
Print Assumptions C24_any_gate_failure_stops.

(* a valid proof: with an inner authenticator it alone decides (both modes); alone, the gate vouches *)
Theorem C24_proven_inner_decides : forall m h inner,
  hdr_verifies h = true ->
  match inner with
  | None => ra_proof m h None =
            (ROk {| a_domain := DGate; a_auth := true; a_principal := PLabel;
                    a_claims := [(KGate, CVGate ok_claims)] |}, [EvGate])
  | Some a => same_res (fst (ra_proof m h (Some a))) (fst (ungated (Some a))) /\
              snd (ra_proof m h (Some a)) = EvGate :: snd (ungated (Some a))
  end.
Proof. exact ra_proven. Qed.
Print Assumptions C24_proven_inner_decides.

(* the gate raises only in require mode on an unproven request, and then a ProofError *)
Theorem C24_gate_raises_iff : forall m h e,
  proof_gate m h = GRaise e -> m = MRequire /\ hdr_verifies h = false /\ e = XProof (hdr_reason h).
Proof. exact gate_raise_only_required_unproven. Qed.
Print Assumptions C24_gate_raises_iff.

(* a gate can never be placed in an OR chain: any member list containing a gate, at any position, is
   refused at construction with TypeError; and a chain is constructed iff non-empty and gate-free *)
Theorem C24_gate_not_in_chain : forall ms, In MemGate ms -> chain_ctor ms = Some XType.
Proof. exact chain_ctor_gate. Qed.
Print Assumptions C24_gate_not_in_chain.

Theorem C24_chain_ctor_iff : forall ms, chain_ctor ms = None <-> ms <> [] /\ ~ In MemGate ms.
Proof. exact chain_ctor_iff. Qed.
Print Assumptions C24_chain_ctor_iff.

(* the supported composition chain(require_all(gate, a), b, ...) keeps the AND: a failed required gate ends
   the chain -- wherever the gated member stands after members that only declined -- and no later member runs *)
Theorem C24_chain_cannot_bypass_required_gate : forall pre h a rest codes log,
  hdr_verifies h = false ->
  (forall x, In x pre -> exists e, fst x = RExn e /\ swallowed_with chain_swallows e = true) ->
  chain_go chain_swallows (pre ++ ra_proof MRequire h (Some a) :: rest) codes log =
  (RExn (XProof (hdr_reason h)), log ++ flat_map snd pre ++ [EvGate]).
Proof. exact chain_required_gate_anywhere. Qed.
Print Assumptions C24_chain_cannot_bypass_required_gate.

(* ---- histories on one gate instance (replay cache of capacity cap; see model/M_Gates.v hist_step) ---- *)
(* a presentation the verifier refuses leaves no trace: whatever it carried, the cache is unchanged *)
Theorem C24_refused_presentation_leaves_no_trace : forall cap m c h n,
  hdr_verifies h = false -> hist_step cap m c (h, n) = (proof_gate m h, c).
Proof. exact hist_step_refused_no_trace. Qed.
Print Assumptions C24_refused_presentation_leaves_no_trace.

(* ... hence deleting all refused presentations from a history changes neither the answers to the others
   nor the cache *)
Theorem C24_refused_traffic_changes_no_verdict : forall cap m ps c,
  hist_run cap m c (kept ps) = (kept_answers ps (fst (hist_run cap m c ps)), snd (hist_run cap m c ps)).
Proof. exact hist_refused_leave_no_trace. Qed.
Print Assumptions C24_refused_traffic_changes_no_verdict.

(* a proof accepted once is answered `replayed` when presented again, whatever was refused in between and
   as long as fewer than cap other proofs verified in between: require mode refuses it (ProofError replayed,
   so by C24_require_never_calls_inner_after_fail inner is not consulted), allow mode records verified=false *)
Theorem C24_replay_detected_despite_refused_traffic : forall cap m c n h1 h2 noise,
  hdr_verifies h1 = true -> hdr_verifies h2 = true -> ~ In n c ->
  (verifying noise + 1 <= cap)%nat ->
  exists mid c',
    hist_run cap m c ((h1, n) :: noise ++ [(h2, n)]) =
    (proof_gate m (HToken None) :: mid ++ [proof_gate m (HToken (Some RReplayed))], c').
Proof. exact hist_replay_detected. Qed.
Print Assumptions C24_replay_detected_despite_refused_traffic.

(* ---- non-vacuity ---- *)
(* capacity 2: P accepted, five forged tokens with fresh nonces refused, P again: replayed *)
Example C24_ex_hist_forged_flood :
  fst (hist_run 2 MRequire [] ((HToken None, 1) :: map (fun k => (HToken (Some RBadMac), k)) [2; 3; 4; 5; 6] ++ [(HToken None, 1)])) =
  GClaims ok_claims :: map (fun _ => GRaise (XProof RBadMac)) [2; 3; 4; 5; 6] ++ [GRaise (XProof RReplayed)].
Proof. vm_compute; reflexivity. Qed.
(* the bound is sharp: capacity 2 and two OTHER accepted proofs in between evict P, its replay verifies *)
Example C24_ex_hist_bound_sharp :
  fst (hist_run 2 MRequire [] [(HToken None, 1); (HToken None, 2); (HToken None, 3); (HToken None, 1)]) =
  [GClaims ok_claims; GClaims ok_claims; GClaims ok_claims; GClaims ok_claims].
Proof. vm_compute; reflexivity. Qed.
Definition ex_user : actx := {| a_domain := DUser 7; a_auth := true; a_principal := PUser 9; a_claims := [(KUser 1, CVUser 2)] |}.
(* valid proof + accepting inner: authenticated as the inner's principal, inner consulted after the gate *)
Example C24_ex_valid_inner :
  ra_proof MRequire (HToken None) (Some (3, ICtx ex_user)) =
  (ROk {| a_domain := DUser 7; a_auth := true; a_principal := PUser 9;
          a_claims := [(KUser 1, CVUser 2); (KGate, CVGate ok_claims)] |}, [EvGate; EvInner 3]).
Proof. vm_compute; reflexivity. Qed.
(* allow, expired proof, no inner: anonymous *)
Example C24_ex_allow_expired :
  ra_proof MAllow (HToken (Some RExpired)) None =
  (ROk {| a_domain := DNone; a_auth := false; a_principal := PNone;
          a_claims := [(KGate, CVGate (fail_claims RExpired))] |}, [EvGate]).
Proof. vm_compute; reflexivity. Qed.
(* allow, absent proof, rejecting inner: the inner's rejection, as without a gate *)
Example C24_ex_allow_absent_reject :
  ra_proof MAllow HAbsent (Some (3, IRaise (XAuthFailure A_INVALID))) = (RExn (XAuthFailure A_INVALID), [EvGate; EvInner 3]).
Proof. vm_compute; reflexivity. Qed.
(* require, replayed proof, accepting inner: refused, inner never called *)
Example C24_ex_require_replayed :
  ra_proof MRequire (HToken (Some RReplayed)) (Some (3, ICtx ex_user)) = (RExn (XProof RReplayed), [EvGate]).
Proof. vm_compute; reflexivity. Qed.
Example C24_ex_chain_gate_last : chain_ctor [MemAuth; MemAuth; MemGate] = Some XType.
Proof. vm_compute; reflexivity. Qed.
Example C24_ex_chain_ok : chain_ctor [MemAuth; MemAuth] = None.
Proof. vm_compute; reflexivity. Qed.
(* chain(a_declines, require_all(gate, b), c_accepts) with an absent proof: refused, c never runs *)
Example C24_ex_chain_bypass :
  chain_run [auth_member (1, IRaise (XAuthFailure A_MISSING)); ra_proof MRequire HAbsent (Some (2, ICtx ex_user));
             auth_member (3, ICtx ex_user)] = (RExn (XProof RNoProof), [EvInner 1; EvGate]).
Proof. vm_compute; reflexivity. Qed.
