(* C33: launcher spawns once and socket workers never vanish under a client.
   Statements only; proofs are in proof/L_Accept.v (accept loop) and proof/L_AcceptLauncher.v (launcher).
   Models: model/M_Accept.v.  A schedule is ANY list of actions (disabled actions stutter), so "forall sch"
   is "for every interleaving", of every length, with every placement of clock ticks, client arrivals,
   client departures and Timer expiry.

   The accept-loop theorems are about a source for which c_clear = c_guard = true; tie/T_Accept.v instantiates
   them with the flags regenerated from the source on every run.  refuted/R_C33.v shows both flags are needed. *)
From Coq Require Import List NArith Bool.
From VGI Require Import M_Accept L_Accept L_AcceptLauncher.
Import ListNotations.
Open Scope N_scope.

(* The loop leaves through `if shutdown_requested: break` only when idle.  [brk] is the snapshot taken by the
   break step: (conn_count, every connection thread has finished, zero_since + timeout, clock) where zero_since is
   the time conn_count last became 0 (or the loop started) and timeout is idle_timeout (or the startup grace
   max(idle_timeout, floor) while no connection has been counted yet). *)
Theorem C33_stop_only_when_idle : forall cfg sch c all_done due now,
  c_clear cfg = true -> c_guard cfg = true ->
  brk (arun cfg sch) = Some (c, all_done, due, now) -> c = 0 /\ all_done = true /\ due <= now.
Proof. intros cfg sch c d due now H1 H2. exact (stop_only_when_idle cfg H1 H2 sch c d due now). Qed.
Print Assumptions C33_stop_only_when_idle.

(* the same in state form: in every reachable state in which the break is enabled (the acceptor is at the check
   that follows an accept timeout and shutdown_requested is set) no connection is accepted-and-unfinished and the
   timeout has elapsed since the last one finished -- hence never while, or just after, a connection is served *)
Theorem C33_break_enabled_only_idle : forall cfg sch,
  c_clear cfg = true -> c_guard cfg = true ->
  let s := arun cfg sch in
  pc s = PChk -> flag s = true ->
  count s = 0 /\ forallb is_done (handlers s) = true /\ zero_since s + cur_T s <= clock s.
Proof. intros cfg sch H1 H2. exact (break_enabled_idle cfg H1 H2 sch). Qed.
Print Assumptions C33_break_enabled_only_idle.

(* conn_count never under-counts the connection threads that have not finished (waiting for the semaphore,
   serving, or about to un-count themselves) *)
Theorem C33_count_covers_threads : forall cfg sch,
  c_clear cfg = true -> c_guard cfg = true ->
  live (handlers (arun cfg sch)) <= count (arun cfg sch).
Proof. intros cfg sch H1 H2. exact (count_covers_threads cfg H1 H2 sch). Qed.
Print Assumptions C33_count_covers_threads.

(* Launcher.  [flock_grant] is the OS's answer to a lock attempt given the current holder; the hypothesis is
   flock's mutual exclusion.  alive = spawned, not failed, listener not yet closed. *)
Theorem C33_one_worker_per_hash : forall flock_grant,
  (forall h i, flock_grant (Some h) i = false) ->
  forall kinds sch, let s := lrun flock_grant kinds sch in
  (forall v kv w kw, getw s v = Some kv -> getw s w = Some kw ->
                     alive (w_ph kv) = true -> alive (w_ph kw) = true -> v = w)
  /\ spawn_ok s = true.   (* every Popen so far happened while no worker was alive *)
Proof. intros g H kinds sch. exact (one_worker_per_hash g H kinds sch). Qed.
Print Assumptions C33_one_worker_per_hash.

(* every launch that returned a path did so on evidence produced by a worker whose listener was open on that
   path at that moment: [ret_ok] accumulates, at each return, "connect(path) succeeded now" (probe arm) resp.
   "the path named the worker's listening socket when it printed the ready line" (spawn arm) *)
Theorem C33_returned_path_accepting : forall flock_grant,
  (forall h i, flock_grant (Some h) i = false) ->
  forall kinds sch, ret_ok (lrun flock_grant kinds sch) = true.
Proof. intros g H kinds sch. exact (returned_path_accepting g H kinds sch). Qed.
Print Assumptions C33_returned_path_accepting.

(* ... and as long as that worker's listener stays open, the returned path keeps leading to it *)
Theorem C33_listening_worker_reachable : forall flock_grant,
  (forall h i, flock_grant (Some h) i = false) ->
  forall kinds sch w k, let s := lrun flock_grant kinds sch in
  getw s w = Some k -> listening (w_ph k) = true -> fs s = Some w /\ probe s = true.
Proof. intros g H kinds sch w k. exact (listening_worker_reachable g H kinds sch w k). Qed.
Print Assumptions C33_listening_worker_reachable.

(* ---- non-vacuity ---- *)
(* flock as the kernel implements it satisfies the hypothesis *)
Example C33_ideal_flock_excl : forall h i, ideal_flock (Some h) i = false.
Proof. reflexivity. Qed.

(* the repaired loop does stop when it is idle: grace 60 elapses without a client *)
Example C33_idle_break_ex :
  brk (arun (Build_acfg true true (Some 5) None 60) [AAcc; ATick 60; ATmr 0; ATmr 0; AAcc; AAcc]) = Some (0, true, 60, 60).
Proof. vm_compute; reflexivity. Qed.

(* ... and after a connection, idle_timeout after it went away *)
Example C33_idle_break_after_conn_ex :
  brk (arun (Build_acfg true true (Some 5) (Some 1) 60)
        [AAcc; AClient; AAcc; AAcc; AAcc; AHnd 0; ATick 7; AHnd 0; AHnd 0; ATick 5; ATmr 1; ATmr 1; AAcc; AAcc])
  = Some (0, true, 12, 12).
Proof. vm_compute; reflexivity. Qed.

(* two concurrent launches: the first spawns, the second reuses; one spawn, both return the path *)
Example C33_two_launches_ex :
  let s := lrun ideal_flock [false; false]
             [LProc 0; LProc 1; LProc 0; LProc 0; LProc 0; LWorker 0; LWorker 0; LWorker 0; LWorker 0;
              LProc 0; LProc 0; LProc 1; LProc 1; LProc 1] in
  map (fun p => (ppc_code (p_pc p), p_res p)) (procs s) = [(6, 2); (6, 1)]
  /\ map (fun k => wph_code (w_ph k)) (workers s) = [4].
Proof. vm_compute. split; reflexivity. Qed.

(* without mutual exclusion the statement is false (so the hypothesis is used): both launchers spawn *)
Example C33_no_flock_two_workers_ex :
  let s := lrun (fun _ _ => true) [false; false]
             [LProc 0; LProc 1; LProc 0; LProc 1; LProc 0; LProc 1; LProc 0; LProc 1] in
  map (fun k => wph_code (w_ph k)) (workers s) = [0; 0] /\ spawn_ok s = false.
Proof. vm_compute. split; reflexivity. Qed.
