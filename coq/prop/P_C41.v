(* P_C41: Concurrent socket connections are isolated (threaded Unix / TCP server, max_connections). *)
From Coq Require Import List NArith ZArith Bool Arith.
From VGI Require Import Corr M_Wire M_ConnIso L_ConnIso.
Import ListNotations.
Open Scope nat_scope.

(* For EVERY schedule (any length, any number of connections): at most max_connections connections are inside
   serve() at once -- now and at every earlier point of the run (hw = maximum over all prefixes). *)
Theorem C41_served_le_max_connections : forall (m : nat) (scripts : list (list call)) (sched : list nat),
  let g := crun sched (cinit_sys (Some m) scripts) in
  served (conns g) <= m /\ hw g <= m.
Proof. intros m scripts sched. apply (served_le_max cstate cfin clost cstep (map cinit scripts) m sched). Qed.
Print Assumptions C41_served_le_max_connections.
