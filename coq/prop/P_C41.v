(* P_C41: Concurrent socket connections are isolated (threaded Unix / TCP server, max_connections).

   STATEMENT  With a threaded Unix or TCP server, any number of concurrent client connections each observe the same
   results they would observe when served alone, with stream states never shared across connections, and with
   max_connections set no more than that many connections are served at once.

   System: M_ConnIso.crun -- any number of connections (list of scripts), each a list of calls (prog * script) on the
   wire core, interleaved by an ARBITRARY schedule (list of connection ids, any length; a step of connection i is
   whatever its phase allows: connect / acquire a slot / one client action incl. one next()/exchange() of an open
   stream / disconnect).  A connection's stream state (cursor, queue, liveness) is part of its private state [st]. *)
From Coq Require Import List NArith ZArith Bool Arith Lia.
From VGI Require Import Corr M_Wire M_ConnIso L_ConnIso L_ConnIsoWire L_ConnIsoLive.
Import ListNotations.
Open Scope nat_scope.

(* Every schedule, every max_connections (None = unlimited), every connection i:
   - its private state -- the traces of its finished calls, the events of the call in progress, its open stream's
     state -- is exactly the state of the SAME script run alone for some number k of steps (interleaving, other
     connections' programs and waiting for a slot change nothing but how far it got);
   - while it has not been served yet nothing of its script has happened;
   - once it is Done its client has run its whole script and observed, call by call, exactly what the wire core
     (run_pipe) yields for each call on its own: the complete solo observation. *)
Theorem C41_isolated : forall (maxc : option nat) (scripts : list (list call)) (sched : list nat) (i : nat) (c : conn cstate),
  nth_error (conns (crun sched (cinit_sys maxc scripts))) i = Some c ->
  exists cs k, nth_error scripts i = Some cs
               /\ st c = solo cfin cstep k (cinit cs)
               /\ (ph c = Fresh \/ ph c = Queued -> st c = cinit cs)
               /\ (ph c = Done -> cfin (st c) = true /\ ctrace (st c) = seq_calls cs).
Proof.
  intros maxc scripts sched i c H.
  destruct (isolated cstate cfin clost cstep (map cinit scripts) maxc sched i c H) as (s0 & k & Hs & Hk & Hq & Hd).
  rewrite nth_error_map in Hs. destruct (nth_error scripts i) as [cs|] eqn:E; simpl in Hs; [|discriminate].
  inversion Hs; subst s0; clear Hs.
  exists cs, k. split; [reflexivity|]. split; [exact Hk|]. split; [exact Hq|].
  intro D. destruct (Hd D) as [F _]. split; [exact F|].
  destruct (solo_is_seq_calls cs) as (k' & F' & T').
  rewrite Hk in F |- *. rewrite (csolo_fin_unique (cinit cs) k k' F F'). exact T'.
Qed.
Print Assumptions C41_isolated.

(* "served alone" is realised by the same server: with a single client connected (and max_connections <> 0),
   the schedule that lets it take n steps brings it to exactly the k-step solo state, for every k *)
Theorem C41_alone_is_solo : forall (maxc : option nat) (cs : list call) (k : nat),
  maxc <> Some 0 ->
  exists c, nth_error (conns (crun (repeat 0 (2 + k)) (cinit_sys maxc [cs]))) 0 = Some c
            /\ st c = solo cfin cstep k (cinit cs).
Proof.
  intros maxc cs k Hm.
  assert (Hp : has_permit maxc = true) by (destruct maxc as [[|n]|]; try reflexivity; congruence).
  destruct (alone_run cstate cfin clost cstep maxc (cinit cs) Hp k) as (c & p & h & Hr & Hs & _).
  exists c. unfold crun, cinit_sys. simpl map. rewrite Hr. split; [reflexivity|exact Hs].
Qed.
Print Assumptions C41_alone_is_solo.

(* For EVERY schedule (any length, any number of connections): at most max_connections connections are inside
   serve() -- now and at every earlier point of the run (hw = maximum of [served] over all prefixes). *)
Theorem C41_served_le_max_connections : forall (m : nat) (scripts : list (list call)) (sched : list nat),
  let g := crun sched (cinit_sys (Some m) scripts) in
  served (conns g) <= m /\ hw g <= m
  /\ forall a b, sched = a ++ b -> served (conns (crun a (cinit_sys (Some m) scripts))) <= hw g.
Proof.
  intros m scripts sched. cbn zeta.
  destruct (served_le_max cstate cfin clost cstep (map cinit scripts) m sched) as [H1 H2].
  repeat split; auto.
  intros a b ->. apply (hw_bounds_prefix cstate cfin clost cstep a b). simpl.
  assert (Z : forall l : list cstate, served (map (fun x => {| ph := Fresh; st := x |}) l) = 0) by (induction l; simpl; auto).
  rewrite Z. lia.
Qed.
Print Assumptions C41_served_le_max_connections.

(* Others wait, none is dropped: in every reachable state every connection of the input is still there; one that
   waits (Queued) has its script untouched, and it waits only while max_connections connections are being served --
   with a free slot its very next step enters serve().  (And by C41_isolated a connection only ever becomes Done
   after its own client finished its script.) *)
Theorem C41_waiting_not_dropped : forall (m : nat) (scripts : list (list call)) (sched : list nat) (i : nat) (cs : list call),
  nth_error scripts i = Some cs ->
  let g := crun sched (cinit_sys (Some m) scripts) in
  exists c, nth_error (conns g) i = Some c
            /\ (ph c = Queued ->
                st c = cinit cs
                /\ ((has_permit (permits g) = false /\ served (conns g) = m)
                    \/ exists c', nth_error (conns (crun [i] g)) i = Some c' /\ ph c' = Serving /\ st c' = st c)).
Proof.
  intros m scripts sched i cs H. cbn zeta.
  destruct (run_conns_total cstate cfin clost cstep (map cinit scripts) (Some m) sched i (cinit cs)) as [c Hc].
  { rewrite nth_error_map, H. reflexivity. }
  exists c. split; [exact Hc|]. intro Q.
  destruct (C41_isolated (Some m) scripts sched i c Hc) as (cs' & k & Hs & _ & Hq & _).
  rewrite H in Hs. inversion Hs; subst cs'. split; [apply Hq; auto|].
  destruct (has_permit (permits (crun sched (cinit_sys (Some m) scripts)))) eqn:P.
  - right. apply (queued_enters_when_free cstate cfin clost cstep _ i c Hc Q P).
  - left. split; [reflexivity|].
    apply (sem_full_means_max_serving cstate m); [|exact P].
    apply (sem_run cstate cfin clost cstep m sched), sem_init.
Qed.
Print Assumptions C41_waiting_not_dropped.

(* Nobody is ever stuck: whatever has happened so far (any schedule), the run can be continued so that ALL
   connections are Done (max_connections <> 0) -- and by C41_isolated each of them has then observed its complete
   solo traces.  Witness: let the connections inside serve() finish (no slot needed), then serve the waiting ones
   one after the other. *)
Theorem C41_all_can_complete : forall (maxc : option nat) (scripts : list (list call)) (sched : list nat),
  maxc <> Some 0 ->
  exists sched', let g := crun (sched ++ sched') (cinit_sys maxc scripts) in
    all_done g = true
    /\ forall i c cs, nth_error (conns g) i = Some c -> nth_error scripts i = Some cs -> ctrace (st c) = seq_calls cs.
Proof.
  intros maxc scripts sched Hm.
  destruct (can_complete cstate cfin clost cstep maxc (map cinit scripts) sched Hm) as [s' H].
  { intros s0 Hs. apply in_map_iff in Hs as (cs & <- & _). destruct (solo_is_seq_calls cs) as (k & F & _). exists k; exact F. }
  exists s'. cbn zeta. split; [exact H|].
  intros i c cs Hc Hs.
  destruct (C41_isolated maxc scripts (sched ++ s') i c Hc) as (cs' & k & Hs' & _ & _ & Hd).
  rewrite Hs in Hs'. inversion Hs'; subst cs'.
  apply Hd. unfold all_done in H. rewrite forallb_forall in H.
  specialize (H c (nth_error_In _ _ Hc)). destruct (ph c); try discriminate; reflexivity.
Qed.
Print Assumptions C41_all_can_complete.

(* ------------------------------------------------------------------ non-vacuity *)
Definition ex_ok : step := {| slogs := []; emit := Some {| rows := 1; tag := 0; meta := [] |}; fin := false; sraise := None |}.
Definition ex_stream : prog := PStream {| ilogs := []; ires := InitOk; hdr := Some 5%Z; steps := [ex_ok; ex_ok] |}.
Definition ex_unary : prog := PUnary {| ulogs := []; ures_of := UOk 7 |}.
Definition ex_scripts : list (list call) :=
  [[(ex_stream, SIter false 0 AStop CbRecord)]; [(ex_stream, SExch true 2 AClose CbRecord); (ex_unary, SUnary CbRecord)]; [(ex_unary, SUnary CbRecord)]].
(* max_connections = 1, three connections, stream steps of 0 and 1 interleaved as far as the semaphore allows;
   connection 1 and 2 wait; everybody completes; never more than one served *)
Definition ex_sched : list nat := [0;1;2;0;1;0;2;0;1;0;0;0;1;2;1;1;1;1;1;1;2;1;2;2;2].

Example C41_example_all_done :
  let g := crun ex_sched (cinit_sys (Some 1) ex_scripts) in
  all_done g = true /\ hw g = 1 /\ map (fun c => ctrace (st c)) (conns g) = map seq_calls ex_scripts
  /\ existsb (fun t => negb (Nat.eqb (length t) 0)) (map (fun c => ctrace (st c)) (conns g)) = true.
Proof. vm_compute. repeat split; reflexivity. Qed.

(* a connection that waits: max_connections = 1, connection 0 is being served, connection 1 has connected and
   tried to get a slot -- it is Queued with its script untouched, the slot count is exhausted, one is served *)
Example C41_example_waiting :
  let g := crun [0;0;1;1;0;1] (cinit_sys (Some 1) ex_scripts) in
  map (fun c => phase_code (ph c)) (conns g) = [2; 1; 0]%N /\ has_permit (permits g) = false /\ served (conns g) = 1
  /\ (exists c, nth_error (conns g) 1 = Some c /\ st c = cinit [(ex_stream, SExch true 2 AClose CbRecord); (ex_unary, SUnary CbRecord)]).
Proof. vm_compute. repeat split; try reflexivity. eexists. split; reflexivity. Qed.
