(* C26: sticky sessions are never used concurrently with or after close.
   Statements only; every proof is in proof/L_StickySched.v.

   Quantification: EVERY source shape [sh] (the two expiry comparisons), EVERY pool of threads (any number of
   plain requests [KReq false], requests that call close_session [KReq true], DELETEs [KDel], reaper loops
   [KReap], shutdowns [KShut]), EVERY session TTL, and EVERY schedule [sch : list nat] of arbitrary length
   (0 = the clock advances, i+1 = thread i runs to its next scheduling point).

   [trace_of s] is the chronological event trace of the session state object.  The [check_*] predicates are the
   clauses of the statement on a trace (M_StickySched.v):
     check_mutex   no Begin while another request is between its Begin and its End/Detach
     check_once    no second CloseStart
     check_during  no CloseStart while a DIFFERENT request is between Begin and End/Detach      (REFUTED, R_C26.v)
     check_after   no Begin after a CloseStart                                                 (REFUTED, R_C26.v) *)
From Coq Require Import List NArith Bool.
From VGI Require Import M_StickySched L_StickySched.
Import ListNotations.

(* "at most one request dispatches against a session at a time" *)
Theorem C26_mutex_dispatch : forall sh pool ttl sch,
  check_mutex (trace_of (run sh (init_state pool ttl) sch)) = true
  /\ forall u v, In u (disp_of (g_events (fst (run sh (init_state pool ttl) sch)))) ->
                 In v (disp_of (g_events (fst (run sh (init_state pool ttl) sch)))) -> u = v.
Proof. intros. split; [apply mutex_dispatch | apply mutex_dispatch_state]. Qed.
Print Assumptions C26_mutex_dispatch.

(* "a session's close hook runs at most once" *)
Theorem C26_close_at_most_once : forall sh pool ttl sch,
  let s := run sh (init_state pool ttl) sch in
  check_once (trace_of s) = true /\
  count_ev CloseStart (g_events (fst s)) <= 1 /\
  count_ev CloseEnd (g_events (fst s)) <= count_ev CloseStart (g_events (fst s)).
Proof. intros. apply close_at_most_once. Qed.
Print Assumptions C26_close_at_most_once.

(* "(exactly once if the session ends)": once the entry has left the registry and no thread is inside a close
   path any more, the hook has started exactly once and finished exactly once; and as long as the entry is
   registered no hook has started *)
Theorem C26_close_exactly_once_if_ended : forall sh pool ttl sch,
  let s := run sh (init_state pool ttl) sch in
  (g_present (fst s) = false -> close_quiescent s = true ->
     count_ev CloseStart (g_events (fst s)) = 1 /\ count_ev CloseEnd (g_events (fst s)) = 1)
  /\ (g_present (fst s) = true -> count_ev CloseStart (g_events (fst s)) = 0).
Proof. intros. split; [apply close_exactly_once_if_ended | apply no_close_while_registered]. Qed.
Print Assumptions C26_close_exactly_once_if_ended.

(* ... and that quiescent state is always within reach: whatever happened, once the entry has left the
   registry at most two more steps complete the (single) run of the hook -- hook steps never block *)
Theorem C26_close_completes : forall sh pool ttl sch,
  g_present (fst (run sh (init_state pool ttl) sch)) = false ->
  exists ext, length ext <= 2 /\
    count_ev CloseStart (g_events (fst (run sh (init_state pool ttl) (sch ++ ext)))) = 1 /\
    count_ev CloseEnd (g_events (fst (run sh (init_state pool ttl) (sch ++ ext)))) = 1.
Proof. intros sh pool ttl sch. apply close_completes. Qed.
Print Assumptions C26_close_completes.

(* "never while a request is dispatching" -- PARTIAL: holds for closes issued under the entry lock.  While a
   DELETE thread (on_delete: `with entry.lock: registry.close(...)`) is about to run or is running the hook,
   no request is dispatching.  The closes that do NOT hold the entry lock -- reaper sweep, shutdown, the expiry
   branch of get, and the in-method close_session (which releases first) -- are the refuted ones (R_C26.v). *)
Theorem C26_no_close_during_dispatch_partial : forall sh pool ttl sch i t,
  let s := run sh (init_state pool ttl) sch in
  nth_error (snd s) i = Some t -> t_kind t = KDel -> (t_pc t = PHook1 \/ t_pc t = PHook2) ->
  disp_of (g_events (fst s)) = [].
Proof. intros sh pool ttl sch i t. apply no_close_during_dispatch_delete. Qed.
Print Assumptions C26_no_close_during_dispatch_partial.

(* "no request dispatches after the close hook has started" -- PARTIAL: holds for every request whose registry
   lookup comes after the removal of the entry.  Precisely: every Begin is preceded by a Hit of the same thread
   that itself precedes the removal (Gone) of the entry, and every CloseStart is preceded by Gone.  What is NOT
   excluded -- and happens, R_C26.v -- is a request that found the entry, then waited between lookup and
   Begin (no re-validation after entry.lock.acquire()) while somebody else closed the session. *)
Theorem C26_no_dispatch_after_close_partial : forall sh pool ttl sch,
  let tr := trace_of (run sh (init_state pool ttl) sch) in
  check_live_lookup tr = true /\ check_close_after_gone tr = true.
Proof. intros sh pool ttl sch. apply dispatch_only_after_live_lookup. Qed.
Print Assumptions C26_no_dispatch_after_close_partial.

(* ---- non-vacuity: the hypotheses are met by concrete, non-trivial runs ------------------------------------ *)

(* two requests really contend: with request 0 in its method, request 1 is parked at the entry lock *)
Example contention_is_reachable :
  let s := run std_sshape (init_state [KReq false; KReq false] 100%N) [1; 1; 1; 1; 2; 2; 2; 2] in
  disp_of (g_events (fst s)) = [0] /\ map t_pc (snd s) = [PWork; PAcq].
Proof. vm_compute. split; reflexivity. Qed.

(* a session that ended and is quiescent: DELETE ran to completion *)
Example ended_and_quiescent_is_reachable :
  let s := run std_sshape (init_state [KReq false; KDel] 100%N) [2; 2; 2; 2; 2; 2; 1; 1] in
  g_present (fst s) = false /\ close_quiescent s = true /\ map t_out (snd s) = [2%N; 1%N].
Proof. vm_compute. repeat split; reflexivity. Qed.

(* a DELETE thread inside its hook while a request waits for the lock *)
Example delete_in_hook_is_reachable :
  let s := run std_sshape (init_state [KReq false; KDel] 100%N) [1; 1; 2; 2; 2; 2; 2; 1] in
  exists t, nth_error (snd s) 1 = Some t /\ t_kind t = KDel /\ t_pc t = PHook2.
Proof. vm_compute. eexists; repeat split; reflexivity. Qed.

(* the live-lookup monitor is not trivially true: it rejects a Begin without a Hit *)
Example live_lookup_monitor_rejects : check_live_lookup [(Gone, 1); (Hit, 0); (Begin, 0)] = false.
Proof. reflexivity. Qed.
Example live_lookup_monitor_accepts : check_live_lookup [(Hit, 0); (Gone, 1); (Begin, 0)] = true.
Proof. reflexivity. Qed.
Example mutex_monitor_rejects : check_mutex [(Begin, 0); (Begin, 1)] = false.
Proof. reflexivity. Qed.
Example once_monitor_rejects : check_once [(CloseStart, 0); (CloseEnd, 0); (CloseStart, 1)] = false.
Proof. reflexivity. Qed.
