(* C11 HTTP producer output is independent of chunking and resumption -- theorem statements only
   (model: model/M_HttpProd.v on the shared wire core model/M_Wire.v ; proofs: proof/L_HttpProd.v).

   progs            program id -> what the stream's implementation does (ANY step list: emits, logs, finish, raise)
   worker           token key, httpcfg = (cap : option N, frame sizes, base), codec lag of the cap meter, call-state
                    cache (capacity, contents)
   iterate          proxy.method(pid) on a worker, then HttpStreamSession.__iter__ to exhaustion (callback c)
   open_sess/nwt_all  proxy.method(pid), then next_with_token until it ends
   resume_iter      resume_stream(token) / seek_to_token(token) on ANY worker, then iterate
   obs_prod c sts None   the reference semantics of the wire core (what any client must observe of the steps sts)
   emitted sts      its data batches under a recording callback

   Side conditions -- each one is a class where the faithful model of the CODE deviates (refuted/R_C11.v):
     first_ok ...      the FIRST HTTP response of the stream carries no error (else the client drops its batches)
     forall z, lag z = z   the cap test reads the body position in front of the compressor (not the current code
                           when a response codec is negotiated on a continuation turn) *)
From Coq Require Import List NArith ZArith Bool String.
From VGI Require Import Bytes Layout Corr M_Wire L_Wire L_WireHttp M_HttpProd L_HttpProd.
Import ListNotations.
Open Scope N_scope.

(* The batches a client iterates are those of the reference semantics -- for every worker configuration
   (cap None | Some any, any frame sizes -- hence any codec --, any lag, any cache), every callback behaviour. *)
Theorem C11_iterate_is_reference : forall progs c w sh pid cid fuel,
  first_ok progs c w sh pid cid = true -> (List.length (steps (progs pid)) < fuel)%nat ->
  batches_of (fst (fst (iterate progs fuel c w sh pid cid))) = batches_of (obs_prod c (steps (progs pid)) None).
Proof. exact iterate_batches. Qed.

(* ... hence the same for any two max_response_bytes values / codings / numbers of continuation turns *)
Theorem C11_cap_independent_partial : forall progs c w1 w2 sh pid cid1 cid2 fuel1 fuel2,
  first_ok progs c w1 sh pid cid1 = true -> first_ok progs c w2 sh pid cid2 = true ->
  (List.length (steps (progs pid)) < fuel1)%nat -> (List.length (steps (progs pid)) < fuel2)%nat ->
  batches_of (fst (fst (iterate progs fuel1 c w1 sh pid cid1))) = batches_of (fst (fst (iterate progs fuel2 c w2 sh pid cid2))).
Proof.
  intros. rewrite (iterate_batches progs c w1) by assumption. rewrite (iterate_batches progs c w2) by assumption. reflexivity.
Qed.

(* Resumption.  If the (k+1)-th next_with_token call on an uncapped origin worker w0 hands out a resume token, then
   (1) the token is the cursor after k+1 steps plus the stream's call token;
   (2) the k+1 batches delivered so far followed by what the remaining steps emit is everything the producer emits;
   (3) on ANY worker sharing the key -- any cap, sizes, lag, cache capacity (0 included), and any cache contents that
       are not wrong about this call (cold = no entry, warm = the entry) -- iterating the resumed session observes
       exactly the reference semantics of the remaining steps (batches, logs, terminal outcome). *)
Theorem C11_resume : forall progs w0 sh pid cid ss w1 fuel rs w2 k b tok,
  cap (w_cfg w0) = None ->
  open_sess progs w0 sh pid cid = inr (ss, w1) ->
  nwt_all progs fuel w1 ss = (rs, w2) ->
  nth_error rs k = Some (NItem b (Some tok)) ->
  tok = (mkct (w_key w0) cid (curpid_of sh pid) (S k), Some (mkkt (w_key w0) cid (callpid_of sh pid))) /\
  emitted (steps (progs pid)) = items_batches (firstn (S k) rs) ++ emitted (skipn (S k) (steps (progs pid))) /\
  forall w' c fuel', w_key w' = w_key w0 -> cache_ok cid (callpid_of sh pid) (w_cache w') ->
    (List.length (steps (progs pid)) < fuel')%nat ->
    fst (fst (resume_iter progs fuel' c w' tok)) = obs_prod c (skipn (S k) (steps (progs pid))) None.
Proof. exact resume_remaining. Qed.

(* warm or cold, same or other worker: the observation is the same *)
Theorem C11_resume_any_cache_same : forall progs w0 sh pid cid ss w1 fuel rs w2 k b tok wa wb c fa fb,
  cap (w_cfg w0) = None ->
  open_sess progs w0 sh pid cid = inr (ss, w1) ->
  nwt_all progs fuel w1 ss = (rs, w2) ->
  nth_error rs k = Some (NItem b (Some tok)) ->
  w_key wa = w_key w0 -> w_key wb = w_key w0 ->
  cache_ok cid (callpid_of sh pid) (w_cache wa) -> cache_ok cid (callpid_of sh pid) (w_cache wb) ->
  (List.length (steps (progs pid)) < fa)%nat -> (List.length (steps (progs pid)) < fb)%nat ->
  fst (fst (resume_iter progs fa c wa tok)) = fst (fst (resume_iter progs fb c wb tok)).
Proof.
  intros progs w0 sh pid cid ss w1 fuel rs w2 k b tok wa wb c fa fb Hc Ho Ha Hn Hka Hkb Hca Hcb Hfa Hfb.
  destruct (resume_remaining progs w0 sh pid cid ss w1 fuel rs w2 k b tok Hc Ho Ha Hn) as [_ [_ H]].
  rewrite (H wa c fa Hka Hca Hfa), (H wb c fb Hkb Hcb Hfb). reflexivity.
Qed.

(* seek_to_token on ANY session -- fresh, already finished because its /init response carried the whole stream
   (large cap on that worker), or read to end-of-stream and rewound: iteration observes exactly the remaining steps. *)
Theorem C11_seek_resume : forall progs w0 sh pid cid ss w1 fuel rs w2 k b tok,
  cap (w_cfg w0) = None ->
  open_sess progs w0 sh pid cid = inr (ss, w1) ->
  nwt_all progs fuel w1 ss = (rs, w2) ->
  nth_error rs k = Some (NItem b (Some tok)) ->
  forall (any : sess) w' c fuel', w_key w' = w_key w0 -> cache_ok cid (callpid_of sh pid) (w_cache w') ->
    (List.length (steps (progs pid)) < fuel')%nat ->
    fst (fst (iter_sess progs fuel' c w' (seek any tok))) = obs_prod c (skipn (S k) (steps (progs pid))) None.
Proof. exact seek_remaining. Qed.

(* A turn's body exceeds the cap by at most the output of its last process() call: for a continuation turn
   (exch) and for the first turn (init; its stream starts with the init logs unless a header stream took them). *)
Theorem C11_overshoot_le_last : forall progs w ct kt t k w' c pre last,
  (forall z, w_lag w z = z) -> cap (w_cfg w) = Some c ->
  exch progs w ct kt = (ROk (pre ++ [last]) t k, w') -> pre <> [] ->
  frames_size (fsize (w_cfg w)) (base (w_cfg w)) (List.concat (pre ++ [last])) < c + group_size (fsize (w_cfg w)) last.
Proof.
  intros progs w ct kt t k w' c pre last Hlag Hcap H Hne. unfold exch in H.
  destruct (resolve w ct kt) as [e|[cp w1]]; [discriminate|].
  destruct (turn_groups _ _ _ _ _) as [gs t0] eqn:E. inversion H; subst gs. clear H.
  exact (overshoot_body _ _ _ _ _ _ _ _ _ _ Hlag Hcap E Hne).
Qed.

Theorem C11_overshoot_le_last_init : forall progs w sh pid cid l0 t k w' c pre last,
  cap (w_cfg w) = Some c ->
  init progs w sh pid cid = (ROk (l0 :: pre ++ [last]) t k, w') -> pre <> [] ->
  frames_size (fsize (w_cfg w)) (frames_size (fsize (w_cfg w)) (base (w_cfg w)) (match sh with ShHdr => [] | _ => l0 end))
              (List.concat (pre ++ [last])) < c + group_size (fsize (w_cfg w)) last.
Proof.
  intros progs w sh pid cid l0 t k w' c pre last Hcap H Hne. unfold init in H.
  destruct (ires (progs pid)); try discriminate.
  destruct (turn_groups _ _ _ _ _) as [gs t0] eqn:E. inversion H; subst gs l0. clear H.
  exact (overshoot_body _ _ (fun z => z) _ _ _ _ _ _ _ (fun _ => eq_refl) Hcap E Hne).
Qed.

(* _decode_resume_token (_encode_resume_token s c) = (s, c) -- an EMPTY call token decodes as None -- and encoding
   succeeds for byte strings whose cursor part is shorter than 2^32 *)
Theorem C11_resume_token_roundtrip : forall st call,
  (forall b, enc_resume st call = Some b -> dec_resume b = Some (st, match call with Some [] => None | x => x end)) /\
  (bytes_ok st = true -> bytes_ok (match call with Some c => c | None => [] end) = true ->
   N.of_nat (List.length st) < 4294967296 -> exists b, enc_resume st call = Some b).
Proof. intros st call. split; [intro b; apply resume_roundtrip|apply resume_encodes]. Qed.

(* The turns of this model, concatenated with their token sentinels, are exactly the wire core's [http_frames]
   (model/M_Wire.v), so P_C01.C01_turns_invisible (= L_WireHttp.consume_frames) speaks about the same frames. *)
Theorem C11_turns_are_wire_core_frames : forall cfg sts i z,
  http_frames cfg sts i z =
  (let '(gs, t) := turn_groups (fsize cfg) (keep_going cfg) sts i z in
   List.concat gs ++ match t with Some j => FToken j :: http_frames cfg (skipn (j - i) sts) j (base cfg) | None => [] end)
  /\ (forall z', go_of cfg (fun z => z) z' = keep_going cfg z')
  /\ (steps_quiet sts = true -> http_consume CbRecord (http_frames cfg sts i z) None = obs_prod CbRecord sts None).
Proof. intros. split; [apply turns_flat|]. split; [apply go_keep|apply consume_frames]. Qed.

Print Assumptions C11_iterate_is_reference.
Print Assumptions C11_cap_independent_partial.
Print Assumptions C11_resume.
Print Assumptions C11_resume_any_cache_same.
Print Assumptions C11_seek_resume.
Print Assumptions C11_overshoot_le_last.
Print Assumptions C11_overshoot_le_last_init.
Print Assumptions C11_resume_token_roundtrip.
Print Assumptions C11_turns_are_wire_core_frames.

(* ---- non-vacuity *)
Definition ex_log (l : level) (t : string) : logmsg := {| lvl := l; text := s t; extra := [] |}.
Definition ex_b (r t : N) : batch := {| rows := r; tag := t; meta := [] |}.
Definition ex_sp : stream_prog := {| ilogs := [ex_log INFO "init"]; ires := InitOk; hdr := Some 7%Z; steps :=
  [ {| slogs := [ex_log DEBUG "s0"]; emit := Some (ex_b 3 0); fin := false; sraise := None |};
    {| slogs := []; emit := Some (ex_b 0 1); fin := false; sraise := None |};
    {| slogs := [ex_log WARN "s2"]; emit := Some (ex_b 5 2); fin := false; sraise := None |};
    {| slogs := []; emit := Some (ex_b 2 3); fin := true; sraise := None |} ] |}.
Definition ex_w (c : option N) (ents : nat) : worker :=
  {| w_key := 1; w_cfg := {| cap := c; fsize := fun _ => 100; base := 100 |}; w_lag := fun z => z; w_ents := ents; w_cache := [] |}.
Definition ex_progs (_ : N) := ex_sp.

Example C11_nonvacuous_iterate :
  forallb (fun c => first_ok ex_progs CbRecord (ex_w c 4) ShCs 7 100) [None; Some 1; Some 350; Some 10000000] = true
  /\ batches_of (fst (fst (iterate ex_progs 9 CbRecord (ex_w (Some 350) 4) ShCs 7 100))) = [ex_b 3 0; ex_b 0 1; ex_b 5 2; ex_b 2 3]
  /\ map snd (snd (fst (iterate ex_progs 9 CbRecord (ex_w (Some 350) 4) ShCs 7 100))) = [true; true; false]
  /\ map snd (snd (fst (iterate ex_progs 9 CbRecord (ex_w None 4) ShCs 7 100))) = [true; true; true; false].
Proof. vm_compute. repeat split; reflexivity. Qed.

Example C11_nonvacuous_resume :
  exists ss w1 rs w2 b tok,
    open_sess ex_progs (ex_w None 4) ShCs 7 100 = inr (ss, w1) /\ nwt_all ex_progs 9 w1 ss = (rs, w2) /\
    nth_error rs 1 = Some (NItem b (Some tok)) /\ List.length rs = 5%nat /\
    fst (fst (resume_iter ex_progs 9 CbRecord (ex_w (Some 1) 0) tok)) = [ELog (ex_log WARN "s2"); EBatch (ex_b 5 2); EBatch (ex_b 2 3); EDone].
Proof. do 6 eexists. vm_compute. repeat split; reflexivity. Qed.

(* a fresh session on a worker with a huge cap is FINISHED by its /init response (no token); seeking it still resumes *)
Example C11_nonvacuous_seek_finished :
  exists ss w1 rs w2 b tok fs fw,
    open_sess ex_progs (ex_w None 4) ShCs 7 100 = inr (ss, w1) /\ nwt_all ex_progs 9 w1 ss = (rs, w2) /\
    nth_error rs 1 = Some (NItem b (Some tok)) /\
    open_sess ex_progs (ex_w (Some 10000000) 4) ShCs 7 101 = inr (fs, fw) /\ s_fin fs = true /\ s_ct fs = None /\
    fst (fst (iter_sess ex_progs 9 CbRecord fw (seek fs tok))) = [ELog (ex_log WARN "s2"); EBatch (ex_b 5 2); EBatch (ex_b 2 3); EDone].
Proof. do 8 eexists. vm_compute. repeat split; reflexivity. Qed.

Example C11_nonvacuous_overshoot :
  exists t k w', exch ex_progs (ex_w (Some 250) 4) (mkct 1 100 None 1) (Some (mkkt 1 100 (Some 7))) =
                 (ROk ([[FData (ex_b 0 1)]] ++ [[FLog (ex_log WARN "s2"); FData (ex_b 5 2)]]) t k, w').
Proof. do 3 eexists. vm_compute. reflexivity. Qed.
