(* C08 Client log messages are delivered once, in order, robustly -- theorem statements only
   (proofs in proof/L_WireLog.v, on top of proof/L_Wire.v and proof/L_WireHttp.v).

   emitted p sc   what the implementation emits during the call, in emission order (model/M_WireLog.v): logs, header,
                  batches / result, up to and including the first error -- INCLUDING the logs a failing step emitted
                  before it failed.
   run_pipe       the socket family (pipe / subprocess / unix / tcp / shm-pipe), run_http cfg: HTTP for every
                  max_response_bytes and size function (model/M_Wire.v); their result is the client's observation:
                  on_log invocations (ELog m -- the whole message: level, text, extras), returned result / header /
                  batches, the error of the call.
   prefix_of a b  b = a ++ rest.
   early E T      T is E with log messages moved AHEAD of data items -- never behind one, never past another log
                  (C08_early_meaning spells out the consequences).
   client_dispatch what the client does with one received batch, for ARBITRARY peer metadata (peer_md: any level
                  string, any message, log_extra absent / unparseable / any JSON document).

   Side conditions of the *_partial theorems; each one names a class on which the faithful model of the code deviates
   or which belongs to another property:
     lossless p sc     no step (and no init method) that FAILS has emitted logs before failing.  On the complement the
                       code LOSES those logs (stream steps keep them in the step's collector, init in the buffering
                       sink, both discarded on failure): refuted/R_C08.v, finding keys logs-of-failing-step-dropped,
                       logs-of-failing-init-dropped.
     records sc        the on_log callback returns normally (a raising callback ends the call: C04).
     no_exc_logs p     no client-directed log at EXCEPTION level (such a batch IS the error of the call; C01 finding
                       socket-close-drain-delivers-logs-queued-after-an-exception-level-log lives there).
     legal p sc        the implementation returns a Stream / the declared header (C04), exchange is not iterated.
     pipe_reads p sc   the socket client reads at least one response or closes/cancels the stream (an abandoned
                       headerless stream is never looked at: C01 finding).
     fits cfg p sc     no unary/exchange response exceeds max_response_bytes (hard cap, C16: the response, logs
                       included, is replaced by the cap error).
     first_turn_ok     the first HTTP response of a producer carries no error (C01 finding
                       http-first-turn-error-discards-header-and-batches: the logs ARE delivered, header and batches
                       are not -- outside [early], covered by the oracle of props/C08.py only). *)
From Coq Require Import List NArith ZArith Bool String.
From VGI Require Import Corr M_Wire L_Wire L_WireHttp M_WireLog L_WireLog.
Import ListNotations.
Open Scope N_scope.

(* ---- once, in order, before the data item: socket family.  The client's observation is literally an initial
   segment of the emission sequence: every log at its place, none duplicated, none invented, none reordered. *)
Theorem C08_pipe_once_in_order_partial : forall p sc,
  legal p sc = true -> records sc = true -> no_exc_logs p = true -> pipe_reads p sc = true -> lossless p sc = true ->
  prefix_of (run_pipe p sc) (emitted p sc).
Proof. exact pipe_once_in_order. Qed.

(* none lost: a call run to its end (unary, exchange of n inputs, producer iterated to exhaustion) observes the whole sequence *)
Theorem C08_pipe_none_lost_partial : forall p sc,
  legal p sc = true -> records sc = true -> no_exc_logs p = true -> pipe_reads p sc = true -> lossless p sc = true ->
  complete sc = true -> run_pipe p sc = emitted p sc.
Proof. exact pipe_none_lost. Qed.

(* ---- HTTP, every cap: the observation is an initial segment of T, where T is the emission sequence with logs
   delivered early (the first response of a producer is parsed eagerly); a call run to its end observes T itself *)
Theorem C08_http_once_in_order_partial : forall cfg p sc,
  legal p sc = true -> records sc = true -> no_exc_logs p = true -> fits cfg p sc = true -> first_turn_ok cfg p sc = true ->
  lossless p sc = true ->
  exists T, prefix_of (run_http cfg p sc) T /\ early (emitted p sc) T /\ (complete sc = true -> run_http cfg p sc = T).
Proof. exact http_once_in_order. Qed.

(* ---- a stream the client ends itself, however early (zero reads then close() / cancel() / leaving a `with` block
   included): every log a successful init emitted heads the observation -- on a header-less socket stream it is the
   close / cancel drain that delivers them *)
Theorem C08_pipe_init_logs_delivered : forall sp sc,
  legal (PStream sp) sc = true -> records sc = true -> no_exc_logs (PStream sp) = true -> pipe_reads (PStream sp) sc = true ->
  ires sp = InitOk -> prefix_of (map ELog (ilogs sp)) (run_pipe (PStream sp) sc).
Proof. exact pipe_init_logs_delivered. Qed.

Theorem C08_http_init_logs_delivered : forall cfg sp sc,
  legal (PStream sp) sc = true -> records sc = true -> no_exc_logs (PStream sp) = true ->
  ires sp = InitOk -> prefix_of (map ELog (ilogs sp)) (run_http cfg (PStream sp) sc).
Proof. exact http_init_logs_delivered. Qed.

(* what [early E T] gives the client: the same log messages in the same order (exactly once, level/text/extras intact),
   the same data items in the same order, and when a data item d is returned every log emitted before d has already
   been delivered (logs_of T1 extends logs_of E1, where E1 is what was emitted before d) *)
Theorem C08_early_meaning : forall E T, early E T ->
  logs_of T = logs_of E /\ data_of T = data_of E /\
  forall T1 d T2, T = T1 ++ d :: T2 -> is_data d = true ->
    exists E1 E2, E = E1 ++ d :: E2 /\ data_of E1 = data_of T1 /\ exists more, logs_of T1 = logs_of E1 ++ more.
Proof. exact early_sound. Qed.

(* ---- robustness: for ALL peer metadata the client hands the batch on as data, delivers, ignores or raises RpcError *)
Theorem C08_robust : forall md : peer_md,
  client_dispatch md = NotLog \/ (exists l t ex, client_dispatch md = Deliver l t ex) \/ client_dispatch md = Ignore
  \/ (exists ty m, client_dispatch md = RaiseRpc ty m).
Proof. exact dispatch_cases. Qed.

Theorem C08_never_crashes : forall md : peer_md, is_crash (client_dispatch md) = false.
Proof. exact dispatch_robust. Qed.

(* a zero-row batch with a known non-EXCEPTION level and a message is DELIVERED whatever log_extra holds; the members
   of an extra object arrive under their own keys ('level', 'message', 'self' included; later duplicates win) *)
Theorem C08_peer_message_delivered : forall md l lv m,
  p_has_md md = true -> p_rows md = 0 -> p_level md = Some l -> p_message md = Some m ->
  lookup_level level_table l = Some lv -> lv <> EXC ->
  client_dispatch md = Deliver lv m (dset_opt (s "request_id") (nonempty (p_request_id md)) (dset_opt (s "server_id") (p_server_id md) (peer_extras (p_extra md)))).
Proof. exact dispatch_delivers. Qed.

(* level, text and extras of a message the server encodes (Message.add_to_metadata) survive the wire, for any keys *)
Theorem C08_roundtrip_preserved : forall m sid rid,
  lvl m <> EXC -> uniq (map fst (extra m)) = true ->
  client_dispatch (encode_log m sid rid) =
  Deliver (lvl m) (text m) (dset_opt (s "request_id") (nonempty rid) (dset_opt (s "server_id") sid (jextras m))).
Proof. exact log_roundtrip. Qed.

Print Assumptions C08_pipe_once_in_order_partial.
Print Assumptions C08_pipe_none_lost_partial.
Print Assumptions C08_http_once_in_order_partial.
Print Assumptions C08_pipe_init_logs_delivered.
Print Assumptions C08_http_init_logs_delivered.
Print Assumptions C08_early_meaning.
Print Assumptions C08_robust.
Print Assumptions C08_never_crashes.
Print Assumptions C08_peer_message_delivered.
Print Assumptions C08_roundtrip_preserved.

(* ---- non-vacuity *)
Local Open Scope string_scope.
Definition c8_log (l : level) (t : string) (kv : list (string * string)) : logmsg :=
  {| lvl := l; text := s t; extra := map (fun p => (s (fst p), s (snd p))) kv |}.
Definition c8_b (r t : N) : batch := {| rows := r; tag := t; meta := [] |}.
Definition c8_prod : prog := PStream {| ilogs := [c8_log INFO "init" [("level", "x")]]; ires := InitOk; hdr := Some 7%Z; steps :=
  [ {| slogs := [c8_log DEBUG "s0" [("message", "m"); ("k", "v")]]; emit := Some (c8_b 3 0); fin := false; sraise := None |};
    {| slogs := [c8_log WARN "s1a" []; c8_log ERR "s1b" []]; emit := Some (c8_b 1 1); fin := false; sraise := None |};
    {| slogs := []; emit := None; fin := false; sraise := Some {| cls := s "ValueError"; emsg := s "boom"; kind := None |} |} ] |}.
Definition c8_cfg (c : option N) : httpcfg := {| cap := c; fsize := fun _ => 100; base := 100 |}.

(* a header producer with logs before every batch and a failing last step meets every side condition, on sockets and on
   HTTP with a cap that splits the stream into several responses; over HTTP the second step's logs really are early *)
Example C08_nonvacuous_producer :
  let sc := SIter true 0 AStop CbRecord in
  legal c8_prod sc = true /\ records sc = true /\ no_exc_logs c8_prod = true /\ pipe_reads c8_prod sc = true /\ lossless c8_prod sc = true
  /\ complete sc = true /\ fits (c8_cfg (Some 250)) c8_prod sc = true
  /\ first_turn_ok (c8_cfg (Some 250)) c8_prod sc = true /\ first_turn_ok (c8_cfg None) c8_prod sc = true
  /\ List.length (logs_of (run_pipe c8_prod sc)) = 4%nat
  /\ trace_eqb (run_pipe c8_prod sc) (run_http (c8_cfg (Some 250)) c8_prod sc) = false
  /\ trace_eqb (logs_of (run_pipe c8_prod sc)) (logs_of (run_http (c8_cfg (Some 250)) c8_prod sc)) = true.
Proof. vm_compute. repeat split; reflexivity. Qed.

Example C08_nonvacuous_peer :
  let md := {| p_has_md := true; p_rows := 0; p_level := Some (s "WARN"); p_message := Some (s "hello");
               p_extra := XJson (JObj [(s "level", JStr (s "x")); (s "a", JArr [JNum (s "1"); JNull]); (s "level", JBool true)]);
               p_server_id := Some (s "srv"); p_request_id := Some [] |} in
  client_dispatch md = Deliver WARN (s "hello") [(s "level", JBool true); (s "a", JArr [JNum (s "1"); JNull]); (s "server_id", JStr (s "srv"))].
Proof. vm_compute. reflexivity. Qed.

Example C08_nonvacuous_roundtrip :
  let m := c8_log INFO "t" [("level", "x"); ("message", "y"); ("self", "z")] in
  lvl m <> EXC /\ uniq (map fst (extra m)) = true.
Proof. split; [discriminate|vm_compute; reflexivity]. Qed.

(* zero reads, then close / cancel, header-less and headered, producer and exchange: the premises hold and the init log is all the socket client sees *)
Example C08_nonvacuous_zero_reads :
  forallb (fun sc => legal c8_prod sc && records sc && no_exc_logs c8_prod && pipe_reads c8_prod sc
                     && trace_eqb (logs_of (run_pipe c8_prod sc)) [ELog (c8_log INFO "init" [("level", "x")])])
          [SIter false 0 AClose CbRecord; SIter false 0 ACancel CbRecord; SIter true 0 AClose CbRecord;
           SExch false 0 AClose CbRecord; SExch false 0 ACancel CbRecord; SExch true 0 ACancel CbRecord] = true.
Proof. vm_compute. reflexivity. Qed.
