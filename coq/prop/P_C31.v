(* C31: external fetches are bounded, validated and credential-safe.
   Statements only; every proof is in proof/L_Fetch*.v.  The model (model/M_Fetch.v) quantifies over
   ALL origin scripts (every response of every request sequence), ALL schedules of the range tasks
   (task start/end times, asyncio.wait rounds, iteration orders), ALL configurations and validators. *)
From Coq Require Import List ZArith NArith Bool.
From VGI Require Import M_Fetch L_Fetch L_FetchPar L_FetchTop L_FetchThm L_FetchRedact.
Import ListNotations.
Open Scope Z_scope.

(* 1. Only validated URLs are contacted - on every hop of every request sequence of every attempt; the second
      conjunct covers range tasks that were cancelled before they finished (any range, any script). *)
Theorem C31_only_validated_urls_contacted :
  forall valid c presigned url dec1 dec2 sc1 sc2 r obs,
    fetch_url valid c presigned url dec1 dec2 sc1 sc2 = (r, obs) ->
    (forall o s u, In o obs -> In s (seqs_of o) -> In u (fst s) -> valid u = true)
    /\ (forall rg hops u, In u (fst (snd (run_task valid c url rg hops))) -> valid u = true).
Proof. exact fetch_url_only_validated. Qed.
Print Assumptions C31_only_validated_urls_contacted.

(* 2. Every request sequence issues at most max_redirects + 1 requests, i.e. follows at most max_redirects redirects. *)
Theorem C31_redirects_le_max :
  forall valid c presigned url dec1 dec2 sc1 sc2 r obs,
    fetch_url valid c presigned url dec1 dec2 sc1 sc2 = (r, obs) ->
    (forall o s, In o obs -> In s (seqs_of o) -> (N.of_nat (length (fst s)) <= c_max_redir c + 1)%N)
    /\ (forall rg hops, (N.of_nat (length (fst (snd (run_task valid c url rg hops)))) <= c_max_redir c + 1)%N).
Proof. exact fetch_url_redirects. Qed.
Print Assumptions C31_redirects_le_max.

(* 3. Body bytes taken from the response streams, per attempt: the probe at most 2 (none for HEAD); the single GET at
      most max_fetch_bytes + 65536; every range response (finished, cancelled, hedge) at most
      min(chunk_size, max_fetch_bytes) + 1; the sum over the initial range tasks at most probed length + number of
      ranges, where the probed length is at most max_fetch_bytes. *)
Theorem C31_bytes_read_le_cap_plus_chunk :
  forall valid c presigned url dec1 dec2 sc1 sc2 r obs,
    0 <= c_max_fetch c -> 0 < c_chunk c ->
    fetch_url valid c presigned url dec1 dec2 sc1 sc2 = (r, obs) ->
    forall o, In o obs ->
      0 <= snd (o_probe o) <= 2
      /\ (presigned = false -> snd (o_probe o) = 0)
      /\ (forall s, o_get o = Some s -> 0 <= snd s <= c_max_fetch c + 65536)
      /\ (forall tid s, In (tid, s) (o_done o) -> 0 <= snd s <= Z.min (c_chunk c) (c_max_fetch c) + 1)
      /\ (forall z rg hops, In rg (compute_ranges z (c_chunk c)) ->
            0 <= snd (snd (run_task valid c url rg hops)) <= Z.min (snd rg - fst rg + 1) (c_max_fetch c) + 1).
Proof. exact fetch_url_bytes. Qed.
Print Assumptions C31_bytes_read_le_cap_plus_chunk.

(* 3b. The total on the range path.  By (3) a task created for chunk ck takes at most task_cap ck = min(size of range ck,
       max_fetch_bytes) + 1 bytes, finished or not; by (4) the tasks created are one per range plus `hedged`.  For a
       probed length z <= max_fetch_bytes the caps add up to at most
       max_fetch_bytes + (number of ranges) + (number of hedges) * (chunk_size + 1). *)
Theorem C31_total_range_bytes_le_cap_plus_chunks :
  forall z chunk maxf hedged,
    0 < chunk -> 0 <= z <= maxf ->
    let ranges := compute_ranges z chunk in
    let n := length ranges in
    Forall (fun ck => (ck < n)%nat) hedged ->
    sumZ (map (task_cap ranges maxf) (seq 0 n ++ hedged)) <= maxf + Z.of_nat n + len hedged * (chunk + 1).
Proof. exact total_range_bytes_bound. Qed.
Print Assumptions C31_total_range_bytes_le_cap_plus_chunks.

(* 4. Range tasks created in one attempt: one per range, plus hedges - each of a distinct chunk, at most
      max_speculative_hedges of them (when that is positive), never more than the number of chunks. *)
Theorem C31_hedges_bounded :
  forall valid c presigned url dec1 dec2 sc1 sc2 r obs,
    fetch_url valid c presigned url dec1 dec2 sc1 sc2 = (r, obs) ->
    forall o, In o obs ->
      exists n hedged, o_chunkof o = seq 0 n ++ hedged /\ (length hedged <= n)%nat
                       /\ (0 < c_max_hedges c -> len hedged <= c_max_hedges c)
                       /\ Forall (fun ck => (ck < n)%nat) hedged /\ NoDup hedged.
Proof. exact fetch_url_hedges. Qed.
Print Assumptions C31_hedges_bounded.

(* 5. _compute_ranges: for ALL lengths and chunk sizes the ranges are a chain of non-empty, contiguous,
      non-overlapping inclusive ranges from 0 to len - 1, each at most chunk_size long, and the slices they name
      concatenate to the object. *)
Theorem C31_ranges_partition :
  forall cl chunk, 0 < chunk -> 0 <= cl ->
    covers 0 cl (compute_ranges cl chunk)
    /\ Forall (fun r => snd r - fst r + 1 <= chunk) (compute_ranges cl chunk)
    /\ (forall obj : list N, len obj = cl -> concat (map (slice obj) (compute_ranges cl chunk)) = obj).
Proof. exact compute_ranges_partition. Qed.
Print Assumptions C31_ranges_partition.

(* 6. What is returned never exceeds max_decompressed_bytes, and the decompressor is called with exactly that cap. *)
Theorem C31_decoded_le_cap :
  forall valid c presigned url dec1 dec2 sc1 sc2 r obs,
    fetch_url valid c presigned url dec1 dec2 sc1 sc2 = (r, obs) ->
    (forall d, r = ROk d -> len d <= max_dec c)
    /\ (forall o k data m, In o obs -> o_dec o = Some (k, data, m) -> m = max_dec c).
Proof. exact fetch_url_decoded_cap. Qed.
Print Assumptions C31_decoded_le_cap.

(* 7. Exact or fail - PARTIAL.  If the origin serves `obj` (the clean stream of the data GET is the object; a range
      task that succeeds delivers the slice it was asked for) AND the length the probe reported is the object's length,
      then a successful attempt returns the object, decoded by the codec the EFFECTIVE Content-Encoding names: on the
      single-GET path the encoding named by the response that carried the body (the probe's only when that response
      names none), on the range path the probe's.
      The side condition `probed_length_true` is what the code does not establish: refuted/R_C31.v. *)
Theorem C31_exact_or_fail_partial :
  forall valid c presigned url dec sc obj d o,
    0 < c_chunk c ->
    origin_serves valid c presigned url sc obj -> probed_length_true valid c presigned url sc obj ->
    attempt valid c presigned url dec sc = (ROk d, o) ->
    exists ce, effective_cenc valid c presigned url sc ce /\
               match codec_of ce with
               | None => d = obj
               | Some k => dec k obj (max_dec c) = Some d
               end.
Proof. exact attempt_exact_partial. Qed.
Print Assumptions C31_exact_or_fail_partial.

(* 8. fetch_url makes one attempt, or two when the first ended in ServerDisconnectedError / ConnectionResetError;
      its result is the result of the last attempt. *)
Theorem C31_at_most_two_attempts :
  forall valid c presigned url dec1 dec2 sc1 sc2 r obs,
    fetch_url valid c presigned url dec1 dec2 sc1 sc2 = (r, obs) ->
    (exists o1, obs = [o1] /\ attempt valid c presigned url dec1 sc1 = (r, o1) /\ retryable r = false)
    \/ (exists r1 o1 o2, obs = [o1; o2] /\ attempt valid c presigned url dec1 sc1 = (r1, o1) /\ retryable r1 = true
                         /\ attempt valid c presigned url dec2 sc2 = (r, o2)).
Proof. exact fetch_url_attempts. Qed.
Print Assumptions C31_at_most_two_attempts.

(* 9. redact_url, for ALL strings (and any str.lower / any outcome of urlsplit's raise-only netloc checks): the output is
      "<invalid-url>", or the cleaned input decomposes as  scheme ":" "//" ui hostport path rest  where hostport is what
      follows the last '@' of the netloc (so ui is the userinfo with its '@', or empty), ui ++ hostport contains no
      '/', '?', '#', path contains no '?' or '#', rest is empty or starts at the first '?' or '#' (query and fragment) -
      and the output is `render` of (lowered scheme, hostport, path without ;params) ONLY: no part of the userinfo,
      of the query or of the fragment enters it. *)
Theorem C31_redacted_has_no_userinfo_query_fragment :
  forall netloc_ok lower uses_params s,
    redact_url netloc_ok lower uses_params s = invalid_text
    \/ exists sch ui hp pth rest,
         clean s = sch ++ [58; 47; 47]%N ++ ui ++ hp ++ pth ++ rest
         /\ ~ In 64%N hp
         /\ Forall (fun ch => is_delim ch = false) (ui ++ hp)
         /\ Forall (fun ch => ch <> 63 /\ ch <> 35)%N pth
         /\ (rest = [] \/ exists d r, rest = d :: r /\ (d = 63 \/ d = 35)%N)
         /\ redact_url netloc_ok lower uses_params s = render lower (lower sch) hp (strip_params (lower sch) pth uses_params).
Proof. exact redact_url_factors. Qed.
Print Assumptions C31_redacted_has_no_userinfo_query_fragment.

(* ---- non-vacuity ---- *)
(* a redirect chain of 2 with max_redirects = 2 is followed, 3 redirects are refused *)
Definition ex_redirect (u : N) : resp := mkResp NoFault 302 (LUrl u) CAbsent ARAbsent 0 None [] false.
Definition ex_ok (units : list (list N)) : resp := mkResp NoFault 200 LNone CAbsent ARAbsent 0 None units false.
Example C31_redirects_ex :
  follow (fun _ => true) 2%N 0%N 1%N [ex_redirect 2; ex_redirect 3; ex_ok []] = FOk (ex_ok []) [1; 2; 3]%N
  /\ follow (fun _ => true) 2%N 0%N 1%N [ex_redirect 2; ex_redirect 3; ex_redirect 4; ex_ok []] = FErr ERedirLimit [1; 2; 3]%N
  /\ follow (fun u => negb (u =? 3)%N) 2%N 0%N 1%N [ex_redirect 2; ex_redirect 3; ex_ok []] = FErr (ERejected 3) [1; 2]%N.
Proof. vm_compute. repeat split; reflexivity. Qed.
Example C31_ranges_ex : compute_ranges 110 50 = [(0, 49); (50, 99); (100, 109)].
Proof. vm_compute; reflexivity. Qed.
(* a range response that delivers 3 bytes for a 2-byte range is cut off after min(2, cap) + 1 = 3 bytes *)
Example C31_range_read_ex : read_range 2 100 0 [] [[7; 8; 9; 10; 11]%N] false = (RErr ERangeMismatch, 3).
Proof. vm_compute; reflexivity. Qed.
(* "https://u:p@h/a?x#f" -> "https://h/a" *)
Example C31_redact_ex :
  redact_url (fun _ => true) (fun x => x) (fun _ => true)
    [104;116;116;112;115;58;47;47;117;58;112;64;104;47;97;63;120;35;102]%N
  = [104;116;116;112;115;58;47;47;104;47;97]%N.
Proof. vm_compute; reflexivity. Qed.
