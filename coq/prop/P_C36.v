(* C36: the token-introspection endpoint enforces its guards.
   Statements only; every proof is in proof/L_TokIntrospect.v.

   Vocabulary (model/M_TokIntrospect.v, proof/L_TokIntrospect.v):
     env                 caller identity, configured allowlist, request body, resolver (any function
                         str -> routcome), and whether the rate limiter admits the request
     worker P0 true E    the route of a worker configured with a resolver;  worker P0 false E  without
     introspector E      authenticated, named, and named in the allowlist
     subject b t         body b carries the well-formed subject credential t (size limits, JSON object,
                         "token" a non-empty str of at most 4096 code points that is encodable as UTF-8)
     jws_shaped t        three dot-separated base64url segments, the first two non-empty
     jws_refused t       jws_shaped t, or jws_shaped t' with t = t' ++ "\n"  (what the regex matches)
     R403 R404 R_disabled resp_503 resp_500 resp_identity   closed response values (status, headers, body)
   The rate limiter's 429 is outside the statement (DESIGN Appendix E): the table theorems carry
   [e_limiter_allows E = true]; the safety theorems (resolver calls, ttl, non-interference) do not. *)
From Coq Require Import List NArith ZArith Bool.
From VGI Require Import Regex M_TokIntrospect L_TokIntrospect.
Import ListNotations.
Open Scope N_scope.

(* ---- 403 to every caller outside the allowlist, and to nobody else ---- *)
Theorem C36_forbidden_403 : forall E,
  ~ introspector E ->
  r_resp (worker P0 true E) = R403 /\ r_calls (worker P0 true E) = [].
Proof. exact forbidden_403. Qed.
Print Assumptions C36_forbidden_403.

Theorem C36_403_iff_outside_allowlist : forall E,
  status (r_resp (worker P0 true E)) = 403 <-> ~ introspector E.
Proof. exact status_403_iff. Qed.
Print Assumptions C36_403_iff_outside_allowlist.

(* ---- malformed, JWS-shaped and unknown subjects: one and the same response ---- *)
Theorem C36_404_byte_identical : forall E1 E2,
  introspector E1 -> e_limiter_allows E1 = true -> unresolved_class E1 ->
  introspector E2 -> e_limiter_allows E2 = true -> unresolved_class E2 ->
  r_resp (worker P0 true E1) = R404 /\ r_resp (worker P0 true E2) = r_resp (worker P0 true E1).
Proof. exact unresolved_byte_identical. Qed.
Print Assumptions C36_404_byte_identical.

(* the bytes: 404, Content-Type json, Cache-Control no-store, {"error":"unresolved"} *)
Example C36_R404_value :
  R404 = {| status := 404; headers := [HJson; HNoStore];
            rbody_of := BRaw [123;34;101;114;114;111;114;34;58;34;117;110;114;101;115;111;108;118;101;100;34;125] |}.
Proof. reflexivity. Qed.

(* ---- a malformed or JWS-shaped subject is refused without consulting the resolver ---- *)
Theorem C36_malformed_and_jws_skip_resolver : forall E,
  introspector E -> e_limiter_allows E = true ->
  ((forall t, ~ subject (e_body E) t) \/ exists t, subject (e_body E) t /\ jws_refused t) ->
  r_calls (worker P0 true E) = [].
Proof. exact no_call_without_subject. Qed.
Print Assumptions C36_malformed_and_jws_skip_resolver.

(* ---- for ALL inputs (any caller, limiter state, body, resolver): whatever reaches the resolver
        is the one well-formed subject of an admitted introspector, and it is not JWS-shaped ---- *)
Theorem C36_jws_never_reaches_resolver : forall E t,
  In t (r_calls (worker P0 true E)) -> ~ jws_shaped t /\ ~ jws_refused t.
Proof. exact jws_never_called. Qed.
Print Assumptions C36_jws_never_reaches_resolver.

Theorem C36_resolver_only_for_admitted_subject : forall E t,
  In t (r_calls (worker P0 true E)) ->
  r_calls (worker P0 true E) = [t] /\ introspector E /\ e_limiter_allows E = true /\
  subject (e_body E) t /\ ~ jws_refused t.
Proof. exact calls_spec. Qed.
Print Assumptions C36_resolver_only_for_admitted_subject.

(* ---- a well-formed, not JWS-shaped subject: the resolver is asked once and decides ---- *)
Theorem C36_resolver_table : forall E t,
  introspector E -> e_limiter_allows E = true -> subject (e_body E) t -> ~ jws_refused t ->
  r_calls (worker P0 true E) = [t] /\
  r_resp (worker P0 true E) =
    match e_resolver E t with
    | RNone => R404
    | RUnavailable msg ra => resp_503 msg ra
    | RRaise => resp_500
    | RIdentity p n ttl => if usable_ttl ttl then resp_identity p n ttl else resp_500
    end.
Proof. exact resolved_table. Qed.
Print Assumptions C36_resolver_table.

(* 503 with Retry-After when the resolver reports unavailability *)
Theorem C36_unavailable_503_retry_after : forall E t msg ra,
  introspector E -> e_limiter_allows E = true -> subject (e_body E) t -> ~ jws_refused t ->
  e_resolver E t = RUnavailable msg ra ->
  status (r_resp (worker P0 true E)) = 503 /\ In (HRetryAfter ra) (headers (r_resp (worker P0 true E))).
Proof. exact unavailable_503. Qed.
Print Assumptions C36_unavailable_503_retry_after.

(* otherwise exactly principal, token_name and ttl_seconds -- provided the ttl is a finite positive number;
   an identity whose ttl is not is answered as a server fault, never as an identity *)
Theorem C36_identity_exact : forall E t p n ttl,
  introspector E -> e_limiter_allows E = true -> subject (e_body E) t -> ~ jws_refused t ->
  e_resolver E t = RIdentity p n ttl ->
  (ttl_finite_positive ttl ->
     r_resp (worker P0 true E) =
       {| status := 200; headers := [HJson; HNoStore];
          rbody_of := BObject [(s_principal, JStr p); (s_token_name, JStr n); (s_ttl_seconds, JTtl ttl)] |}) /\
  (~ ttl_finite_positive ttl -> r_resp (worker P0 true E) = resp_500).
Proof. exact identity_exact. Qed.
Print Assumptions C36_identity_exact.

(* ---- for ALL inputs: a response that asserts an identity is exactly the three fields, status 200,
        the resolver's answer for the subject of the body, and its ttl is a finite positive number ---- *)
Theorem C36_ttl_finite_positive : forall E fields,
  rbody_of (r_resp (worker P0 true E)) = BObject fields ->
  exists t p n ttl, e_resolver E t = RIdentity p n ttl /\ subject (e_body E) t /\
    fields = [(s_principal, JStr p); (s_token_name, JStr n); (s_ttl_seconds, JTtl ttl)] /\
    status (r_resp (worker P0 true E)) = 200 /\ ttl_finite_positive ttl.
Proof. exact identity_body_spec. Qed.
Print Assumptions C36_ttl_finite_positive.

(* ---- for ALL inputs: the subject credential does not flow into the response or the log.
        Two tokens the endpoint cannot tell apart by (empty?, over-long?, encodable?, JWS-shaped?) and on
        which the resolver answers the same produce the same response and the same log records. ---- *)
Theorem C36_token_absent_from_responses : forall E t1 t2,
  tok_class t1 = tok_class t2 ->
  e_resolver E t1 = e_resolver E t2 ->
  r_resp (worker P0 true (with_token E t1)) = r_resp (worker P0 true (with_token E t2)) /\
  r_log (worker P0 true (with_token E t1)) = r_log (worker P0 true (with_token E t2)).
Proof. exact noninterference. Qed.
Print Assumptions C36_token_absent_from_responses.

(* ---- a worker without introspection: one definitive 404 whatever the request ---- *)
Theorem C36_disabled_definitive_404 : forall E,
  worker P0 false E = mk R_disabled [] [] /\ status R_disabled = 404.
Proof. exact disabled_definitive. Qed.
Print Assumptions C36_disabled_definitive_404.

Example C36_R_disabled_value :
  R_disabled = {| status := 404; headers := [HJson; HNoStore];
                  rbody_of := BRaw [123;34;101;114;114;111;114;34;58;34;110;111;116;95;101;110;97;98;108;101;100;34;125] |}.
Proof. reflexivity. Qed.

(* ---- non-vacuity ---- *)
Definition ex_caller : caller := {| c_authenticated := true; c_principal := Some [112] |}.          (* "p" *)
Definition ex_body (t : str) : body :=
  {| b_content_length := Some 20; b_read_len := 20; b_shape := JObjToken t |}.
Definition ex_env (t : str) (o : routcome) : env :=
  {| e_allow := [[112]]; e_resolver := fun _ => o; e_limiter_allows := true;
     e_caller := ex_caller; e_body := ex_body t |}.

Example ex_introspector : forall t o, introspector (ex_env t o).
Proof. intros t o. split; [reflexivity |]. split; [left; reflexivity | discriminate]. Qed.
Example ex_subject : subject (ex_body [97;98;99]) [97;98;99].                                      (* "abc" *)
Proof.
  split; [intros l H; inversion H; subst; discriminate |]. split; [discriminate |].
  split; [reflexivity |]. split; [discriminate |]. split; [discriminate |].
  repeat constructor.
Qed.
Example ex_not_jws : ~ jws_refused [97;98;99].
Proof. intros H. apply jws_match_iff in H. vm_compute in H. discriminate H. Qed.
(* "a.b.c" is JWS-shaped, and so refused; "a.b.c\n" is refused too; "a.b" is not *)
Example ex_jws : jws_shaped [97;46;98;46;99].
Proof.
  exists [97], [98], [99]. split; [reflexivity |]. split; [discriminate |]. split; [discriminate |].
  repeat split; repeat constructor.
Qed.
Example ex_jws_run : worker P0 true (ex_env [97;46;98;46;99] (RIdentity [120] [] (TInt 300))) =
                     mk R404 [LogEv 4 true [[112]]] [].
Proof. vm_compute; reflexivity. Qed.
Example ex_jws_nl_run : r_calls (worker P0 true (ex_env [97;46;98;46;99;10] (RIdentity [120] [] (TInt 300)))) = [].
Proof. vm_compute; reflexivity. Qed.
Example ex_identity_run :
  r_resp (worker P0 true (ex_env [97;98;99] (RIdentity [120] [121] (TInt 300)))) = resp_identity [120] [121] (TInt 300).
Proof. vm_compute; reflexivity. Qed.
Example ex_nan_run : r_resp (worker P0 true (ex_env [97;98;99] (RIdentity [120] [121] TNaN))) = resp_500.
Proof. vm_compute; reflexivity. Qed.
Example ex_unavailable_run :
  r_resp (worker P0 true (ex_env [97;98;99] (RUnavailable [100] 7%Z))) = resp_503 [100] 7%Z.
Proof. vm_compute; reflexivity. Qed.
Example ex_unknown_class : unresolved_class (ex_env [97;98;99] RNone).
Proof. apply (UUnknown _ [97;98;99]); [exact ex_subject | exact ex_not_jws | reflexivity]. Qed.
Example ex_malformed_class : unresolved_class
  {| e_allow := [[112]]; e_resolver := fun _ => RNone; e_limiter_allows := true; e_caller := ex_caller;
     e_body := {| b_content_length := Some 1; b_read_len := 1; b_shape := JInvalid |} |}.
Proof. apply UMalformed. intros t (_ & _ & H & _). discriminate H. Qed.
Example ex_forbidden : ~ introspector
  {| e_allow := [[112]]; e_resolver := fun _ => RNone; e_limiter_allows := true;
     e_caller := {| c_authenticated := true; c_principal := Some [113] |}; e_body := ex_body [97] |}.
Proof. intros (_ & [H | []] & _). discriminate H. Qed.
(* two different tokens of the same class *)
Example ex_same_class : tok_class [97;98;99] = tok_class [120;121;122;122].
Proof. vm_compute; reflexivity. Qed.
