(* C34: access logs record every call exactly once, schema-valid.  Statements only; proofs in proof/L_AccessLog*.v.

   Vocabulary (model/M_AccessLog.v): a [request] is one dispatch as the server sees it (unary call, __describe__,
   a whole socket-family stream call, an HTTP /init, continuation or exchange turn, a cancel, or a request refused
   before dispatch); [run_history fresh c h] = per request of the history h the emissions the server makes;
   [emit_record c E e] = the record of an emission, [format (shp c) f] = the form VgiAccessLogFormatter gave it
   (f ranges over full / request_data shed / sentinel); [outcome c q] = what the client gets for the request
   (None = its result, Some x = error x with class xcls x and message xmsg x = str(exc));
   [validate model_schema] = JSON-Schema validation against access_log.schema.json (tie/T_AccessLog.v: regenerated).
   All theorems are about the repaired source shape [fixed_shape] (tie: gen_shape = fixed_shape); what the
   unrepaired shape does is in refuted/R_C34.v. *)
From Coq Require Import List NArith ZArith Bool String.
From VGI Require Import Regex M_Wire M_AccessLog L_AccessLog L_AccessLogThm L_AccessLogHist L_AccessLogAll L_AccessLogTs.
Import ListNotations.

(* exactly one record per dispatched request: for every history, on every transport, the k-th request yields one
   record iff it was dispatched (not answered before dispatch) and, for a continuation, names a stream the server
   opened earlier -- no record otherwise, never two *)
Theorem C34_one_record_per_dispatch : forall (fresh : nat -> str) c h k q,
  nth_error h k = Some q ->
  exists ems, nth_error (run_history fresh c h) k = Some ems /\
    List.length ems = (if dispatched c q && resolves fresh c (firstn k h) q then 1 else 0)%nat.
Proof. exact history_one_record. Qed.
Print Assumptions C34_one_record_per_dispatch.

(* every record of every history validates against the schema, in every form the formatter may choose, for every
   environment whose pass-through values (timestamp, server identity, duration, base64 payload, counters) and
   drawn stream ids satisfy the schema property of their own field *)
Theorem C34_schema_valid : forall (fresh : nat -> str) c,
  (forall n, fresh n <> [] /\ field_ok P (s "stream_id", JStr (fresh n)) = true) ->
  forall E h k ems e f,
  shp c = fixed_shape -> env_ok E = true ->
  nth_error (run_history fresh c h) k = Some ems -> In e ems ->
  validate model_schema (format (shp c) f (emit_record c E e)) = true.
Proof. exact history_schema_valid. Qed.
Print Assumptions C34_schema_valid.

(* status and error_type of the record are the outcome the client gets: ok / "" for a result, error / the exception
   class for an error -- every request kind, both transport families, every formatter form *)
Theorem C34_status_matches_client : forall c E q sid f e,
  shp c = fixed_shape -> In e (emissions c q sid) ->
  let r := format (shp c) f (emit_record c E e) in
  match outcome c q with
  | None => rec_status r = Some (s "ok") /\ rec_str (s "error_type") r = Some []
  | Some x => rec_status r = Some (s "error") /\ rec_str (s "error_type") r = Some (xcls x)
  end.
Proof. exact status_matches_client. Qed.
Print Assumptions C34_status_matches_client.

(* error_message is the full server-side message, whatever its length and content, in every form *)
Theorem C34_full_message : forall c E q sid f e x,
  shp c = fixed_shape -> In e (emissions c q sid) -> outcome c q = Some x -> xmsg x <> [] ->
  rec_str (s "error_message") (format (shp c) f (emit_record c E e)) = Some (xmsg x).
Proof. exact full_message. Qed.
Print Assumptions C34_full_message.

(* ... and it is present and non-empty on every error record, also when str(exc) is empty *)
Theorem C34_error_message_nonempty : forall c E q sid f e x,
  shp c = fixed_shape -> In e (emissions c q sid) -> outcome c q = Some x ->
  exists m, rec_str (s "error_message") (format (shp c) f (emit_record c E e)) = Some m /\ m <> [].
Proof. exact error_message_nonempty. Qed.
Print Assumptions C34_error_message_nonempty.

(* all records of one stream share one stream_id: the record of the request that opened the stream (index a) and
   the record of every continuation / exchange turn / cancel that refers to it (index t) carry the same id, in the
   emission and in the formatted record (every form keeps it) *)
Theorem C34_stream_id_shared : forall (fresh : nat -> str) c E h a t qa qt emsa emst ea et f g,
  shp c = fixed_shape ->
  nth_error h a = Some qa -> mints c qa = true -> nth_error h t = Some qt -> ref_of qt = Some a ->
  nth_error (run_history fresh c h) a = Some emsa -> In ea emsa ->
  nth_error (run_history fresh c h) t = Some emst -> In et emst ->
  e_sid et = e_sid ea /\
  (e_sid ea <> [] ->
   rec_str (s "stream_id") (format (shp c) f (emit_record c E ea)) = Some (e_sid ea) /\
   rec_str (s "stream_id") (format (shp c) g (emit_record c E et)) = Some (e_sid ea)).
Proof. exact stream_id_shared. Qed.
Print Assumptions C34_stream_id_shared.

(* different streams never share an id (ids are drawn without repetition) *)
Theorem C34_stream_id_distinct : forall (fresh : nat -> str) c,
  (forall x y, fresh x = fresh y -> x = y) ->
  forall h a b qa qb emsa emsb ea eb, a <> b ->
  nth_error h a = Some qa -> mints c qa = true -> nth_error h b = Some qb -> mints c qb = true ->
  nth_error (run_history fresh c h) a = Some emsa -> In ea emsa ->
  nth_error (run_history fresh c h) b = Some emsb -> In eb emsb ->
  e_sid ea <> e_sid eb.
Proof. exact stream_id_distinct. Qed.
Print Assumptions C34_stream_id_distinct.

(* the timestamp of every record, at every instant: whatever date-time digits strftime yields and whatever the
   sub-second part (0 .. 999999 microseconds), the rendered value dddd-dd-ddTdd:dd:dd.dddZ passes the schema's
   timestamp property -- this discharges the timestamp conjunct of [env_ok] for records the formatter stamps *)
Theorem C34_timestamp_valid : forall y1 y2 y3 y4 m1 m2 d1 d2 h1 h2 i1 i2 s1 s2 micro,
  Forall is_dig [y1; y2; y3; y4; m1; m2; d1; d2; h1; h2; i1; i2; s1; s2] -> (micro < 1000000)%N ->
  field_ok P (s "timestamp", JStr (render_ts [y1; y2; y3; y4; 45; m1; m2; 45; d1; d2; 84; h1; h2; 58; i1; i2; 58; s1; s2]%N micro)) = true.
Proof. exact ts_valid. Qed.
Print Assumptions C34_timestamp_valid.

(* ---- non-vacuity ------------------------------------------------------------------------------------------- *)
Definition ex_env : env :=
  {| server_id := s "a1b2c3d4e5f6"; protocol := s "Interp";
     protocol_hash := s "0123456789abcdef0123456789abcdef0123456789abcdef0123456789abcdef";
     principal := []; auth_domain := []; authenticated := false; remote_addr := s "127.0.0.1:5000";
     timestamp := s "2026-04-26T15:30:45.123Z"; duration := 123; server_version := s "1.0"; request_id := s "r1";
     request_b64 := s "QUJDRA=="; st_ib := 1; st_ob := 2; st_ir := 3; st_or := 4; st_iy := 5; st_oy := 6 |}.
Example C34_env_ok_ex : env_ok ex_env = true.
Proof. vm_compute; reflexivity. Qed.
Example C34_sid_ok_ex : field_ok P (s "stream_id", JStr (s "0123456789abcdef0123456789abcdef")) = true.
Proof. vm_compute; reflexivity. Qed.
Example C34_sid_bad_ex : field_ok P (s "stream_id", JStr (s "0123456789ABCDEF0123456789abcdef")) = false.
Proof. vm_compute; reflexivity. Qed.
(* a history: unary call raising ValueError(""), a producer stream whose 2nd step fails, its continuation, a cancel *)
Definition ex_fail : exn := {| cls := s "ValueError"; emsg := []; kind := None |}.
Definition ex_step_ok : step := {| slogs := []; emit := Some {| rows := 1; tag := 0; meta := [] |}; fin := false; sraise := None |}.
Definition ex_step_bad : step := {| slogs := []; emit := None; fin := false; sraise := Some {| cls := s "RuntimeError"; emsg := s "boom"; kind := None |} |}.
Definition ex_sp : stream_prog := {| ilogs := []; ires := InitOk; hdr := None; steps := [ex_step_ok; ex_step_bad] |}.
Definition ex_hist : list request :=
  [ QUnary {| ulogs := []; ures_of := URaise ex_fail |} None; QInit true false ex_sp [0%nat] {| xcls := []; xmsg := [] |};
    QTurn 1 true false ex_sp [1%nat] None; QCancel 1 true false; QTurn 7 true false ex_sp [] None; QRefused ].
Definition ex_cfg : cfg := {| tr := Http; debug := true; shp := fixed_shape |}.
Example C34_history_ex :
  map (map (fun e => (e_error e, e_emsg e, e_sid e))) (run_history corr_fresh ex_cfg ex_hist)
  = [ [(true, [], [])]; [(false, [], [1%N])]; [(true, s "boom", [1%N])]; [(false, [], [1%N])]; []; [] ].
Proof. vm_compute; reflexivity. Qed.
(* the empty-message error record is valid in all three forms and carries a non-empty error_message *)
Example C34_valid_ex :
  forallb (fun f => forallb (fun ems => forallb (fun e => validate model_schema (format fixed_shape f (emit_record ex_cfg ex_env e))) ems)
                            (run_history (fun _ => s "0123456789abcdef0123456789abcdef") ex_cfg ex_hist))
          [ShedNone; ShedReq; ShedSentinel] = true.
Proof. vm_compute; reflexivity. Qed.
Example C34_nonempty_ex :
  rec_str (s "error_message") (emit_record ex_cfg ex_env (mk (s "unary") false (WRaise {| xcls := s "ValueError"; xmsg := [] |}) (fun m => m) (Some 500%Z) false true []))
  = Some (s "ValueError").
Proof. vm_compute; reflexivity. Qed.
Example C34_timestamp_ex : render_ts (s "2026-04-26T15:30:45") 999999 = s "2026-04-26T15:30:45.999Z".
Proof. vm_compute; reflexivity. Qed.
Example C34_timestamp_ex0 : render_ts (s "1970-01-01T00:00:00") 0 = s "1970-01-01T00:00:00.000Z".
Proof. vm_compute; reflexivity. Qed.
