(* C30: external-storage offload is transparent and integrity-checked.
   Statements only; every proof is in proof/L_ExtStore.v and proof/L_ExtStoreTransp.v.
   Vocabulary (L_ExtStore.v): item_ok = the item parses, carries no vgi_rpc.location and is not an EXCEPTION-level
   log; data_of / logs_of = the data batches / log messages of a parsed stream; sha_ok h v = if the pointer carries a
   digest h then the fetched bytes hash to h; resolved b url = b plus the two provenance keys.
   (L_ExtStoreTransp.v): datas = the data batches of a cycle; exc_after_data false cyc = the cycle's first
   EXCEPTION-level log comes after its data batch; equiv = same logs, same batches up to provenance, same error. *)
From Coq Require Import List NArith Bool.
From VGI Require Import Corr M_ExtStore L_ExtStore L_ExtStoreTransp.
Import ListNotations.
Open Scope N_scope.

(* ---- integrity: for ALL pointers, digests and fetch results ---- *)

(* one call of _fetch_and_resolve hands a batch to its caller IF AND ONLY IF the payload is intact in every respect
   the property names, and then it is exactly the payload's single data batch *)
Theorem C30_attempt_delivers_iff : forall sch url h f lg d,
  attempt sch url h f = (lg, ADeliver d) <->
  exists v b, f = FData v /\ sha_ok h v /\ Forall item_ok (v_items v) /\ data_of (v_items v) = [b] /\
              b_schema b = sch /\ lg = logs_of (v_items v) /\ d = resolved b url.
Proof. exact attempt_delivers_iff. Qed.
Print Assumptions C30_attempt_delivers_iff.

(* resolve_external_location (any retry budget, any storage behaviour per attempt): whatever is delivered passed
   sha_ok /\ no_nested_pointer /\ exactly_one_data_batch /\ schema_ok on the attempt that produced it *)
Theorem C30_never_hand_corrupt : forall hc mr ol p fetch lg d,
  resolve_with hc mr ol p fetch = (lg, ODeliver d) ->
  exists m url j v b,
    b_meta p = Some m /\ mget K_LOC m = Some url /\ is_pointer p = true /\
    (j < n_attempts mr)%nat /\ fetch url j = FData v /\
    sha_ok (mget K_SHA m) v /\ Forall item_ok (v_items v) /\ data_of (v_items v) = [b] /\
    b_schema b = b_schema p /\ d = resolved b url.
Proof. exact resolve_never_hand_corrupt. Qed.
Print Assumptions C30_never_hand_corrupt.

(* every corruption class ends in an error (or a retryable failure), never in a delivery; with the error per class *)
Theorem C30_corruption_is_an_error : forall sch url h v,
  ((exists x, h = Some x /\ v_sha v <> x) \/
   (exists b, In (IBatch b) (v_items v) /\ has_loc b = true) \/
   In IBad (v_items v) \/
   length (data_of (v_items v)) <> 1%nat \/
   (exists b, data_of (v_items v) = [b] /\ b_schema b <> sch) ->
   forall lg a, attempt sch url h (FData v) = (lg, a) -> a = ARetry \/ exists e, a = AErr e) /\
  (forall x, v_sha v <> x -> attempt sch url (Some x) (FData v) = ([], AErr EShaMismatch)) /\
  (sha_ok h v -> Forall item_ok (v_items v) -> data_of (v_items v) = [] ->
   attempt sch url h (FData v) = (logs_of (v_items v), AErr ENoData)) /\
  (forall b1 b2 r, sha_ok h v -> Forall item_ok (v_items v) -> data_of (v_items v) = b1 :: b2 :: r ->
   attempt sch url h (FData v) = (logs_of (v_items v), AErr EMulti)) /\
  (forall b, sha_ok h v -> Forall item_ok (v_items v) -> data_of (v_items v) = [b] -> b_schema b <> sch ->
   attempt sch url h (FData v) = (logs_of (v_items v), AErr ESchema)).
Proof.
  intros sch url h v. split; [apply attempt_corrupt_not_delivered|].
  split; [intros x Hx; apply attempt_sha_mismatch; exact Hx|].
  split; [apply attempt_no_data|]. split; [intros b1 b2 r; apply attempt_multi | intros b; apply attempt_schema].
Qed.
Print Assumptions C30_corruption_is_an_error.

(* with a hash that has no second preimage of the uploaded bytes, a pointer carrying their digest delivers the data
   batch of exactly those bytes -- or nothing -- whatever the store holds at any attempt *)
Theorem C30_digest_pins_payload :
  forall (B : Type) (sha : B -> bytes) (parse : B -> list item) (decode : option N -> B -> option B)
         (store : bytes -> nat -> option (B * option N)) (orig : B) mr ol p m lg d,
    b_meta p = Some m -> mget K_SHA m = Some (sha orig) ->
    (forall x, sha x = sha orig -> x = orig) ->
    resolve_with true mr ol p (fun u k => fetch_obj B sha parse decode (store u k)) = (lg, ODeliver d) ->
    exists url j body enc b,
      mget K_LOC m = Some url /\ store url j = Some (body, enc) /\ decode enc body = Some orig /\
      data_of (parse orig) = [b] /\ Forall item_ok (parse orig) /\ b_schema b = b_schema p /\ d = resolved b url.
Proof. exact digest_pins_payload. Qed.
Print Assumptions C30_digest_pins_payload.

(* ---- transparency: faithful store, IPC and codec round trips as hypotheses ---- *)
Section Statements.
  Variable B : Type.
  Variable sha : B -> bytes.
  Variable parse : B -> list item.
  Variable ser : N -> list batch -> B.
  Variable encode : option N -> B -> B.
  Variable decode : option N -> B -> option B.
  Hypothesis parse_ser : forall s bs, Forall (fun b => b_schema b = s) bs -> parse (ser s bs) = map IBatch bs.
  Hypothesis decode_encode : forall e x, decode e (encode e x) = Some x.

  (* unary result / stream header: any batch, any threshold, any compression *)
  Theorem C30_transparent_single : forall c url size b mr fetch,
    classify b = KData -> has_loc b = false ->
    (forall u, snd (ext_batch (sha_ser_of B sha ser) url c size b) = Some u ->
               forall k, fetch url k = fetch_obj B sha parse decode (Some (stored B ser encode u))) ->
    equiv (drain (fun x => resolve_with true mr true x fetch) [fst (ext_batch (sha_ser_of B sha ser) url c size b)])
          ([], [b], None).
  Proof. exact (transparent_single B sha parse ser encode decode parse_ser decode_encode). Qed.

  (* client-uploaded request: the server resolves the pointer to the original request batch *)
  Theorem C30_transparent_request : forall req url mr fetch,
    classify req = KData -> has_loc req = false ->
    ohas K_LEVEL (b_meta req) = false -> ohas K_SHA (b_meta req) = false ->
    (forall k, fetch url k = fetch_obj B sha parse decode (Some (stored B ser encode (snd (request_pointer req url))))) ->
    resolve_with true mr false (fst (request_pointer req url)) fetch = ([], ODeliver (resolved req url)).
  Proof. exact (transparent_request B sha parse ser encode decode parse_ser decode_encode). Qed.

  (* one OutputCollector cycle (logs + one data batch + logs), for both shapes of the source ([ser_all], regenerated):
     PARTIAL for the code as found (ser_all = true: the external object holds the whole cycle): cycles whose first
     EXCEPTION-level log follows the data batch are excluded -- see refuted/R_C30.v; unconditional when the batches
     after the data batch stay inline behind the pointer (ser_all = false) *)
  Theorem C30_transparent_cycle_partial : forall (ser_all : bool) c url s cyc dsz mr fetch,
    Forall (fun b => b_schema b = s /\ has_loc b = false) cyc ->
    (forall sz, dsz = Some sz -> exists d, datas cyc = [d]) ->
    (ser_all = true -> exc_after_data false cyc = false) ->
    (forall u, snd (ext_collector ser_all (sha_ser_of B sha ser) url c s cyc dsz) = Some u ->
               forall k, fetch url k = fetch_obj B sha parse decode (Some (stored B ser encode u))) ->
    equiv (drain (fun b => resolve_with true mr true b fetch) (fst (ext_collector ser_all (sha_ser_of B sha ser) url c s cyc dsz)))
          (drain (fun b => resolve_with true mr true b fetch) cyc).
  Proof. exact (transparent_cycle B sha parse ser encode decode parse_ser decode_encode). Qed.

  (* a whole stream: any number of cycles (cycle, data-batch size, upload URL), externalised or not cycle by cycle *)
  Theorem C30_transparent_stream_partial : forall (ser_all : bool) c s mr fetch (cycles : list (list batch * option N * bytes)),
    Forall (fun x =>
              Forall (fun b => b_schema b = s /\ has_loc b = false) (fst (fst x)) /\
              (forall sz, snd (fst x) = Some sz -> exists d, datas (fst (fst x)) = [d]) /\
              (ser_all = true -> exc_after_data false (fst (fst x)) = false) /\
              (forall u, snd (ext_collector ser_all (sha_ser_of B sha ser) (snd x) c s (fst (fst x)) (snd (fst x))) = Some u ->
                         forall k, fetch (snd x) k = fetch_obj B sha parse decode (Some (stored B ser encode u)))) cycles ->
    equiv (drain (fun b => resolve_with true mr true b fetch)
                 (flat_map (fun x => fst (ext_collector ser_all (sha_ser_of B sha ser) (snd x) c s (fst (fst x)) (snd (fst x)))) cycles))
          (drain (fun b => resolve_with true mr true b fetch) (flat_map (fun x => fst (fst x)) cycles)).
  Proof. exact (transparent_stream B sha parse ser encode decode parse_ser decode_encode). Qed.

  (* threshold "never" / no storage / zero-row batch: nothing is uploaded, the wire is the inline wire *)
  Theorem C30_below_threshold_untouched : forall (ser_all : bool) url c s cyc dsz size b,
    (c_storage c = false \/ (forall sz, dsz = Some sz -> sz < c_thr c) ->
       ext_collector ser_all (sha_ser_of B sha ser) url c s cyc dsz = (cyc, None)) /\
    (c_storage c = false \/ b_rows b = 0 \/ size < c_thr c ->
       ext_batch (sha_ser_of B sha ser) url c size b = (b, None)).
  Proof. exact (below_threshold_untouched B sha ser). Qed.
End Statements.
Print Assumptions C30_transparent_single.
Print Assumptions C30_transparent_request.
Print Assumptions C30_transparent_cycle_partial.
Print Assumptions C30_transparent_stream_partial.
Print Assumptions C30_below_threshold_untouched.

(* ---- non-vacuity: a concrete byte type satisfying the hypotheses, and concrete inputs meeting the premises ---- *)
Definition xB := (N * list batch)%type.
Definition xsha (d : xB) : bytes := fst d :: N.of_nat (length (snd d)) :: flat_map (fun b => b_rows b :: b_body b) (snd d).
Definition xparse (d : xB) : list item := map IBatch (snd d).
Definition xser (s : N) (bs : list batch) : xB := (s, bs).
Definition xenc (e : option N) (d : xB) : xB := d.
Definition xdec (e : option N) (d : xB) : option xB := Some d.
Example C30_hyps_inhabited :
  (forall s bs, Forall (fun b => b_schema b = s) bs -> xparse (xser s bs) = map IBatch bs) /\
  (forall e x, xdec e (xenc e x) = Some x).
Proof. split; reflexivity. Qed.

Definition xlog (l : bytes) (m : bytes) : batch := mkBatch 0 0 [] (Some [(K_LEVEL, l); (K_MSG, m)]).
Definition xdata : batch := mkBatch 0 3 [7; 7; 7] (Some [([97], [49])]).
Definition xcycle : list batch := [xlog [73;78;70;79] [112]; xdata; xlog [87;65;82;78] [113]].   (* INFO p, data, WARN q *)
Definition xurl : bytes := [104; 116; 116; 112].
Definition xcfg : cfg := mkCfg true 0 (Some 0).
Definition xfetch (u : bytes) (k : nat) : fetched :=
  fetch_obj xB xsha xparse xdec (Some (stored xB xser xenc (mkUpload 0 xcycle (Some 0)))).

(* the cycle is really externalised (one pointer on the wire), meets the premises, and drains to the inline result *)
Example C30_transparent_cycle_ex :
  fst (ext_collector true (sha_ser_of xB xsha xser) xurl xcfg 0 xcycle (Some 24)) =
    [pointer 0 xurl (Some (xsha (0, xcycle)))] /\
  Forall (fun b => b_schema b = 0 /\ has_loc b = false) xcycle /\ datas xcycle = [xdata] /\
  exc_after_data false xcycle = false /\
  drain (fun b => resolve_with true 2 true b xfetch) (fst (ext_collector true (sha_ser_of xB xsha xser) xurl xcfg 0 xcycle (Some 24))) =
    ([([73;78;70;79], [112]); ([87;65;82;78], [113])], [resolved xdata xurl], None) /\
  drain (fun b => resolve_with true 2 true b xfetch) xcycle =
    ([([73;78;70;79], [112]); ([87;65;82;78], [113])], [xdata], None).
Proof. repeat split; try reflexivity. repeat constructor. Qed.

(* integrity, concretely: the right digest delivers; one wrong byte in the digest, a nested pointer, two data batches,
   no data batch, another schema do not *)
Definition xview (its : list batch) : fetched := FData (mkView [1; 2; 3] (map IBatch its)).
Example C30_attempt_ex_ok : attempt 0 xurl (Some [1; 2; 3]) (xview [xdata]) = ([], ADeliver (resolved xdata xurl)).
Proof. reflexivity. Qed.
Example C30_attempt_ex_sha : attempt 0 xurl (Some [1; 2; 4]) (xview [xdata]) = ([], AErr EShaMismatch).
Proof. reflexivity. Qed.
Example C30_attempt_ex_nested : attempt 0 xurl None (xview [xdata; pointer 0 xurl None]) = ([], AErr ELoop).
Proof. reflexivity. Qed.
Example C30_attempt_ex_multi : attempt 0 xurl None (xview [xdata; xdata]) = ([], AErr EMulti).
Proof. reflexivity. Qed.
Example C30_attempt_ex_none : attempt 0 xurl None (xview [xlog [73;78;70;79] [112]]) = ([([73;78;70;79], [112])], AErr ENoData).
Proof. reflexivity. Qed.
Example C30_attempt_ex_schema : attempt 1 xurl None (xview [xdata]) = ([], AErr ESchema).
Proof. reflexivity. Qed.
