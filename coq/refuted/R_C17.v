(* C17, behaviours of the source shape WITHOUT the three repairs (identity arm, leaving the gzip loop at the
   end-of-stream marker, refusing a gzip stream that ended early), on the same model with the flags off.
   Each is replayed against the real code by props/C17.py when the tree under test has that shape. *)
From Coq Require Import List NArith Bool Lia.
From VGI Require Import M_ReqCaps L_ReqCaps L_ReqCapsExact.
Import ListNotations.
Open Scope N_scope.

Definition k_old : cfg := mk_cfg (Some 100) true false 4 false false false.
Definition k_new : cfg := mk_cfg (Some 100) true false 4 true true true.
Definition no_z : list N -> zbeh (list N) := fun _ => {| z_hdr := None; z_one := None; z_rd := dead_rd |}.
Definition rq (ce : list N) (body : list N) : request (list N) :=
  {| r_cl := Some (lenN body); r_stream := body; r_ce := Some ce |}.

(* 1. Content-Encoding: identity is answered 415 *)
Lemma C17_identity_refused_refuted : exists k zdec gdec r,
  identity_pass k = false /\ norm_ce (r_ce _ r) = tok_identity /\ o_out _ (handle_bytes k zdec gdec r) = Refuse 415.
Proof. exists k_old, no_z, (fun _ => dead_rd), (rq [105;100;101;110;116;105;116;121] [1;2;3]). vm_compute. repeat split; reflexivity. Qed.
Example C17_identity_repaired :
  o_out _ (handle_bytes k_new no_z (fun _ => dead_rd) (rq [105;100;101;110;116;105;116;121] [1;2;3])) = Deliver [1;2;3].
Proof. vm_compute. reflexivity. Qed.

(* 2. a gzip stream that ends before its end-of-stream marker: the decoded prefix is handed to the RPC layer *)
Definition trunc_rd : reader (list N) :=   (* yields the 3 bytes it could decode, no input left, flush empty, eof never reached *)
  Rd (Some []) false false None None false (fun _ => SChunk [7;8;9] false (Rd (Some []) false false None None false (fun _ => SRaise))).
Lemma C17_truncated_gzip_refuted : exists k zdec gdec r,
  gzip_eof_check k = false /\ rd_fl_eof _ (gdec (r_stream _ r)) = false /\
  o_out _ (handle_bytes k zdec gdec r) = Deliver [7;8;9].
Proof. exists k_old, no_z, (fun _ => trunc_rd), (rq [103;122;105;112] [31;139]). vm_compute. repeat split; reflexivity. Qed.
Example C17_truncated_gzip_repaired :
  o_out _ (handle_bytes k_new no_z (fun _ => trunc_rd) (rq [103;122;105;112] [31;139])) = Refuse 400.
Proof. vm_compute. reflexivity. Qed.

(* 3. trailing bytes after the gzip member: past the end-of-stream marker zlib answers (b"", unconsumed_tail
   non-empty) for ever.  On a decoder that does so n times the unrepaired loop calls it n+1 times -- for every n,
   so on the real (unbounded) behaviour it never returns; the repaired loop leaves after the first call. *)
Fixpoint stuck (n : nat) : reader (list N) :=
  match n with
  | O => Rd (Some []) true true None None false (fun _ => SRaise)
  | S m => Rd (Some []) true true None None false (fun _ => SChunk [] true (stuck m))
  end.
Definition gz_calls (l : list call) : nat := length (filter (fun c => match c with CGz _ => true | _ => false end) l).

Lemma gz_calls_app : forall a b, gz_calls (a ++ b) = (gz_calls a + gz_calls b)%nat.
Proof. intros a b. unfold gz_calls. rewrite filter_app, app_length. reflexivity. Qed.

Lemma C17_gzip_trailing_spins_refuted : forall n total acc log,
  gz_calls (d_log _ (gloop (list N) lenN (@app N) k_old 100 (stuck n) total acc log)) = (gz_calls log + n + 1)%nat.
Proof.
  induction n as [| n IH]; intros total acc log.
  - cbn [stuck gloop d_log]. rewrite gz_calls_app. cbn. lia.
  - cbn [stuck gloop]. change (lenN [] =? 0) with true. cbn [negb andb].
    change (gzip_eof_break k_old) with false. cbn [andb app].
    rewrite IH, gz_calls_app. cbn. lia.
Qed.
Example C17_gzip_trailing_repaired :
  gz_calls (d_log _ (gloop (list N) lenN (@app N) k_new 100 (stuck 50) 0 [] [])) = 1%nat.
Proof. vm_compute. reflexivity. Qed.

(* 4. (not repaired: python-zstandard's stream reader gives no end-of-frame signal) a zstd frame of undeclared size
   that ends early: reader.read() returns the decodable prefix and then b"", exactly like a complete frame, so the
   prefix is handed to the RPC layer -- also under the repaired source shape *)
Definition ztrunc : list N -> zbeh (list N) := fun _ =>
  {| z_hdr := Some None; z_one := None;
     z_rd := Rd None false false None None false
               (fun _ => SChunk [7;8;9] false (Rd None false false None None false (fun _ => SChunk [] false dead_rd))) |}.
Lemma C17_truncated_zstd_stream_refuted : exists k zdec gdec r,
  identity_pass k = true /\ gzip_eof_break k = true /\ gzip_eof_check k = true /\
  o_out _ (handle_bytes k zdec gdec r) = Deliver [7;8;9].
Proof. exists k_new, ztrunc, (fun _ => dead_rd), (rq [122;115;116;100] [40;181;47;253]). vm_compute. repeat split; reflexivity. Qed.
