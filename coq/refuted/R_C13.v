(* C13 REFUTED on the faithful model: behaviours of the unchanged code that contradict
       accepted_at m tok -> minted_by_method m tok.
   Neither token carries the method name (AAD = version prefix + identity; plaintext = created_at, call_id, state bytes /
   call state, schemas, stream id), and the exchange endpoint uses the URL's method only to pick the state class(es)
   the payload is deserialized into; deserialization accepts any payload that has the class's required COLUMN NAMES.
   props/C13.py replays the first witness on the real Falcon app on every run. *)
From Coq Require Import List NArith Bool.
From VGI Require Import Corr M_TokMethod L_TokMethod.
Import ListNotations.
Open Scope N_scope.

(* witness 1: two exchange methods with two DIFFERENT state classes that share a required field name (n : int);
   warm cache: the stream started by /m0/init is continued by /m1/exchange with S1(n = 3) *)
Definition w_S0 : cls := {| c_id := 0; c_fields := [{| f_name := 0; f_kind := KScalar; f_default := None |}]; c_callty := None |}.
Definition w_S1 : cls := {| c_id := 1; c_fields := [{| f_name := 0; f_kind := KScalar; f_default := None |}]; c_callty := None |}.
Definition w_svc : service := [{| m_name := 0; m_info := Single w_S0 |}; {| m_name := 1; m_info := Single w_S1 |}].
Definition w_ca : call := {| ca_ident := 0; ca_callid := 1; ca_cstate := None; ca_out := 0; ca_in := 10; ca_sid := 1 |}.
Definition w_sb : sbytes := {| sb_tag := None; sb_enc := Arrow; sb_cols := [(0, VInt 3)] |}.
Definition w_cu : cursor := {| cu_ident := 0; cu_callid := 1; cu_state := w_sb |}.
Definition w_W : world := {| w_inits := [(0, w_ca)]; w_cursors := [w_cu]; w_cache := [(1, 0, resolved_of w_ca)] |}.

Lemma w_reachable : reachable false w_svc w_W.
Proof.
  apply (RS false w_svc empty_world); [constructor|].
  apply (StInit false w_svc empty_world {| m_name := 0; m_info := Single w_S0 |} w_ca
                {| st_cls := w_S0; st_vals := [(0, VInt 3)] |} Arrow w_sb true); try reflexivity.
  - left; reflexivity.
  - intros H; exact H.
Qed.

Theorem C13_method_bound_refuted :
  exists mp svc W mname ident cu ca,
    reachable mp svc W /\ In cu (w_cursors W) /\ presentable W ca /\
    accept mp svc (w_cache W) mname ident cu ca = Accepted false 1 [(0, VInt 3)] (resolved_of w_ca) /\
    ~ minted_by W mname cu.
Proof.
  exists false, w_svc, w_W, 1, 0, w_cu, (Some w_ca).
  split; [exact w_reachable|]. split; [left; reflexivity|]. split; [exists 0; left; reflexivity|].
  split; [vm_compute; reflexivity|].
  intros [ca0 [Hin _]]. cbn in Hin. destruct Hin as [Heq|[]]. inversion Heq.
Qed.
Print Assumptions C13_method_bound_refuted.

(* witness 2 (the classic one): a producer and an exchange method sharing ONE state class, cold worker (empty cache),
   compact codec: the call token of the foreign stream is opened and accepted because it carries no call state *)
Definition v_svc : service := [{| m_name := 0; m_info := Single w_S0 |}; {| m_name := 1; m_info := Single w_S0 |}].
Definition v_sb : sbytes := {| sb_tag := None; sb_enc := Compact; sb_cols := [(0, VInt 3)] |}.
Definition v_cu : cursor := {| cu_ident := 0; cu_callid := 1; cu_state := v_sb |}.
Definition v_W : world := {| w_inits := [(0, w_ca)]; w_cursors := [v_cu]; w_cache := [] |}.

Theorem C13_method_bound_refuted_same_class :
  reachable true v_svc v_W /\
  accept true v_svc (w_cache v_W) 1 0 v_cu (Some w_ca) = Accepted true 0 [(0, VInt 3)] (resolved_of w_ca) /\
  ~ minted_by v_W 1 v_cu.
Proof.
  split; [|split].
  - apply (RS true v_svc empty_world); [constructor|].
    apply (StInit true v_svc empty_world {| m_name := 0; m_info := Single w_S0 |} w_ca
                  {| st_cls := w_S0; st_vals := [(0, VInt 3)] |} Compact v_sb false); try reflexivity.
    + left; reflexivity.
    + intros H; exact H.
  - vm_compute; reflexivity.
  - intros [ca0 [Hin _]]. cbn in Hin. destruct Hin as [Heq|[]]. inversion Heq.
Qed.
Print Assumptions C13_method_bound_refuted_same_class.
