(* C16: behaviours of the logical-size prediction (pmode = PLogical: what predict_externalize_bytes_for_* return in the
   unrepaired source) that contradict the property text.  Witness sizes are the ones measured on the real app. *)
From Coq Require Import List NArith Bool.
From VGI Require Import M_RespCaps L_RespCaps.
Import ListNotations.
Open Scope N_scope.

(* "an overshoot is refused before upload" fails on unary / exchange: logical 5008 <= cap 5008 < uploaded 5296:
   the pre-flight lets it through, 5296 bytes reach storage, then the post-flush check refuses *)
Lemma C16_refused_before_upload_refuted : exists p c base f m,
  pmode c = PLogical /\ ext_cap c = Some m /\ m < sumN (flush_ups p c f)
  /\ run_ue p c false base f = UEErrPost false [f_up f] /\ m < uploaded (run_ue p c false base f).
Proof.
  exists Unary, (mkCfg None (Some 5008) true 0 PLogical), 128, (mkFlush true false 5008 5296 5168 376), 5008.
  vm_compute. repeat split; reflexivity.
Qed.

(* "a producer turn never exceeds the external cap" fails: one tick, logical 5008 <= cap 5008, the turn finishes
   successfully having uploaded 5632 bytes (schema + log batch + data batch + EOS) *)
Lemma C16_producer_external_refuted : exists c pre steps m,
  pmode c = PLogical /\ ext_cap c = Some m /\ t_end (prod_turn c pre steps) = PDone
  /\ m < sumN (t_ups (prod_turn c pre steps)).
Proof.
  exists (mkCfg None (Some 5008) true 0 PLogical), 120, [mkStep false (mkFlush true false 5008 5632 5504 376) true], 5008.
  vm_compute. repeat split; reflexivity.
Qed.

(* ... and cumulatively: earlier uploads are counted by their real size, the next one is predicted by its logical size *)
Lemma C16_producer_external_cumulative_refuted : exists c pre steps m,
  pmode c = PLogical /\ ext_cap c = Some m /\ t_end (prod_turn c pre steps) = PCont
  /\ m < sumN (t_ups (prod_turn c pre steps)).
Proof.
  exists (mkCfg (Some 600) (Some 1244) true 0 PLogical), 120,
         [mkStep false (mkFlush true false 308 936 472 376) false; mkStep false (mkFlush true false 308 936 472 376) false;
          mkStep false (mkFlush true false 308 936 472 376) false], 1244.
  vm_compute. repeat split; reflexivity.
Qed.

(* the side condition of C16_producer_external_partial_logical_prediction is needed: a batch of logical size 0
   (threshold 0) is never refused (`if predicted and ...`), so the overshoot is not bounded by one framing gap *)
Lemma C16_producer_zero_logical_unbounded_refuted : exists c pre steps m,
  pmode c = PLogical /\ ext_cap c = Some m /\ m + maxgap steps < sumN (t_ups (prod_turn c pre steps)).
Proof.
  exists (mkCfg (Some 100000) (Some 0) true 0 PLogical), 120,
         [mkStep false (mkFlush true true 0 656 200 376) false; mkStep false (mkFlush true true 0 656 200 376) false;
          mkStep false (mkFlush true true 0 656 200 376) false], 0.
  vm_compute. repeat split; reflexivity.
Qed.
