(* C29: behaviours of the code AS FOUND (source-shape flag false) that contradict "every region a peer allocated is
   freed once the receiving side has consumed it".  Each witness is replayed against the real transport by
   props/C29.py (targeted scenarios exchange-bad-first, exchange-exclog / producer-exclog, unary-exclog). *)
From Coq Require Import List NArith ZArith Bool.
From VGI Require Import M_Alloc M_ShmXfer L_ShmXferLeak.
Import ListNotations.
Open Scope N_scope.

Definition r_b (id n : N) : batch := mk_batch id n n false (n + 144) (n + 144) [n + 280].
Definition r_conf : conf := mk_conf true 1048576 1000.

(* _serve_stream without the guard around _coerce_input_batch: the first exchange input travels through shm, the
   server resolves it, refuses its schema, and the release function is lost -- the region stays allocated for ever *)
Lemma C29_coerce_leak_refuted :
  exists h, Forall wf_call h /\
    x_tbl (release_all r_conf (fst (run r_conf (mk_flags false true true) h))) <> [] /\
    ~ Forall (call_ok (mk_flags false true true)) h.
Proof.
  exists [CStream [mk_sstep (Some (r_b 1 5000)) true false (OEmit (r_b 2 5000)) false]].
  split; [repeat constructor |]. split; [vm_compute; discriminate |].
  intros H. inversion H as [|? ? (H1 & _) _]; subst. destruct H1 as [H1 | H1]; vm_compute in H1; discriminate H1.
Qed.
Print Assumptions C29_coerce_leak_refuted.

(* StreamSession.close()/cancel() without releasing what they drain: process() logs at EXCEPTION level and then emits
   its batch through shm; the client raises at the log batch, close() reads the pointer batch and drops it *)
Lemma C29_stream_drain_leak_refuted :
  exists h, Forall wf_call h /\
    x_tbl (release_all r_conf (fst (run r_conf (mk_flags true false true) h))) <> [] /\
    ~ Forall (call_ok (mk_flags true false true)) h.
Proof.
  exists [CStream [mk_sstep None false true (OEmit (r_b 2 5000)) false]].
  split; [repeat constructor |]. split; [vm_compute; discriminate |].
  intros H. inversion H as [|? ? (_ & H2 & _) _]; subst. destruct H2 as [H2 | H2]; vm_compute in H2; discriminate H2.
Qed.
Print Assumptions C29_stream_drain_leak_refuted.

(* _read_unary_response's RpcError arm draining without the segment: the method logs at EXCEPTION level and returns
   a result that travels through shm; the client raises at the log batch and drains the pointer batch unresolved *)
Lemma C29_unary_drain_leak_refuted :
  exists h, Forall wf_call h /\
    x_tbl (release_all r_conf (fst (run r_conf (mk_flags true true false) h))) <> [] /\
    ~ Forall (call_ok (mk_flags true true false)) h.
Proof.
  exists [CUnary None true (Some (r_b 2 5000))].
  split; [repeat constructor |]. split; [vm_compute; discriminate |].
  intros H. inversion H as [|? ? (_ & _ & H3) _]; subst. destruct H3 as [H3 | H3]; vm_compute in H3; discriminate H3.
Qed.
Print Assumptions C29_unary_drain_leak_refuted.
