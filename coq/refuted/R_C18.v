(* C18: behaviours worth recording next to the theorems.

   1. Reading adopted for the cap sentence: identity is NOT capped (nothing to inflate).  Under the
      other reading ("every codec, identity included, fails with the limit error above the cap")
      this is a counterexample; it is not reported as a violation (see props/C18.py docstring).
   2. The gzip loop as it was before the repair of its break test (k_eof_break = false): a zlib
      object that has reached its end-of-stream marker returns b"" and keeps the trailing input in
      unconsumed_tail, and the loop then never ends -- for every amount of fuel the model answers
      Diverge.  (Such inputs -- a gzip member followed by more bytes -- are outside C18's
      quantifier; reported and repaired under C17.)  With the repaired test the same oracle ends. *)
From Coq Require Import List NArith ZArith Bool Lia.
From VGI Require Import M_Codec L_Codec.
Import ListNotations.
Open Scope Z_scope.

Lemma C18_identity_ignores_cap_refuted : forall K E,
  exists d cap, len d > cap /\ 0 <= cap /\ decompress (std_params K) E Identity d (Some cap) = Ok d.
Proof. intros K E. exists [1%N; 2%N; 3%N], 0. split; [reflexivity|]. split; [discriminate|reflexivity]. Qed.
Print Assumptions C18_identity_ignores_cap_refuted.

Definition before_eof_break : knobs :=
  {| k_eof := false; k_eof_break := false; k_chunk := 65536; k_zstd_level := 3; k_gzip_level := 6; k_wbits := 31 |}.

(* decompress(inbuf, n) -> b"", unconsumed_tail still non-empty, eof = True *)
Definition spinning : nat -> Z -> bytes -> Z * bool * bool := fun _ _ _ => (0, true, true).

Lemma C18_old_gzip_loop_spins_refuted : forall cap fuel i total acc reqs rem tl,
  rem || tl = true ->
  fst (gz_loop (std_params before_eof_break) spinning true cap fuel i total acc [] rem tl reqs) = Diverge.
Proof.
  intros cap fuel. induction fuel as [|fuel IH]; intros i total acc reqs rem tl H.
  - reflexivity.
  - cbn [gz_loop]. rewrite H. cbn [negb spinning Z.to_nat firstn skipn p_gz_eof_break std_params before_eof_break k_eof_break andb orb].
    apply IH. reflexivity.
Qed.
Print Assumptions C18_old_gzip_loop_spins_refuted.

Example C18_repaired_gzip_loop_ends :
  fst (gz_loop (std_params today) spinning true 10 5 O 0 [] [] true false []) = Ok [].
Proof. vm_compute. reflexivity. Qed.
