(* C03: behaviours that contradict the statement.
   (1) the cascade as it was before fixes/C03-convert-set-and-dict-elements-on-deserialize.diff (old_cfg: the frozenset
       and dict arms of _convert_value_for_deserialization did not convert their elements back);
   (2) a behaviour of the CURRENT code (model_cfg): a None nested dataclass with an Enum field below the top level. *)
From Coq Require Import List NArith ZArith Bool.
From VGI Require Import M_Dataclass.
Import ListNotations.
Open Scope N_scope.

Definition r_color : ty := TEnum 1 [([82; 69; 68], Some [114; 101; 100]); ([71], Some [103])].
Definition r_inner_fs : list fdecl := [(0, KPlain, None, TScalar SInt)].
Definition r_inner : ty := TData 2 r_inner_fs.
Definition r_red : pv := VEnum 1 [82; 69; 68].
Definition r_i : pv := VObj 2 [(0, VInt 1)].

Definition refutes (cf : cfg) (ce : cenv) (t : ty) (x : pv) : Prop :=
  wfb t = true /\ cenv_okb ce t = true /\ instb t x = true /\
  match roundtrip cf ce t x with Ok y => pv_eqb y x = false | Err _ => True end.

(* frozenset[Enum] comes back as a frozenset of member NAMES *)
Lemma C03_old_set_of_enum_refuted :
  let fs := [(0, KPlain, None, TSet r_color)] in
  refutes old_cfg [(1, fs)] (TData 1 fs) (VObj 1 [(0, VSet [r_red])])
  /\ roundtrip old_cfg [(1, fs)] (TData 1 fs) (VObj 1 [(0, VSet [r_red])]) = Ok (VObj 1 [(0, VSet [VStr [82; 69; 68]])]).
Proof. vm_compute. auto 10. Qed.

(* dict[str, Dataclass] comes back with plain dicts as values *)
Lemma C03_old_dict_of_dataclass_refuted :
  let fs := [(0, KPlain, None, TDict (TScalar SStr) r_inner)] in
  refutes old_cfg [(1, fs); (2, r_inner_fs)] (TData 1 fs) (VObj 1 [(0, VDict [(VStr [107], r_i)])])
  /\ roundtrip old_cfg [(1, fs); (2, r_inner_fs)] (TData 1 fs) (VObj 1 [(0, VDict [(VStr [107], r_i)])])
     = Ok (VObj 1 [(0, VDict [(VStr [107], VRow [(0, VInt 1)])])]).
Proof. vm_compute. auto 10. Qed.

(* dict[Enum, int] comes back keyed by member names *)
Lemma C03_old_enum_keys_refuted :
  let fs := [(0, KPlain, None, TDict r_color (TScalar SInt))] in
  refutes old_cfg [(1, fs)] (TData 1 fs) (VObj 1 [(0, VDict [(r_red, VInt 1)])]).
Proof. vm_compute. auto 10. Qed.

(* frozenset[Dataclass] does not come back at all: TypeError (unhashable dict) *)
Lemma C03_old_set_of_dataclass_refuted :
  let fs := [(0, KPlain, None, TSet r_inner)] in
  refutes old_cfg [(1, fs); (2, r_inner_fs)] (TData 1 fs) (VObj 1 [(0, VSet [r_i])])
  /\ roundtrip old_cfg [(1, fs); (2, r_inner_fs)] (TData 1 fs) (VObj 1 [(0, VSet [r_i])]) = Err ETypeError.
Proof. vm_compute. auto 10. Qed.

(* ... and with the repaired cascade all four come back *)
Lemma C03_repaired_examples :
  (let fs := [(0, KPlain, None, TSet r_color)] in roundtrip model_cfg [(1, fs)] (TData 1 fs) (VObj 1 [(0, VSet [r_red])]) = Ok (VObj 1 [(0, VSet [r_red])]))
  /\ (let fs := [(0, KPlain, None, TSet r_inner)] in
      roundtrip model_cfg [(1, fs); (2, r_inner_fs)] (TData 1 fs) (VObj 1 [(0, VSet [r_i])]) = Ok (VObj 1 [(0, VSet [r_i])])).
Proof. vm_compute. auto. Qed.

(* CURRENT code: list[Inner | None] = [None] where Inner has an Enum field -> IPCError on the way back
   (the batch fails RecordBatch.validate(full=True); with [Inner(RED), None] the dictionary is populated and it passes) *)
Definition r_einner_fs : list fdecl := [(0, KPlain, None, r_color)].
Definition r_einner : ty := TData 3 r_einner_fs.
Lemma C03_none_nested_dataclass_with_enum_refuted :
  let fs := [(0, KPlain, None, TList (TOpt r_einner))] in
  let ce := [(1, fs); (3, r_einner_fs)] in
  refutes model_cfg ce (TData 1 fs) (VObj 1 [(0, VList [VNone])])
  /\ roundtrip model_cfg ce (TData 1 fs) (VObj 1 [(0, VList [VNone])]) = Err EIPC
  /\ roundtrip model_cfg ce (TData 1 fs) (VObj 1 [(0, VList [VObj 3 [(0, r_red)]; VNone])]) = Ok (VObj 1 [(0, VList [VObj 3 [(0, r_red)]; VNone])]).
Proof. vm_compute. auto 10. Qed.
