(* C05, behaviour of the code BEFORE the repair (fixes/C05-bad-request-escapes-serve-loop.diff), kept as a record:
   with the old handler table, well-framed requests end the serve loop without any reply.  props/C05.py replays the
   same requests against the real server (violation keys "well-framed-request-ends-connection:<class>"). *)
From Coq Require Import List String NArith Bool.
From VGI Require Import M_ReadReq L_ReadReq L_ReadReqTables.
Import ListNotations.
Open Scope N_scope.

(* metadata vgi_rpc.shm_segment_name=no_such_seg on a valid call of f: FileNotFoundError leaves serve(), nothing written *)
Lemma C05_missing_segment_refuted :
  well_framed req_missing_segment /\ lib_ok req_missing_segment /\
  fst (serve_one_model old_tables std_keys (cfg0 true) None req_missing_segment) = Ended None (Some XFileNotFoundError).
Proof. repeat split; vm_compute; reflexivity. Qed.

(* traceparent=b"\xff\xfe": UnicodeDecodeError leaves serve(), nothing written *)
Lemma C05_traceparent_refuted :
  well_framed req_bad_traceparent /\ lib_ok req_bad_traceparent /\
  fst (serve_one_model old_tables std_keys (cfg0 true) None req_bad_traceparent) = Ended None (Some XUnicodeDecodeError).
Proof. repeat split; vm_compute; reflexivity. Qed.

(* a column value as_py cannot represent (timestamp[s] 2**62): OverflowError leaves serve(), nothing written *)
Lemma C05_overflowing_column_refuted :
  well_framed req_overflowing_column /\ lib_ok req_overflowing_column /\
  fst (serve_one_model old_tables std_keys (cfg0 true) None req_overflowing_column) = Ended None (Some XOverflowError).
Proof. repeat split; vm_compute; reflexivity. Qed.

(* as_py raising ArrowInvalid (unknown time zone) on a valid stream: an error stream is written but the loop ENDS *)
Lemma C05_arrowinvalid_after_drain_refuted :
  well_framed req_arrowinvalid_column /\ lib_ok req_arrowinvalid_column /\
  fst (serve_one_model old_tables std_keys (cfg0 true) None req_arrowinvalid_column) = Ended (Some XArrowInvalid) None.
Proof. repeat split; vm_compute; reflexivity. Qed.

(* hence the universal statement fails for the old table *)
Lemma C05_refuted_old_code :
  exists cfg st r, well_framed r /\ lib_ok r /\
    forall rep st', serve_one_model old_tables std_keys cfg st r <> (Answered rep, st').
Proof.
  exists (cfg0 true), None, req_missing_segment. repeat split; try (vm_compute; reflexivity).
  intros rep st' H. apply (f_equal fst) in H. vm_compute in H. discriminate.
Qed.
