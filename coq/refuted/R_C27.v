(* C27: behaviour of the code BEFORE fixes/C27-close-then-open-orphan.diff (cfg_old: _StickySink.open leaves `closed`
   set, _StickySink.close leaves `mint_token` set).  A request that calls close_session() and later open_session()
   answers with both VGI-Session and VGI-Session-Close; the client captures the new token and then clears it:
   its view is empty while the worker keeps the new session live for it (orphaned until TTL). *)
From Coq Require Import List Arith Bool.
From VGI Require Import M_StickyLife L_StickyLife.
Import ListNotations.

Lemma C27_close_then_open_orphans_refuted :
  exists h v, Forall client_event h /\
    live_of (run cfg_old h) v <> opt_list (w_view (run cfg_old h) v).
Proof.
  exists [EvView 0 [AOpen]; EvView 0 [AClose; AOpen]], 0. split; [repeat constructor|].
  vm_compute. discriminate.
Qed.

(* the same without any session to close: close_session() is a no-op but still raises the close flag *)
Lemma C27_noop_close_then_open_orphans_refuted :
  exists s, In s (reg (w_srv (run cfg_old [EvView 0 [AClose; AOpen]]))) /\
            forall v, w_view (run cfg_old [EvView 0 [AClose; AOpen]]) v <> Some s.
Proof.
  exists 0. split; [vm_compute; left; reflexivity|].
  intros v. vm_compute. destruct v; discriminate.
Qed.

(* accordingly the old programs do not meet the hypothesis of the C27 theorems *)
Lemma C27_old_cfg_not_good : ~ good_cfg cfg_old.
Proof.
  intros H. destruct (H None (mkSink None true) 0) as [A _]. vm_compute in A. discriminate.
Qed.

(* the witness history is handled correctly by the repaired code *)
Example C27_witness_repaired :
  let w := run cfg_model [EvView 0 [AOpen]; EvView 0 [AClose; AOpen]] in (reg (w_srv w), w_view w 0) = ([1], Some 1).
Proof. vm_compute; reflexivity. Qed.
