(* C40, behaviour of the unchanged code outside the side condition integral_ttl of
   C40_header_iff_configured_with_value: VGI-Sticky-Default-TTL is str(int(sticky_default_ttl)).
   For a TTL with a fractional part the header is present, but its value is the integer part -- two different
   configured TTLs (90 s and 90.7 s; 0 s and 0.5 s) advertise the same text, and the client probe reads back the
   integer part.  The QUANTIFIER of the property ranges over "sticky (with/without echo headers)", not over TTL
   values; the check therefore records this as a note and does not raise it as a violation. *)
From Coq Require Import List NArith ZArith Bool String.
From VGI Require Import M_CapHeaders L_CapHeaders.
Import ListNotations.
Open Scope string_scope.
Open Scope N_scope.

Definition frac_cfg (ip : Z) (frac : bool) : config :=
  {| c_max_request := None; c_max_response := None; c_max_ext_response := None;
     c_ext_config := false; c_ext_storage := false; c_upload_provider := false; c_max_upload := None;
     c_compression := true; c_zstd_runtime := true; c_zstd_disabled := false;
     c_proof_required := false; c_introspect := false;
     c_sticky := true; c_ttl_int := ip; c_ttl_frac := frac; c_echo := [] |}.

(* the fraction never reaches the wire: configurations that differ only in it advertise the same headers *)
Lemma C40_sticky_ttl_fraction_not_advertised : forall ip, cap_headers (frac_cfg ip true) = cap_headers (frac_cfg ip false).
Proof. intro ip. rewrite !cap_headers_closed_form. reflexivity. Qed.

(* hence, without the side condition, the iff of C40_header_iff_configured_with_value fails: sticky_default_ttl=0.5
   emits VGI-Sticky-Default-TTL: 0 although no integer numeral denotes the configured value *)
Lemma C40_header_iff_configured_with_value_refuted : exists c hs,
  cap_headers c = Some hs /\
  ~ (forall K v, In (K, v) hs <-> exists f cv, K = fname f /\ configured c f = Some cv /\ text_of cv = Some v).
Proof.
  exists (frac_cfg 0 true), (spec_headers (frac_cfg 0 true)). split; [apply cap_headers_closed_form|].
  intro H. destruct (H (fname FStickyTtl) (s2l "0")) as [H1 _].
  assert (In (fname FStickyTtl, s2l "0") (spec_headers (frac_cfg 0 true))) as Hin.
  { apply in_spec_headers. exists FStickyTtl. split; reflexivity. }
  destruct (H1 Hin) as [f [cv [E [Hc Ht]]]].
  assert (f = FStickyTtl) as ->.
  { apply (NoDup_map_inj fname all_features); [exact fname_nodup | apply all_features_complete | apply all_features_complete | symmetry; exact E]. }
  cbn in Hc. inversion Hc; subst cv. cbn in Ht. discriminate.
Qed.

(* and the probe reads the integer part back *)
Example C40_probe_reads_integer_part :
  match cap_headers (frac_cfg 90 true) with Some hs => k_sticky_ttl (probe (wire hs)) = Some 90%Z | None => False end.
Proof. vm_compute. reflexivity. Qed.
