(* R_C07: the client of the tree BEFORE fixes/C07-rpcerror-exposes-error-kind.diff.

   RpcError had no error_kind attribute and _dispatch_log_or_error never read vgi_rpc.error_kind, so the kind the
   server carries on the wire (C07_kind_carried_exposed, first two conjuncts) was dropped at the client although
   docs/WIRE_PROTOCOL.md section 8 lists error_kind among the fields the client error must carry.
   [dispatch_gen loads false] is that client.  Replayed against the real code by props/C07.py (violation key
   client-rpcerror-does-not-expose-error-kind). *)
From Coq Require Import List NArith ZArith Bool String.
From VGI Require Import Corr M_Wire M_WireErr L_WireErr.
Import ListNotations.
Open Scope N_scope.

Definition w_session_lost : exc_view :=
  {| xe := {| cls := s "SessionLostError"; emsg := s "token expired"; kind := Some (s "session_lost") |};
     xtb := s "Traceback (most recent call last): ..."; xcause := None; xcontext := None; xframes := s "[]" |}.

Theorem C07_unrepaired_client_drops_kind_refuted :
  exists v, kind (xe v) = Some (s "session_lost") /\
    forall dumps loads, (forall o, loads (dumps o) = Some o) ->
      mget K_KIND (error_metadata dumps v None []) = Some (s "session_lost")
      /\ exists r, dispatch_gen loads false 0 (Some (error_metadata dumps v None [])) = DRaise r
                   /\ r_type r = s "SessionLostError" /\ r_kind r = None.
Proof.
  exists w_session_lost. split; [reflexivity|]. intros dumps loads H. split.
  - apply (kind_carried dumps loads H w_session_lost None []).
  - eexists. split; [apply (client_error_old dumps loads H)|]. split; reflexivity.
Qed.
Print Assumptions C07_unrepaired_client_drops_kind_refuted.
