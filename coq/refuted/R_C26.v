(* C26: behaviours of the UNCHANGED code (faithful model M_StickySched, source shape std_sshape) that
   contradict the statement.  Each lemma exhibits a pool, a TTL and a schedule; props/C26.py replays the
   same schedules against the real middleware (harness/c26_sched.py) on every run.

   Thread ids in a schedule: 0 = the clock advances by one second, i+1 = thread i of the pool. *)
From Coq Require Import List NArith Bool.
From VGI Require Import M_StickySched.
Import ListNotations.

Definition final_trace (pool : list kind) (ttl : N) (sch : list nat) : list event :=
  trace_of (run std_sshape (init_state pool ttl) sch).

(* (a) registry.get -> entry.lock.acquire() is not re-validated: request 0 looks the entry up, the DELETE
       thread closes the session completely (under the entry lock), then request 0 acquires the lock and
       dispatches on the closed state. *)
Definition w_window_delete : list nat := [1; 1; 2; 2; 2; 2; 2; 2; 1; 1].
Lemma C26_no_dispatch_after_close_refuted :
  exists pool ttl sch, check_after (final_trace pool ttl sch) = false.
Proof. exists [KReq false; KDel], 100%N, w_window_delete. vm_compute. reflexivity. Qed.

Example window_delete_trace :
  filter observable (final_trace [KReq false; KDel] 100%N w_window_delete)
  = [(CloseStart, 1); (CloseEnd, 1); (Begin, 0)].
Proof. vm_compute. reflexivity. Qed.

(* (b1) the reaper's drain_expired pops the expired entry under the registry lock and runs state.close()
        without the entry lock: request 0 is in its method (Begin emitted) when the hook starts. *)
Definition w_reaper : list nat := [1; 1; 1; 1; 0; 0; 2; 2; 2].
Lemma C26_no_close_during_dispatch_refuted_reaper :
  exists pool ttl sch, check_during (final_trace pool ttl sch) = false.
Proof. exists [KReq false; KReap], 1%N, w_reaper. vm_compute. reflexivity. Qed.

Example reaper_trace :
  filter observable (final_trace [KReq false; KReap] 1%N w_reaper) = [(Begin, 0); (CloseStart, 1)].
Proof. vm_compute. reflexivity. Qed.

(* (b2) registry.shutdown() clears the registry and runs the hooks without the entry locks. *)
Definition w_shutdown : list nat := [1; 1; 1; 1; 2; 2].
Lemma C26_no_close_during_dispatch_refuted_shutdown :
  exists sch, check_during (final_trace [KReq false; KShut] 100%N sch) = false.
Proof. exists w_shutdown. vm_compute. reflexivity. Qed.

(* (b3) the expiry branch of registry.get (reached by a second request after the TTL) evicts and runs the
        hook -- under the registry lock, without the entry lock -- while request 0 is dispatching. *)
Definition w_get_expiry : list nat := [1; 1; 1; 1; 0; 0; 2; 2; 2].
Lemma C26_no_close_during_dispatch_refuted_get_expiry :
  exists sch, check_during (final_trace [KReq false; KReq false] 1%N sch) = false.
Proof. exists w_get_expiry. vm_compute. reflexivity. Qed.

(* (c) _close_session releases the entry lock BEFORE registry.close pops the entry: request 1, which is
       waiting for the entry lock, starts dispatching; then request 0's close hook runs during it. *)
Definition w_in_method_close : list nat := [1; 1; 1; 1; 2; 2; 1; 2; 2; 1; 1].
Lemma C26_no_close_during_dispatch_refuted_in_method_close :
  exists sch, check_during (final_trace [KReq true; KReq false] 100%N sch) = false.
Proof. exists w_in_method_close. vm_compute. reflexivity. Qed.

Example in_method_close_trace :
  filter observable (final_trace [KReq true; KReq false] 100%N w_in_method_close)
  = [(Begin, 0); (Detach, 0); (Begin, 1); (CloseStart, 0)].
Proof. vm_compute. reflexivity. Qed.

(* ... and the same early release also lets a request dispatch AFTER the in-method close hook started *)
Lemma C26_no_dispatch_after_close_refuted_in_method_close :
  exists sch, check_after (final_trace [KReq true; KReq false] 100%N sch) = false.
Proof. exists [1; 1; 1; 1; 2; 2; 1; 1; 1; 2; 2]. vm_compute. reflexivity. Qed.

(* none of these is a failure of mutual exclusion or of at-most-once: on the same schedules *)
Example witnesses_keep_mutex_and_once :
  forallb (fun x => check_mutex x && check_once x)
    [final_trace [KReq false; KDel] 100%N w_window_delete; final_trace [KReq false; KReap] 1%N w_reaper;
     final_trace [KReq false; KShut] 100%N w_shutdown; final_trace [KReq false; KReq false] 1%N w_get_expiry;
     final_trace [KReq true; KReq false] 100%N w_in_method_close] = true.
Proof. vm_compute. reflexivity. Qed.
