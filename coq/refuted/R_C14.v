(* C14: behaviours of the UNCHANGED code that contradict the unrestricted statement
     "each continuation request gets the same outcome that a worker with an empty cache would give it".
   Three independent witnesses (each is replayed against the real app by props/C14.py). *)
From Coq Require Import List NArith Bool.
From VGI Require Import M_CallCache.
Import ListNotations.
Open Scope N_scope.

Definition A1 : auth := Auth [106; 119; 116] [97].
Definition w_cfg : cfg := Cfg 10 [3; 2] false.
Definition w_ct : call_tok := CT 0 (aad_id A1) 100 1 7.
Definition w_cu0 : cur_tok := CU 0 (aad_id A1) 100 3.

(* 1. a hit never looks at the presented call token: no call token at all is served warm, refused cold *)
Definition hist_no_call : list req := [RInit 0 A1 0 7003; RCont 0 A1 0 (PTok w_cu0) PNone 5].

Lemma C14_cache_transparent_refuted :
  exists c t0 h, outcomes declares_h init_h turn_h c t0 h <> outcomes declares_h init_h turn_h (cold c) t0 h
    /\ nth 1 (outcomes declares_h init_h turn_h c t0 h) ONone = OServed 4005007 (Some (CU 0 (aad_id A1) 100 4))
    /\ nth 1 (outcomes declares_h init_h turn_h (cold c) t0 h) ONone = ORejected E_call_missing.
Proof. exists w_cfg, 400, hist_no_call. vm_compute. repeat split. discriminate. Qed.

(* 2. honest client (always echoes its genuine call token), stream older than the token TTL: the entry re-created on
      worker 1's miss path at second 108 lives until 118, the call token minted at second 100 dies after 110 *)
Definition w_cu1 : cur_tok := CU 0 (aad_id A1) 108 4.
Definition hist_ttl : list req :=
  [RInit 0 A1 0 7003; RTick 32; RCont 1 A1 0 (PTok w_cu0) (PTok w_ct) 5; RTick 16; RCont 1 A1 0 (PTok w_cu1) (PTok w_ct) 5].

Lemma C14_transparent_refuted_honest_client_ttl :
  exists c t0 h, outcomes declares_h init_h turn_h c t0 h <> outcomes declares_h init_h turn_h (cold c) t0 h
    /\ nth 4 (outcomes declares_h init_h turn_h c t0 h) ONone = OServed 5005007 (Some (CU 0 (aad_id A1) 112 5))
    /\ nth 4 (outcomes declares_h init_h turn_h (cold c) t0 h) ONone = ORejected E_call_expired
    (* every continuation of the history presents the genuine call token of its own stream *)
    /\ Forall (fun r => match r with RCont _ _ _ _ call _ => call = PTok w_ct | _ => True end) h.
Proof.
  exists w_cfg, 400, hist_ttl. split; [vm_compute; discriminate|]. split; [vm_compute; reflexivity|].
  split; [vm_compute; reflexivity|]. repeat constructor.
Qed.

(* 3. the declared call-state type of the addressed method is only checked on the miss path: the stream of method 0
      (call state of type 1) continues at method 1 (declares none) warm, and is refused cold *)
Definition hist_type : list req := [RInit 0 A1 0 7003; RCont 0 A1 1 (PTok w_cu0) (PTok w_ct) 5].

Lemma C14_transparent_refuted_method_type :
  exists c t0 h, outcomes declares_h init_h turn_h c t0 h <> outcomes declares_h init_h turn_h (cold c) t0 h
    /\ nth 1 (outcomes declares_h init_h turn_h c t0 h) ONone = OServed 4005007 (Some (CU 0 (aad_id A1) 100 4))
    /\ nth 1 (outcomes declares_h init_h turn_h (cold c) t0 h) ONone = ORejected E_call_type.
Proof. exists w_cfg, 400, hist_type. vm_compute. repeat split. discriminate. Qed.

Print Assumptions C14_cache_transparent_refuted.
Print Assumptions C14_transparent_refuted_honest_client_ttl.
Print Assumptions C14_transparent_refuted_method_type.
