(* R_C11: behaviours of the unchanged code (faithfully modelled) that contradict C11's statement. *)
From Coq Require Import List NArith ZArith Bool String Lia.
From VGI Require Import Corr M_Wire M_HttpProd.
Import ListNotations.
Open Scope N_scope.

Definition r_b (r t : N) : batch := {| rows := r; tag := t; meta := [] |}.
Definition r_boom : exn := {| cls := s "ValueError"; emsg := s "boom"; kind := None |}.
(* one batch, then the producer raises *)
Definition r_sp : stream_prog := {| ilogs := []; ires := InitOk; hdr := None; steps :=
  [ {| slogs := []; emit := Some (r_b 5 0); fin := false; sraise := None |};
    {| slogs := []; emit := None; fin := false; sraise := Some r_boom |} ] |}.
Definition r_w (c : option N) : worker :=
  {| w_key := 1; w_cfg := {| cap := c; fsize := fun _ => 100; base := 100 |}; w_lag := fun z => z; w_ents := 4; w_cache := [] |}.

(* finding first-response-error-drops-preceding-batches: with max_response_bytes unset the client iterates the batch and
   then sees the error; with a large cap both travel in the FIRST response, _init_http_stream_session raises at the call and
   the batch is lost -- the batches a client iterates depend on max_response_bytes. *)
Lemma first_response_error_refuted :
  exists progs c w1 w2 sh pid cid fuel,
    batches_of (fst (fst (iterate progs fuel c w1 sh pid cid))) <> batches_of (fst (fst (iterate progs fuel c w2 sh pid cid)))
    /\ first_ok progs c w1 sh pid cid = true /\ first_ok progs c w2 sh pid cid = false.
Proof.
  exists (fun _ => r_sp), CbRecord, (r_w None), (r_w (Some 1000000000)), ShCs, 7, 100, 5%nat.
  vm_compute. repeat split; try reflexivity. discriminate.
Qed.

(* finding compressed-continuation-turn-overshoots-cap-by-codec-buffer: on a continuation turn with a negotiated codec the
   cap test reads resp_buf.tell(), the sink BEHIND pa.CompressedOutputStream, which stays at 0 until the codec flushes its
   buffer (64 KiB of output).  With such a lagging meter (lag z <= z; here lag = 0) a turn under cap = 1000 writes five
   process() outputs of 1800 bytes: the body exceeds cap + last output. *)
Definition r_steps (n : nat) : list step :=
  map (fun i => {| slogs := []; emit := Some (r_b 150 (N.of_nat i)); fin := false; sraise := None |}) (seq 0 n).

Lemma lagging_meter_overshoot_refuted :
  exists (cfg : httpcfg) (lag : N -> N) c sts pre last t,
    (forall z, lag z <= z) /\ cap cfg = Some c /\
    turn_groups (fsize cfg) (go_of cfg lag) sts 1 (base cfg) = (pre ++ [last], t) /\ pre <> [] /\
    c + group_size (fsize cfg) last <= frames_size (fsize cfg) (base cfg) (List.concat (pre ++ [last])).
Proof.
  exists {| cap := Some 1000; fsize := fun _ => 1800; base := 176 |}, (fun _ => 0), 1000, (r_steps 5).
  exists (map (fun i => [FData (r_b 150 (N.of_nat i))]) (seq 0 4)), [FData (r_b 150 4)], None.
  split; [intro z; lia|]. split; [reflexivity|]. split; [vm_compute; reflexivity|]. split; [discriminate|].
  vm_compute. discriminate.
Qed.
