(* C42, behaviour of the code AS SHIPPED (pre-check `transport_kind is None`) that contradicts the statement:
   one server object, an HTTP request, then serve() over a pipe, then -- from a quiescent state in which only HTTP
   requests remain and the recorded binding is (pipe, {}) -- the next HTTP request is dispatched with ctx.kind = pipe
   and the hook is not called for the HTTP binding.  (C42_phase_once_and_own_binding / C42_rebind_refires fail for
   this pre-check; they are proved for every pre-check that is `guard_sound`, and `guard_is_none` is not.) *)
From Coq Require Import List NArith Bool Arith.
From VGI Require Import M_ServeStart.
Import ListNotations.

Definition wit_http : job := {| jvia := VHttp; jn := 1 |}.
Definition wit_pipe : job := {| jvia := VServe TPipe; jn := 1 |}.
Definition wit_cfg : list (list job) := [[wit_http]; [wit_pipe]; [wit_http]].
Definition wit_hook : nat -> kind -> bool := fun _ _ => true.
Definition wit_sched1 : list nat := repeat 0 8 ++ repeat 1 7.
Definition wit_sched2 : list nat := [2; 2].

Theorem C42_is_none_precheck_refuted :
  let s0 := run guard_is_none wit_hook wit_cfg wit_sched1 in
  quiescent s0 /\ all_jobs_bind s0 http_binding /\ recorded s0 = Some (KPipe, false) /\
  (* thread 2's whole request: pre-check, dispatch -- no notification, ctx.kind = pipe *)
  strace (run_from guard_is_none wit_hook s0 wit_sched2) = EDisp 2 VHttp (Some KPipe) :: strace s0 /\
  tjobs (sthreads (run_from guard_is_none wit_hook s0 wit_sched2) 2) = [].
Proof.
  split; [|split; [|split; [|split]]].
  - split; [vm_compute; reflexivity|]. intros [|[|[|t]]]; vm_compute; auto. destruct t; exact I.
  - intros [|[|[|t]]] j; vm_compute; try tauto.
    + intros [<-|[]]. reflexivity.
    + destruct t; intros [].
  - vm_compute. reflexivity.
  - vm_compute. reflexivity.
  - vm_compute. reflexivity.
Qed.
Print Assumptions C42_is_none_precheck_refuted.

(* the same history with the repaired pre-check: the hook is called for HTTP again and the request sees http *)
Example C42_repaired_same_history :
  strace (run guard_not_http wit_hook wit_cfg (wit_sched1 ++ repeat 2 8))
  = [EDisp 2 VHttp (Some KHttp); ECommit 2 (KHttp, false); EHook 2 (KHttp, false) true]
    ++ strace (run guard_not_http wit_hook wit_cfg wit_sched1).
Proof. vm_compute. reflexivity. Qed.
