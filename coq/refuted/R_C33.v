(* C33: behaviours of the accept loop as it was BEFORE the repair (fixes/C33-idle-shutdown-races.diff) that
   contradict the statement.  Both schedules are replayed against the real code by props/C33.py. *)
From Coq Require Import List NArith Bool.
From VGI Require Import M_Accept.
Import ListNotations.
Open Scope N_scope.

(* (1) shutdown_requested is never cleared (c_clear = false): the idle timer fires, a client connects before the
       next accept timeout, and the loop breaks while that client is being served (conn_count = 1). *)
Definition sch_flag_not_cleared : list aact :=
  [AAcc; ATick 60; ATmr 0; ATmr 0; AClient; AAcc; AAcc; AAcc; AHnd 0; AAcc; AAcc].

Lemma C33_flag_not_cleared_refuted :
  exists sch, forall guard,
    let cfg := Build_acfg false guard (Some 5) None 60 in
    exists due now, brk (arun cfg sch) = Some (1, false, due, now)
                    /\ nth_error (handlers (arun cfg sch)) 0 = Some HServing.
Proof. exists sch_flag_not_cleared. intros [|]; vm_compute; eexists; eexists; split; reflexivity. Qed.

(* (2) a Timer whose wait elapsed cannot be cancelled (c_guard = false): its callback, delayed past a whole
       connection, sets shutdown_requested although conn_count became 0 only just now -- the loop breaks with
       zero idle time (zero_since + idle_timeout = 10 > clock = 5). *)
Definition sch_stale_timer : list aact :=
  [AAcc; AClient; AAcc; AAcc; AAcc; AHnd 0; AHnd 0; AHnd 0; ATick 5; ATmr 1;
   AClient; AAcc; AAcc; AAcc; AHnd 1; AHnd 1; AHnd 1; ATmr 1; AAcc; AAcc].

Lemma C33_stale_timer_refuted :
  exists sch, forall clear,
    let cfg := Build_acfg clear false (Some 5) None 60 in
    brk (arun cfg sch) = Some (0, true, 10, 5).
Proof. exists sch_stale_timer. intros [|]; vm_compute; reflexivity. Qed.

(* the repaired loop survives both schedules *)
Example C33_repaired_survives :
  let cfg := Build_acfg true true (Some 5) None 60 in
  brk (arun cfg sch_flag_not_cleared) = None /\ brk (arun cfg sch_stale_timer) = None.
Proof. vm_compute. split; reflexivity. Qed.
