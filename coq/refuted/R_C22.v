(* C22, behaviour of the code that contradicts (or leaves open) the statement.

   1. REFUTED on the unpatched source: `if not raw: raise ProofError("no_proof", ...)` treats a header that is
      present with the empty value like an absent header.  The table (row 2) says `malformed`.  In `allow` mode the
      reason is returned in claims["reason"]; in both modes it is what is logged and counted.
      The model takes that reason as the parameter [empty_reason]; with NoProof (the unpatched source) the table
      equality fails on exactly the instance list [""].

   2. OBSERVATION (no violation under the reading adopted): the MAC is compared after base64url decoding, and the
      decoder ignores the two unused low bits of the 43rd character.  Four different `mac` fields therefore verify for
      one digest.  Row 8 ("recomputed MAC does not match") is transcribed as a comparison of decoded bytes, under
      which the code is right; a port that compared encoded strings, or whose decoder rejects non-zero trailing
      bits, would answer bad_mac / malformed for three of the four. *)
From Coq Require Import List NArith ZArith Bool.
From VGI Require Import Regex Bytes Layout M_Proof L_ProofPrim L_Proof P_C22.
Import ListNotations.
Open Scope N_scope.

Theorem C22_empty_header_refuted :
  exists hmac sep instances keys origin skew check_and_add now,
    In 44 sep /\ py_match penv0 origin_re origin = true /\
    gate_decision hmac NoProof (header_value sep instances) keys origin skew (Some check_and_add) now = Reject NoProof /\
    spec_table utf8_size hmac instances keys origin skew (fun n => negb (check_and_add n)) now = Reject Malformed.
Proof.
  exists ex_hmac, [44; 32], [[]], ex_keys, ex_origin, 30%Z, (fun _ => true), 100%Z.
  split; [left; reflexivity |]. split; [vm_compute; reflexivity |]. split; vm_compute; reflexivity.
Qed.
Print Assumptions C22_empty_header_refuted.

(* "AAAA...AA", "...AB", "...AC", "...AD" all decode to 32 zero bytes and are all accepted, by the code and by
   the table as transcribed *)
Theorem C22_mac_trailing_bits_observation :
  forall last, In last [65; 66; 67; 68] ->
    ex_run [ex_token [49; 48; 48] last] true 100%Z = Accept [76] [107] ex_origin /\
    spec_table utf8_size ex_hmac [ex_token [49; 48; 48] last] ex_keys ex_origin 30%Z (fun _ => false) 100%Z
    = Accept [76] [107] ex_origin.
Proof.
  intros last [<- | [<- | [<- | [<- | []]]]]; split; vm_compute; reflexivity.
Qed.
