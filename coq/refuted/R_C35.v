(* C35, documentation of the defect repaired by fixes/C35-recursive-claim-redaction.diff.
   Before the repair redact_claims was
       {k: (REDACTED if _DEFAULT_CLAIM_REDACT_RE.search(k) else v) for k, v in claims.items()}
   i.e. only the top-level keys were looked at ([redact_flat]); a sensitive key inside a nested object,
   or inside an object held in a list, kept its value.  require_all() in vgi_rpc/http/_bearer.py nests a
   gate's claims under the gate's claims_key, so nested claims are what the library itself produces. *)
From Coq Require Import List NArith ZArith Bool.
From VGI Require Import Regex M_Redact.
Import ListNotations.
Open Scope N_scope.

Definition r_ctx := [99;116;120].             (* "ctx" *)
Definition r_roles := [114;111;108;101;115].  (* "roles" *)
Definition r_email := [101;109;97;105;108].   (* "email" *)
Definition r_token := [116;111;107;101;110].  (* "token" *)
Definition r_val := JStr [97;64;98].          (* "a@b" *)

(* {"ctx": {"email": "a@b"}} *)
Lemma flat_redaction_leaks_nested_object_refuted :
  exists c k v, entry_in k v (JObj (redact_flat c)) /\ sensitive k = true /\ v <> redacted.
Proof.
  exists [(r_ctx, JObj [(r_email, r_val)])], r_email, r_val. split; [| split].
  - vm_compute. eapply EI_obj; [left; reflexivity |]. apply EI_here. left. reflexivity.
  - vm_compute; reflexivity.
  - discriminate.
Qed.

(* {"roles": [{"token": "a@b"}]} *)
Lemma flat_redaction_leaks_object_in_list_refuted :
  exists c k v, entry_in k v (JObj (redact_flat c)) /\ sensitive k = true /\ v <> redacted.
Proof.
  exists [(r_roles, JList [JObj [(r_token, r_val)]])], r_token, r_val. split; [| split].
  - vm_compute. eapply EI_obj; [left; reflexivity |]. eapply EI_list; [left; reflexivity |].
    apply EI_here. left. reflexivity.
  - vm_compute; reflexivity.
  - discriminate.
Qed.

(* the two agree on flat claims, which is all the repository's tests use *)
Example flat_and_recursive_agree_on_flat_claims :
  redact_flat [(r_email, r_val); (r_ctx, JNum 1)] = redact_claims [(r_email, r_val); (r_ctx, JNum 1)].
Proof. vm_compute; reflexivity. Qed.
Example recursive_redacts_nested :
  redact_claims [(r_ctx, JObj [(r_email, r_val)])] = [(r_ctx, JObj [(r_email, redacted)])].
Proof. vm_compute; reflexivity. Qed.
