(* C09, documentation of the defect that was fixed in the code base.
   The former SEMVER_REGEX had the same shape as the current one, but each numeral was
   0|[1-9]\d* (Unicode-aware \d on a str pattern) and the pattern ended in `$`:
     - `$` (without MULTILINE) also matches just before a final newline, so "1.0.0" followed by
       a line feed was accepted;
     - \d matches every Unicode decimal digit, so non-ASCII digits were accepted after the
       leading [1-9].
   The current regex uses \Z (EndZ) and [0-9]; the examples below separate the two on the matcher. *)
From Coq Require Import List NArith Bool.
From VGI Require Import Regex UnicodeTables M_Version.
Import ListNotations.
Open Scope N_scope.

(* same shape as num_re / semver_re, with \d (CPred 0) inside the Star and Dollar at the end *)
Definition old_num_re : re := Alt (Chr (CChar 48)) (Cat (Chr digit19) (Star (Chr (CPred 0)))).
Definition old_semver_re : re :=
  Cat Bos (Cat old_num_re (Cat dot_re (Cat old_num_re (Cat dot_re (Cat old_num_re Dollar))))).

(* "1.0.0" + LF *)
Example old_regex_admits_trailing_newline :
  py_match penv_py old_semver_re [49; 46; 48; 46; 48; 10] = true.
Proof. vm_compute; reflexivity. Qed.
Example new_regex_rejects_trailing_newline :
  py_match penv_py semver_re [49; 46; 48; 46; 48; 10] = false.
Proof. vm_compute; reflexivity. Qed.

(* "1", U+0661, ".0.0" : ARABIC-INDIC DIGIT ONE (U+0661 = 1633) after the leading digit *)
Example old_regex_admits_unicode_digit :
  py_match penv_py old_semver_re [49; 1633; 46; 48; 46; 48] = true.
Proof. vm_compute; reflexivity. Qed.
Example new_regex_rejects_unicode_digit :
  py_match penv_py semver_re [49; 1633; 46; 48; 46; 48] = false.
Proof. vm_compute; reflexivity. Qed.

(* both regexes agree on a plain canonical version *)
Example old_regex_accepts_plain : py_match penv_py old_semver_re [49; 46; 48; 46; 48] = true.
Proof. vm_compute; reflexivity. Qed.
Example new_regex_accepts_plain : py_match penv_py semver_re [49; 46; 48; 46; 48] = true.
Proof. vm_compute; reflexivity. Qed.
