(* C32: what the UNREPAIRED source does (cfg_old: stream_abandoned = opened && (no session || not closed), discard
   only when the pool is closed, no in-flight / drained tracking in the client).  Each lemma is a concrete schedule;
   props/C32.py replays the same scenarios against the real code. *)
From Coq Require Import List Arith Bool.
From VGI Require Import M_Pool.
Import ListNotations.

Definition seq2 (a b : nat) := repeat (Thr 0) a ++ repeat (Thr 1) b.
Definition dirty_reuse (s : state) : bool :=
  existsb (fun h => h_reused h && negb (h_clean h)) (g_handouts (fst s)).

(* max_idle = 0 still keeps one idle worker: the evict finds nothing, the append happens anyway *)
Lemma C32_max_idle_zero_refuted :
  exists specs sch, idle_total (g_idle (fst (run cfg_old 0 3 (init specs) sch))) > 0.
Proof. exists [SB 0 true [OUnary] []], (repeat (Thr 0) 9). vm_compute. auto. Qed.

(* a unary call interrupted by a raising on_log: the worker goes back to the pool with an unread response *)
Lemma C32_dirty_reuse_unary_refuted :
  exists specs sch, dirty_reuse (run cfg_old 2 3 (init specs) sch) = true.
Proof. exists [SB 0 true [OUnary] [(0, XPlain)]; SB 0 true [OUnary] []], (seq2 10 10). vm_compute. reflexivity. Qed.

(* tick interrupted, then the close-drain of the managed session interrupted: _closed is True, the output is not drained *)
Lemma C32_dirty_reuse_stream_close_refuted :
  exists specs sch, dirty_reuse (run cfg_old 2 3 (init specs) sch) = true.
Proof. exists [SB 0 true [OOpen true; OTick] [(2, XPlain); (3, XPlain)]; SB 0 true [OUnary] []], (seq2 11 10). vm_compute. reflexivity. Qed.

(* second stream of a borrow: init interrupted, _last_stream_session still points at the first, cleanly closed one *)
Lemma C32_dirty_reuse_second_stream_refuted :
  exists specs sch, dirty_reuse (run cfg_old 2 3 (init specs) sch) = true.
Proof. exists [SB 0 true [OOpen true; OClose; OOpen true; OTick] [(2, XPlain)]; SB 0 true [OUnary] []], (seq2 13 10). vm_compute. reflexivity. Qed.

(* After the taint repair (cfg_marking: _call_in_flight and _drained exist, but _drained = True is set after the drain
   loop however it ended): an on_log raising an exception the drain's suppress() list swallows -- RpcError, OSError,
   pa.ArrowInvalid -- cuts the drain short silently, and the worker is pooled with the end-of-stream marker unread. *)
Lemma C32_dirty_reuse_cancel_drain_refuted :
  exists specs sch, dirty_reuse (run cfg_marking 2 3 (init specs) sch) = true.
Proof. exists [SB 0 true [OOpen false; OTick; OCancel] [(4, XRpc)]; SB 0 true [OUnary] []], (seq2 12 10). vm_compute. reflexivity. Qed.

Lemma C32_dirty_reuse_close_drain_swallowed_refuted :
  exists specs sch, dirty_reuse (run cfg_marking 2 3 (init specs) sch) = true.
Proof. exists [SB 0 true [OOpen true; OTick] [(2, XPlain); (3, XOs)]; SB 0 true [OUnary] []], (seq2 11 10). vm_compute. reflexivity. Qed.

(* the same schedules under the repaired configuration do not reuse the worker *)
Lemma C32_fixed_on_witnesses :
  idle_total (g_idle (fst (run cfg_fixed 0 3 (init [SB 0 true [OUnary] []]) (repeat (Thr 0) 9)))) = 0 /\
  dirty_reuse (run cfg_fixed 2 3 (init [SB 0 true [OUnary] [(0, XPlain)]; SB 0 true [OUnary] []]) (seq2 10 10)) = false /\
  dirty_reuse (run cfg_fixed 2 3 (init [SB 0 true [OOpen true; OTick] [(2, XPlain); (3, XPlain)]; SB 0 true [OUnary] []]) (seq2 11 10)) = false /\
  dirty_reuse (run cfg_fixed 2 3 (init [SB 0 true [OOpen true; OClose; OOpen true; OTick] [(2, XPlain)]; SB 0 true [OUnary] []]) (seq2 13 10)) = false /\
  dirty_reuse (run cfg_fixed 2 3 (init [SB 0 true [OOpen false; OTick; OCancel] [(4, XRpc)]; SB 0 true [OUnary] []]) (seq2 12 10)) = false /\
  dirty_reuse (run cfg_fixed 2 3 (init [SB 0 true [OOpen true; OTick] [(2, XPlain); (3, XOs)]; SB 0 true [OUnary] []]) (seq2 11 10)) = false.
Proof. vm_compute. repeat split; reflexivity. Qed.
