(* C43: behaviour of the code with the guard `if not header_value:` that contradicts the statement
   'a missing or empty header is rejected with the proxy_required or invalid_credential reason
   respectively': the present but zero-length header is reported as proxy_required. *)
From Coq Require Import List NArith Bool.
From VGI Require Import M_Xfcc.
Import ListNotations.
Open Scope N_scope.

Lemma C43_empty_header_refuted :
  exists first h, h = Some ([] : str) /\
    authenticate GuardFalsy first h = inl ProxyRequired /\
    authenticate GuardFalsy first h <> inl InvalidCredential.
Proof. exists true, (Some []). split; [reflexivity|]. split; [vm_compute; reflexivity | vm_compute; discriminate]. Qed.

(* the same input under the guard `if header_value is None:` *)
Example C43_empty_header_is_none_guard : authenticate GuardIsNone true (Some []) = inl InvalidCredential.
Proof. vm_compute; reflexivity. Qed.
