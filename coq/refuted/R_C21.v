(* Behaviour of _parse_unauthorized as it was before fixes/C21-client-deep-json.diff: json.loads was guarded by
   contextlib.suppress(ValueError) only, so the RecursionError json.loads raises on a deeply nested body (for example
   10 000 opening brackets) left the client instead of becoming an AuthenticationError -- contradicting "the client turns
   any 401 body into an authentication error with a closed-set reason". *)
From Coq Require Import String.
From Coq Require Import List NArith Bool.
From VGI Require Import M_Unauthorized.
Import ListNotations.
Open Scope N_scope.

Lemma C21_client_parse_total_refuted_when_only_ValueError_is_suppressed :
  exists lo text, lo <> LExc KOther /\ parse_unauthorized_with [KValueError] max_detail lo text = CRaised KRecursionError.
Proof. exists (LExc KRecursionError), (s "[[[["). split; [discriminate | vm_compute; reflexivity]. Qed.
