(* C28, documentation of the defect of the former direct-write path (vgi_rpc/shm.py before the bounded
   sink): `_ShmSink.write` had no limit and `allocate_and_write` returned whatever was written.  The
   allocation is `get_record_batch_size(batch) + 4096`; the stream also carries the schema message, the
   EOS marker and (nested) dictionary messages, so for wide schemas, large schema metadata or nested
   dictionary columns the stream is longer than the allocation and the write ran into the bytes of the
   next live batch (or past the end of the segment). *)
From Coq Require Import List NArith ZArith Bool.
From VGI Require Import M_Alloc L_Alloc.
Import ListNotations.
Open Scope N_scope.

Definition old_sink_write (s : sink) (c : chunk) : sink :=
  mk_sink (s_pos s + c_len c) (s_limit s) false (store (s_mem s) (s_pos s) c).

Definition old_allocate_and_write (total : N) (t : table) (m : mem) (estimated : N) (chunks : list chunk)
  : table * mem * option (N * N) :=
  match allocate total t estimated with
  | None => (t, m, None)
  | Some (t1, off) =>
      let s := fold_left old_sink_write chunks (mk_sink off (off + estimated) false m) in
      (t1, s_mem s, Some (off, s_pos s - off))
  end.

(* a well-formed table with one live batch at [65544, 65552); an 8-byte estimate is placed in the gap in
   front of it; a 12-byte stream overwrites the first four bytes of the live batch and reports 12 > 8 *)
Lemma C28_old_write_refuted :
  exists total t m est chunks t' m' off written e a,
    Wf total t /\ 0 < est /\
    old_allocate_and_write total t m est chunks = (t', m', Some (off, written)) /\
    In e t /\ in_region e a /\ m' a <> m a /\ est < written.
Proof.
  exists 65600, [(65544, 8)], (fun _ => 0), 8, [mk_chunk 12 (fun _ => 1)].
  eexists. eexists. exists 65536, 12, (65544, 8), 65544.
  split.
  { apply Inv_Wf. split; [cbn; repeat split; vm_compute; congruence | vm_compute; congruence]. }
  split; [reflexivity |].
  split; [vm_compute; reflexivity |].
  split; [left; reflexivity |].
  split; [unfold in_region; cbn [fst snd]; split; [vm_compute; congruence | reflexivity] |].
  split; [vm_compute; discriminate | reflexivity].
Qed.

(* the bounded sink on the same input: nothing is written past the estimate, inline fallback *)
Example C28_new_write_same_input :
  let '(t', m', r) := allocate_and_write 65600 [(65544, 8)] (fun _ => 0) 8 [mk_chunk 12 (fun _ => 1)] in
  t' = [(65544, 8)] /\ r = None /\ m' 65544 = 0.
Proof. vm_compute. repeat split. Qed.
