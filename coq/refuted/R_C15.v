(* C15: behaviours of the code as it was before the repairs fixes/C15-*.diff, kept as witnesses.
   cfg_old is the configuration the translator produced from that source: the error serializer rendered no status as
   Arrow, the request-reading except clauses did not name OSError (pyarrow's ArrowIOError), the exchange shell caught
   ArrowInvalid only, and _read_request did not guard the trace-context decode. *)
From Coq Require Import List NArith Bool.
From VGI Require Import M_HttpStatus L_HttpStatus.
Import ListNotations.
Open Scope N_scope.

Definition cfg_old : config := mkCfg
  [MwMaxBytes; MwCompression; MwAuth] [413] [415; 415; 413; 400] [503; 401]
  []
  [415; 404] [400; 400; 400] (500, 200)
  [([HArrowInvalid; HTypeError; HStopIteration; HRpcError; HVersionError], 400); ([HException], 500)]
  [([HArrowInvalid; HTypeError; HStopIteration; HRpcError; HVersionError], 400); ([HException], 500)]
  [([HArrowInvalid], 400)]
  [400]
  false.

(* a client-controlled request body yields a 5xx (and a JSON body): damaged flatbuffer, or no batch, at /exchange *)
Lemma C15_old_5xx_refuted : exists r, status (run_with cfg_old r) = 500 /\ r_bd (run_with cfg_old r) = RbNotArrow.
Proof. exists (mkReq RExchange MKnown BCorruptIO CtOk CeNone TValid AOff CapOff OOk). vm_compute. split; reflexivity. Qed.
Lemma C15_old_5xx_no_batch_refuted : exists r, status (run_with cfg_old r) = 500.
Proof. exists (mkReq RExchange MKnownAlt BNoBatch CtOk CeZstd TValid AGood CapOn OOk). vm_compute. reflexivity. Qed.

(* 413 and the decompression 400 are not Arrow IPC *)
Lemma C15_old_413_not_arrow_refuted : exists r, status (run_with cfg_old r) = 413 /\ decodable (r_bd (run_with cfg_old r)) = false.
Proof. exists (mkReq RUnary MKnown BOversize CtOk CeNone TMissing AOff CapOn OOk). vm_compute. split; reflexivity. Qed.
Lemma C15_old_400_not_arrow_refuted : exists r, status (run_with cfg_old r) = 400 /\ decodable (r_bd (run_with cfg_old r)) = false.
Proof. exists (mkReq RInit MKnown BValid CtOk CeCorrupt TMissing AOff CapOff OOk). vm_compute. split; reflexivity. Qed.

(* a request that was never dispatched is answered 200 + marker: damaged flatbuffer, undecodable trace context *)
Lemma C15_old_200_without_dispatch_refuted :
  exists r, status (run_with cfg_old r) = 200 /\ marker (run_with cfg_old r) = true /\ defects r = [400].
Proof. exists (mkReq RUnary MKnown BCorruptIO CtOk CeNone TMissing AOff CapOff OOk). vm_compute. repeat split; reflexivity. Qed.
Lemma C15_old_200_traceparent_refuted :
  exists r, status (run_with cfg_old r) = 200 /\ marker (run_with cfg_old r) = true /\ defects r = [400].
Proof. exists (mkReq RInit MKnownAlt BBadTraceparent CtOk CeNone TMissing AOff CapOff OOk). vm_compute. repeat split; reflexivity. Qed.

(* outside these classes the old code already followed the table *)
Definition old_defect_class (r : req) : bool :=
  match r_body r with BCorruptIO | BNoBatch | BBadTraceparent => true | _ => false end
  || match r_cenc r with CeCorrupt => true | _ => false end
  || oversize r.
Lemma C15_old_partial_b :
  forallb (fun r => old_defect_class r || resp_eqb (run_with cfg_old r) (spec r)) all_reqs = true.
Proof. vm_compute. reflexivity. Qed.
Theorem C15_old_total_mapping_partial : forall r, old_defect_class r = false -> run_with cfg_old r = spec r.
Proof.
  intros r H. pose proof (decide_all _ C15_old_partial_b r) as E. cbv beta in E. rewrite H in E. simpl orb in E.
  apply resp_eqb_eq. exact E.
Qed.
