(* C36, documentation of two defects of the endpoint as it was before the repair
   (fixes/C36-ttl-unvalidated.diff, fixes/C36-surrogate-token-500.diff):
     - on_post had no guard on identity.ttl_seconds: whatever the resolver returned (0, negative, NaN,
       infinity, True, None, a str) was serialised into a 200 response -- NaN even as the non-JSON token NaN;
     - _read_token did not check that the token can be encoded: a lone surrogate (JSON "\ud800") passed,
       token_digest raised UnicodeEncodeError and the malformed subject was answered 500 instead of the
       uniform 404.
   [params_old] is the skeleton the translator produces for that source. *)
From Coq Require Import List NArith ZArith Bool.
From VGI Require Import Regex M_TokIntrospect L_TokIntrospect.
Import ListNotations.
Open Scope N_scope.

Definition steps_old : list step := [
  SGuardRefuse CNotIntrospector (Some false) false 403 s_not_an_introspector;
  SGuardRefuse CLimiterDenies (Some false) true 429 s_rate_limited;
  SReadToken;
  SGuardRefuse CTokenNone None false 404 s_unresolved;
  SDigest;
  SGuardRefuse CJwsShaped (Some true) false 404 s_unresolved;
  SResolve (Some true);
  SGuardRefuse CIdentityNone (Some true) false 404 s_unresolved;
  SRespond (Some true) [HJson; HNoStore]
    [(s_principal, FPrincipal); (s_token_name, FTokenName); (s_ttl_seconds, FTtl)]
].

Definition params_old : params := {|
  p_jws := jws_re; p_max_body := 8192; p_max_token := 4096;
  p_checks := [RkLengthOver; RkReadOver; RkJson; RkDict; RkToken];
  p_steps := steps_old;
  p_refuse_headers := [HJson; HNoStore]; p_refuse_key := s_error;
  p_disabled := (404, s_error, s_not_enabled, [HJson; HNoStore]) |}.

Definition old_env (t : str) (o : routcome) : env :=
  {| e_allow := [[112]]; e_resolver := fun _ => o; e_limiter_allows := true;
     e_caller := {| c_authenticated := true; c_principal := Some [112] |};
     e_body := {| b_content_length := Some 20; b_read_len := 20; b_shape := JObjToken t |} |}.

(* an allowlisted caller, a well-formed subject, a resolver answering ttl = NaN: 200 with ttl NaN *)
Lemma C36_old_ttl_refuted :
  exists E ttl, introspector E /\ e_limiter_allows E = true /\
    r_resp (endpoint params_old E) = resp_identity [120] [] ttl /\ ~ ttl_finite_positive ttl.
Proof.
  exists (old_env [97;98;99] (RIdentity [120] [] TNaN)), TNaN.
  split; [split; [reflexivity | split; [left; reflexivity | discriminate]] |].
  split; [reflexivity |]. split; [vm_compute; reflexivity |].
  intros (m & e & H & _). discriminate H.
Qed.

Lemma C36_old_ttl_nonpositive_refuted :
  r_resp (endpoint params_old (old_env [97;98;99] (RIdentity [120] [] (TInt (-5))))) = resp_identity [120] [] (TInt (-5))
  /\ r_resp (endpoint params_old (old_env [97;98;99] (RIdentity [120] [] (TInt 0)))) = resp_identity [120] [] (TInt 0)
  /\ r_resp (endpoint params_old (old_env [97;98;99] (RIdentity [120] [] (TInf false)))) = resp_identity [120] [] (TInf false).
Proof. repeat split; vm_compute; reflexivity. Qed.

(* a malformed subject (lone surrogate U+D800) is answered 500, not the uniform 404 *)
Lemma C36_old_surrogate_refuted :
  exists E, introspector E /\ e_limiter_allows E = true /\ (forall t, ~ subject (e_body E) t) /\
    r_resp (endpoint params_old E) = resp_500 /\ r_resp (endpoint params_old E) <> R404.
Proof.
  exists (old_env [55296] RNone).
  split; [split; [reflexivity | split; [left; reflexivity | discriminate]] |].
  split; [reflexivity |]. split.
  - intros t (_ & _ & Hs & _ & _ & Hf). cbn in Hs. inversion Hs; subst t.
    inversion Hf as [| c l Hc _]; subst. vm_compute in Hc. discriminate Hc.
  - split; [vm_compute; reflexivity | vm_compute; discriminate].
Qed.

(* the repaired skeleton answers both as the statement demands *)
Example C36_new_ttl : r_resp (endpoint P0 (old_env [97;98;99] (RIdentity [120] [] TNaN))) = resp_500.
Proof. vm_compute; reflexivity. Qed.
Example C36_new_surrogate : r_resp (endpoint P0 (old_env [55296] RNone)) = R404.
Proof. vm_compute; reflexivity. Qed.
