(* R_C10: HttpStreamSession BEFORE the repair fixes/C10-http-session-refuses-use-after-cancel.diff (hstep false):
   cancel() did not make the session refuse further use.  Both witnesses are replayed against the real code by
   props/C10.py (WITNESSES) on every run. *)
From Coq Require Import List NArith ZArith Bool String.
From VGI Require Import Corr M_Wire M_WireLife.
Import ListNotations.
Open Scope N_scope.

Definition rb (t : N) : batch := {| rows := 1; tag := t; meta := [] |}.
Definition rs (t : N) : step := {| slogs := []; emit := Some (rb t); fin := false; sraise := None |}.
Definition rsp (n : list N) : stream_prog := {| ilogs := []; ires := InitOk; hdr := Some 0%Z; steps := map rs n |}.
Definition rcfg : httpcfg := {| cap := None; fsize := fun _ => 100; base := 100 |}.

(* cancel before the first batch, then iterate: the batch pre-loaded by /init is delivered although on_cancel has run *)
Lemma C10_http_iterate_after_cancel_refuted :
  life_http false rcfg (rsp [0; 1]) false true CbRecord [OCancel; OIter None]
  = ([], [CProcess 0], [([], [CCancel 1]); ([EBatch (rb 0); EDone], [])])
  /\ exists sg, nth_error (snd (life_http false rcfg (rsp [0; 1]) false true CbRecord [OCancel; OIter None])) 1 = Some sg /\ ~ refusal (OIter None) sg.
Proof.
  split; [vm_compute; reflexivity|]. eexists. split; [vm_compute; reflexivity|].
  intros [_ [H _]]. vm_compute in H. discriminate H.
Qed.

(* an iterator suspended inside a continuation response goes on after cancel: it requests the next turn, so the state
   is processed again (CProcess 2 after CCancel) and its batch delivered *)
Lemma C10_http_suspended_iterator_refuted :
  life_http false rcfg (rsp [0; 1; 2]) false true CbRecord [OIter (Some 2%nat); OCancel; OResume]
  = ([], [CProcess 0], [([EBatch (rb 0); EBatch (rb 1)], [CProcess 1]); ([], [CCancel 1]); ([EBatch (rb 2)], [CProcess 2])]).
Proof. vm_compute. reflexivity. Qed.

(* the repaired client on the same scripts *)
Lemma C10_http_repaired_on_witnesses :
  snd (life_http true rcfg (rsp [0; 1]) false true CbRecord [OCancel; OIter None]) = [([], [CCancel 1]); ([refused], [])]
  /\ snd (life_http true rcfg (rsp [0; 1; 2]) false true CbRecord [OIter (Some 2%nat); OCancel; OResume])
     = [([EBatch (rb 0); EBatch (rb 1)], [CProcess 1]); ([], [CCancel 1]); ([refused], [])].
Proof. vm_compute. split; reflexivity. Qed.
