From Coq Require Import List NArith ZArith Bool.
From VGI Require Import Corr M_Wire M_WireLife.
Import ListNotations.
Open Scope N_scope.
