(* C31, behaviour of the unchanged code that contradicts "returns exactly the object's decoded bytes or fails":
   the parallel path trusts the length the probe reported.  The origin holds the 4-byte object [1;2;3;4]; HEAD
   under-reports Content-Length: 2 (Accept-Ranges: bytes); the single range request bytes=0-1 is answered honestly
   with 206 and the slice [1;2].  Every hypothesis of C31_exact_or_fail_partial except `probed_length_true` holds,
   the attempt succeeds - and returns the 2-byte prefix. *)
From Coq Require Import List ZArith NArith Bool.
From VGI Require Import M_Fetch L_Fetch L_FetchTop L_FetchThm.
Import ListNotations.
Open Scope Z_scope.

Definition r_cfg : cfg := mkCfg 1 2 100 None 5%N 4 4.
Definition r_obj : list N := [1; 2; 3; 4]%N.
Definition r_head : resp := mkResp NoFault 200 LNone (CInt 2) ARBytes 0 None [] false.
Definition r_206 : resp := mkResp NoFault 206 LNone CAbsent ARAbsent 0 None [[1; 2]%N] false.
Definition r_script : ascript := mkScript [r_head] [] [(0, 1, [r_206])] [([0%nat], [], 1)].

Lemma C31_exact_or_fail_refuted :
  exists c sc obj d o,
    0 < c_chunk c
    /\ origin_serves (fun _ => true) c false 7%N sc obj
    /\ attempt (fun _ => true) c false 7%N (fun _ _ _ => None) sc = (ROk d, o)
    /\ d <> obj /\ d = firstn 2 obj.
Proof.
  exists r_cfg, r_script, r_obj, [1; 2]%N.
  eexists. split; [reflexivity|]. split; [|split; [vm_compute; reflexivity | split; [discriminate | reflexivity]]].
  split.
  - intros rs tr H. vm_compute in H. discriminate.
  - intros z ar ce tid t0 t1 hops rg x ob HP Hin Ht Hrun.
    vm_compute in HP. inversion HP; subst z ar ce. clear HP.
    vm_compute in Hin. destruct Hin as [Hin|[]]. subst rg.
    destruct tid as [|tid]; simpl in Ht; [|destruct tid; discriminate].
    inversion Ht; subst. clear Ht.
    vm_compute in Hrun. inversion Hrun; subst. reflexivity.
Qed.
Print Assumptions C31_exact_or_fail_refuted.
