(* R_C04: behaviours of the code, as modelled in M_WireConn (correspondence-checked against the real RpcServer / client on
   pipes, unix and tcp sockets, and each witness replayed on the real code by props/C04.py WITNESSES), that CONTRADICT
   the statement: a call ends and the connection is not clean, so the next call -- any call -- is Desync.
   v_old = the source before the two candidate repairs; "forall v" = both variants. *)
From Coq Require Import List NArith ZArith Bool String.
From VGI Require Import Corr M_Wire M_WireConn.
Import ListNotations.
Open Scope N_scope.

Definition b1 (t : N) : batch := {| rows := 1; tag := t; meta := [] |}.
Definition boom : exn := {| cls := s "ValueError"; emsg := s "boom"; kind := None |}.
Definition lg (l : level) (t : string) : logmsg := {| lvl := l; text := s t; extra := [] |}.
Definition ok (ls : list logmsg) (t : N) : step := {| slogs := ls; emit := Some (b1 t); fin := false; sraise := None |}.
Definition spx (ls : list logmsg) (i : init_res) (h : option Z) (sts : list step) : prog := PStream {| ilogs := ls; ires := i; hdr := h; steps := sts |}.
Definition probe : prog * script := (PUnary {| ulogs := []; ures_of := UOk 41 |}, SUnary CbRecord).

(* what "the connection is lost" means for ANY following call *)
Definition breaks (v : variant) (p : prog) (sc : script) : Prop :=
  clean (snd (conn_call v p sc)) = false /\ forall q, run_seq v conn0 [(p, sc); q] = [Obs (fst (conn_call v p sc)); Desync].
Lemma breaks_of v p sc : clean (snd (conn_call v p sc)) = false -> breaks v p sc.
Proof. intro H. split; [exact H|]. intros [p' sc']. cbn [run_seq]. destruct (conn_call v p sc) as [t c']. cbn [snd fst] in *. rewrite H. reflexivity. Qed.
Ltac refuted := repeat split; try reflexivity; intros [p' sc']; reflexivity.

(* (a) implementation faults the unrepaired server does not catch: the exception leaves serve(); the client blocks *)
Lemma C04_missing_declared_header_refuted : exists p sc,
  shape_ok p sc = true /\ records sc = true /\ no_exc_logs p = true /\ ends_call sc = true
  /\ breaks v_old p sc /\ fst (conn_call v_old p sc) = [EBlocked] /\ srv (snd (conn_call v_old p sc)) = SDead.
Proof. exists (spx [] InitOk None [ok [] 0]), (SIter true 1 AClose CbRecord). refuted. Qed.

Lemma C04_non_stream_return_refuted : exists p sc,
  shape_ok p sc = true /\ records sc = true /\ no_exc_logs p = true /\ ends_call sc = true
  /\ breaks v_old p sc /\ fst (conn_call v_old p sc) = [EBlocked] /\ srv (snd (conn_call v_old p sc)) = SDead.
Proof. exists (spx [] InitBadReturn (Some 5%Z) [ok [] 0]), (SIter false 1 AClose CbRecord). refuted. Qed.

(* (b) unrepaired client: an exception raised by on_log leaves the rest of a UNARY response unread *)
Lemma C04_unary_raising_callback_refuted : exists u,
  breaks v_old (PUnary u) (SUnary CbRaise) /\ s2c (snd (conn_call v_old (PUnary u) (SUnary CbRaise))) = [FData (b1 7); FEos].
Proof. exists {| ulogs := [lg INFO "l"]; ures_of := UOk 7 |}. split; [apply breaks_of|]; reflexivity. Qed.

(* (c) BOTH variants: init error (or rejection: unknown method, parameter, version) on a stream method WITHOUT header.
   The server answers with an error stream and returns to the top of serve() without consuming the input stream the
   client is about to open; that input stream is then read as a request. *)
Lemma C04_headerless_init_error_refuted : forall v, exists p sc,
  shape_ok p sc = true /\ records sc = true /\ no_exc_logs p = true /\ ends_call sc = true
  /\ breaks v p sc /\ fst (conn_call v p sc) = [err_event boom]
  /\ s2c (snd (conn_call v p sc)) = [FErr proto_exn; FEos] /\ srv (snd (conn_call v p sc)) = STop.
Proof. intro v. exists (spx [] (InitRaise boom) (Some 5%Z) [ok [] 0]), (SIter false 1 AClose CbRecord). refuted. Qed.

(* ... and when the client closes before its first tick / exchange the input stream is EMPTY: StopIteration inside
   _read_request ends the serve loop silently *)
Lemma C04_headerless_init_error_then_close_ends_serve_refuted : forall v, exists p sc,
  shape_ok p sc = true /\ records sc = true /\ ends_call sc = true
  /\ breaks v p sc /\ fst (conn_call v p sc) = [] /\ srv (snd (conn_call v p sc)) = SDead.
Proof. intro v. exists (spx [] (InitRaise boom) (Some 5%Z) [ok [] 0]), (SExch false 0 AClose CbRecord). refuted. Qed.

(* the repaired server answers a non-Stream return like an init error -- on a headerless method that is class (c) *)
Lemma C04_repaired_fault_on_headerless_method_refuted : exists p sc,
  breaks v_repaired p sc /\ s2c (snd (conn_call v_repaired p sc)) = [FErr proto_exn; FEos].
Proof. exists (spx [] InitBadReturn (Some 5%Z) [ok [] 0]), (SIter false 1 AClose CbRecord). split; [apply breaks_of|]; reflexivity. Qed.

(* (d) BOTH variants: an exception raised by on_log inside a STREAM call.  In the header read nothing is drained and no
   session exists while the server waits for an input stream; in tick()/exchange() the rest of the reply stays unread
   even when the client closes the session, because close() dispatches the next log to the same callback *)
Lemma C04_stream_raising_callback_header_refuted : forall v, exists p sc,
  shape_ok p sc = true /\ no_exc_logs p = true /\ ends_call sc = true
  /\ breaks v p sc /\ srv (snd (conn_call v p sc)) = SStream /\ s2c (snd (conn_call v p sc)) = [FHdr 5; FEos].
Proof. intro v. exists (spx [lg INFO "l"] InitOk (Some 5%Z) [ok [] 0]), (SIter true 1 AClose CbRaise). refuted. Qed.

Lemma C04_stream_raising_callback_tick_refuted : forall v, exists p sc,
  shape_ok p sc = true /\ no_exc_logs p = true /\ ends_call sc = true
  /\ breaks v p sc /\ srv (snd (conn_call v p sc)) = STop /\ s2c (snd (conn_call v p sc)) = [FData (b1 0); FEos].
Proof. intro v. exists (spx [] InitOk (Some 5%Z) [ok [lg INFO "a"; lg INFO "b"] 0; ok [] 1]), (SIter false 2 AClose CbRaise). refuted. Qed.

(* (e) BOTH variants: a client-directed log at EXCEPTION level in a stream call.  In the header stream the client raises
   RpcError, drains the header stream and returns NO session while the server is inside the stream; and close()'s drain
   stops at the first RpcError, leaving the end-of-stream marker (and anything before it) unread *)
Lemma C04_exception_level_init_log_header_refuted : forall v, exists p sc,
  shape_ok p sc = true /\ records sc = true /\ ends_call sc = true
  /\ breaks v p sc /\ srv (snd (conn_call v p sc)) = SStream /\ s2c (snd (conn_call v p sc)) = [].
Proof. intro v. exists (spx [lg EXC "x"] InitOk (Some 5%Z) [ok [] 0]), (SIter true 1 AClose CbRecord). refuted. Qed.

Lemma C04_exception_level_log_close_drain_refuted : forall v, exists p sc,
  shape_ok p sc = true /\ records sc = true /\ ends_call sc = true
  /\ breaks v p sc /\ srv (snd (conn_call v p sc)) = STop /\ s2c (snd (conn_call v p sc)) = [FEos].
Proof. intro v. exists (spx [lg EXC "x"] InitOk (Some 5%Z) [ok [] 0]), (SIter false 0 AClose CbRecord). refuted. Qed.

(* (f) for the record (NOT counted against the statement, see props/C04.py "Readings"): a session that is neither
   exhausted nor closed keeps the server inside the stream *)
Lemma C04_abandoned_open_session_refuted : forall v, exists p sc,
  ends_call sc = false /\ breaks v p sc /\ srv (snd (conn_call v p sc)) = SStream /\ cli (snd (conn_call v p sc)) = CSession.
Proof. intro v. exists (spx [] InitOk (Some 5%Z) [ok [] 0; ok [] 1]), (SIter false 1 AAbandon CbRecord). refuted. Qed.
