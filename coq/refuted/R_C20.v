(* C20, documentation of the defect: the exemption as it stood before the repair.
   make_wsgi_app put f"{prefix}/health" into the list that _AuthMiddleware tests with
   `any(req.path.startswith(pfx) for pfx in self._exempt_prefixes)`, i.e. a prefix test without a segment
   boundary.  Every path that merely starts like the health endpoint was exempt: the unary method `healthz`
   or `health_check`, and the stream routes health/init and health/exchange of a stream method `health`.
   With a rejecting callback those requests were dispatched (the real server answered 200 and the method ran). *)
From Coq Require Import List NArith Bool.
From VGI Require Import M_Exempt L_Exempt.
Import ListNotations.
Open Scope N_scope.

Definition old_exempt_pexp : pexp :=
  POr (PMethodIs s_OPTIONS)
  (POr (PPath KStartsWith (SLit (s_well_known ++ slash)))
       (PAny KStartsWith [(GAtom AHealth, SCat SPrefix (SLit s_health));
                          (pkce_guard, SCat SPrefix (SLit (s_oauth ++ slash)))])).

Definition r_env : env := env_of (true, false, false, true, false).   (* authenticate + health endpoint *)
Definition r_POST : list N := [80; 79; 83; 84].
Definition r_healthz : list N := s_health ++ [122].                               (* "/healthz" *)
Definition r_health_init : list N := s_health ++ [47; 105; 110; 105; 116].        (* "/health/init" *)

(* the old predicate exempts requests outside the four classes of the property ... *)
Lemma C20_old_exempt_refuted : exists e prefix meth path,
  e AAuth = true /\ exempt_with old_exempt_pexp e prefix meth path = true /\ ~ allowed e prefix meth path.
Proof.
  exists r_env, [], r_POST, r_healthz. split; [reflexivity |]. split; [vm_compute; reflexivity |].
  apply exempt_false_iff. vm_compute. reflexivity.
Qed.

Lemma C20_old_exempt_refuted_stream_route : exists e prefix meth path,
  e AAuth = true /\ exempt_with old_exempt_pexp e prefix meth path = true /\ ~ allowed e prefix meth path.
Proof.
  exists r_env, [], r_POST, r_health_init. split; [reflexivity |]. split; [vm_compute; reflexivity |].
  apply exempt_false_iff. vm_compute. reflexivity.
Qed.

(* ... and such a request was dispatched although the callback rejects everything it is asked about *)
Lemma C20_old_dispatch_refuted : exists e prefix meth path,
  e AAuth = true /\ ~ allowed e prefix meth path /\
  In EvDispatch (handle_with old_exempt_pexp middleware_list e (fun _ => false) false prefix meth path).
Proof.
  exists r_env, [], r_POST, r_healthz. split; [reflexivity |]. split.
  - apply exempt_false_iff. vm_compute. reflexivity.
  - vm_compute. tauto.
Qed.

(* the repaired predicate refuses both *)
Example C20_new_refuses_healthz : exempt r_env [] r_POST r_healthz = false.
Proof. vm_compute; reflexivity. Qed.
Example C20_new_refuses_health_init : exempt r_env [] r_POST r_health_init = false.
Proof. vm_compute; reflexivity. Qed.
